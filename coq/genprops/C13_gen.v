(* C13_gen -- the pattern conversions and the container constructor GENERATED from
   src/vrpqubo/tools/qubo_tools.py (coq/gen/QuboGen.v, written by harness/translate_qubotools.py on every run
   of bin/check C13) coincide with the hand model Qubo.v; the C13 statements hold for the generated functions.

   Not part of the coq_makefile project (it depends on a generated file); harness/props/c13.py compiles
   gen/QuboGen.v and then this file (ctx.gen_step) and counts every theorem below as a proof obligation.
   Self-contained (it does not import C01_gen: the two files are compiled by different checks).

   All statements: every carrier K with ring operations, every shape, every matrix given by its entries, every
   pattern string.  `mat_is P sh M` = "P has shape sh and the entries of M at ALL indices". *)
From Coq Require Import Ring Arith ZArith Lia List Bool String QArith Qcanon.
From VQ Require Import Base LinAlg Qubo Qubo_facts PyQubo PyQubo_facts.
From VQG Require Import QuboGen.
Set Printing Width 400.

Section C13_gen.
  Variables (K : Type) (k0 k1 : K) (kadd kmul ksub : K -> K -> K) (kopp : K -> K).
  Hypothesis Kring : ring_theory k0 k1 kadd kmul ksub kopp (@eq K).
  Add Ring KrG13 : Kring.
  Variables (half quarter : K).
  Hypothesis Hhalf : kmul (two K k1 kadd) half = k1.
  Hypothesis Hquarter : kmul (four K k1 kadd) quarter = k1.

  Notation vec := (nat -> K).
  Notation mat := (nat -> nat -> K).
  Notation ops_of t := (mkops k0 k1 kadd kmul ksub kopp half quarter t).
  Notation binary := (LinAlg.binary K k0 k1).
  Notation qf := (LinAlg.qf K k0 kadd kmul).
  Notation x2s := (Qubo.x2s K k1 kadd kmul ksub).
  Notation eQ := (Qubo.eQ K k0 kadd kmul).
  Notation eI := (Qubo.eI K k0 kadd kmul).
  Notation upper := (Qubo.upper K k0 kadd ksub).
  Notation sym := (Qubo.sym K kadd kmul half).
  Notation upper_checked := (Qubo.upper_checked K k0 kadd ksub).
  Notation sym_checked := (Qubo.sym_checked K kadd kmul half).
  Notation cQ := (Qubo.cQ K k0 kadd kmul ksub half).
  Notation cJ := (Qubo.cJ K k0 kadd kmul ksub half quarter).
  Notation ch := (Qubo.ch K k0 kadd kmul ksub kopp half quarter).
  Notation cc := (Qubo.cc K k0 kadd kmul ksub half quarter).
  Notation container_init := (Qubo.container_init K k0 kadd kmul ksub kopp half quarter).
  Notation q2i_J := (Qubo.q2i_J K k0 kmul quarter).
  Notation q2i_h := (Qubo.q2i_h K k0 kadd kmul kopp quarter).
  Notation q2i_c := (Qubo.q2i_c K k0 kadd kmul quarter).

  (* ---------------- to_upper_triangular ---------------- *)
  (* same outcome as the hand model for EVERY shape; on square shapes the entries of Qubo.upper *)
  Theorem C13_gen_to_upper_triangular : forall (trunc : K -> K) (sh : nat * nat) (M : mat),
    res_rel (fun g m => mat_is g sh m)
            (gen_to_upper_triangular K (ops_of trunc) (mkmat sh M)) (upper_checked sh M).
  Proof.
    intros trunc [n m] M. unfold gen_to_upper_triangular, Qubo.upper_checked, square. py_simpl.
    destruct (Nat.eqb_spec n m) as [<-|Hne]; cbn [negb res_rel]; [|reflexivity].
    py_simpl. repeat split; py_close.
  Qed.

  (* ---------------- to_symmetric ---------------- *)
  Theorem C13_gen_to_symmetric : forall (trunc : K -> K) (sh : nat * nat) (M : mat),
    res_rel (fun g m => mat_is g sh m)
            (gen_to_symmetric K (ops_of trunc) (mkmat sh M)) (sym_checked sh M).
  Proof.
    intros trunc [n m] M. unfold gen_to_symmetric, Qubo.sym_checked, square. py_simpl.
    destruct (Nat.eqb_spec n m) as [<-|Hne]; cbn [negb res_rel]; [|reflexivity].
    py_simpl. repeat split; py_close.
  Qed.

  (* ---------------- QUBO_to_Ising (as the container constructor uses it) ---------------- *)
  (* on ANY shaped value P that is square with the entries of Q: the model's J, h, c of Q *)
  Theorem C13_gen_QUBO_to_Ising : forall (trunc : K -> K) (P : pmat K) (n : nat) (Q : mat) (c : K),
    mat_is P (n, n) Q ->
    exists J h ci,
      gen_QUBO_to_Ising K (ops_of trunc) P c = Ok (J, h, ci) /\
      mat_is J (n, n) (q2i_J Q) /\ vec_is h n (q2i_h n Q) /\ ci = q2i_c n Q c.
  Proof.
    intros trunc [sh Pe] n Q c [Hs HP]. cbn [mshape ent] in Hs, HP. subst sh.
    unfold gen_QUBO_to_Ising. py_simpl. rewrite Nat.eqb_refl. cbn [negb]. py_simpl. rewrite ?Nat.min_id.
    eexists _, _, _. split; [reflexivity|].
    assert (EJ : forall i j, q2i_J Pe i j = q2i_J Q i j) by (intros; apply q2i_J_ext; exact HP).
    assert (Eh : forall i, q2i_h n Pe i = q2i_h n Q i) by (intros; apply q2i_h_ext; exact HP).
    assert (Ec : q2i_c n Pe c = q2i_c n Q c) by (apply q2i_c_ext; exact HP).
    repeat split; try (intros; rewrite <- ?EJ, <- ?Eh, <- ?Ec); py_close.
  Qed.

  (* ---------------- QUBOContainer.__init__ ---------------- *)
  (* same outcome as the hand model for every shape and EVERY pattern string; on square shapes the fields
     (Q, const_qubo, J, h, const_ising) are the model's, entry by entry, and n_vars is the size *)
  Theorem C13_gen_QUBOContainer_init :
    forall (trunc : K -> K) (sh : nat * nat) (pat : string) (M : mat) (c : K),
    res_rel (fun g m =>
               match m with
               | (Q, c0, J, h, ci) =>
                   mat_is (f_Q g) sh Q /\ f_const_qubo g = c0 /\ mat_is (f_J g) sh J /\
                   vec_is (f_h g) (fst sh) h /\ f_const_ising g = ci /\ f_n_vars g = fst sh
               end)
            (gen_QUBOContainer_init K (ops_of trunc) (mkmat sh M) c pat) (container_init sh pat M c).
  Proof.
    intros trunc [n m] pat M c.
    unfold gen_QUBOContainer_init, Qubo.container_init, classify, square. py_simpl.
    destruct (Nat.eqb_spec n m) as [<-|Hne]; cbn [negb res_rel]; [|reflexivity].
    pose proof (C13_gen_to_upper_triangular trunc (n, n) M) as HU.
    pose proof (C13_gen_to_symmetric trunc (n, n) M) as HS.
    unfold Qubo.upper_checked, Qubo.sym_checked, square in HU, HS. cbn [fst snd] in HU, HS.
    rewrite Nat.eqb_refl in HU, HS.
    destruct (String.eqb (lower pat) "upper-triangular"); [|destruct (String.eqb (lower pat) "symmetric")].
    - destruct (gen_to_upper_triangular K (ops_of trunc) (mkmat (n, n) M)) as [U|e]; [|contradiction].
      cbn [res_rel] in HU. cbn [rbind].
      destruct (C13_gen_QUBO_to_Ising trunc U n (upper M) c HU) as (J & h & ci & E & HJ & Hh & Hci).
      rewrite E. cbn [rbind res_rel]. py_simpl. unfold Qubo.cJ, Qubo.ch, Qubo.cc. cbn [Qubo.cQ].
      repeat split; try reflexivity; try apply HU; try apply HJ; try apply Hh; exact Hci.
    - destruct (gen_to_symmetric K (ops_of trunc) (mkmat (n, n) M)) as [S|e]; [|contradiction].
      cbn [res_rel] in HS. cbn [rbind].
      destruct (C13_gen_QUBO_to_Ising trunc S n (sym M) c HS) as (J & h & ci & E & HJ & Hh & Hci).
      rewrite E. cbn [rbind res_rel]. py_simpl. unfold Qubo.cJ, Qubo.ch, Qubo.cc. cbn [Qubo.cQ].
      repeat split; try reflexivity; try apply HS; try apply HJ; try apply Hh; exact Hci.
    - assert (HM : mat_is (mkmat (n, n) M) (n, n) M) by (split; reflexivity).
      destruct (C13_gen_QUBO_to_Ising trunc _ n M c HM) as (J & h & ci & E & HJ & Hh & Hci).
      rewrite E. cbn [rbind res_rel]. py_simpl. unfold Qubo.cJ, Qubo.ch, Qubo.cc. cbn [Qubo.cQ].
      repeat split; try reflexivity; try apply HJ; try apply Hh; exact Hci.
  Qed.

  (* the default pattern selects the upper-triangular conversion *)
  Theorem C13_gen_default_pattern : forall (trunc : K -> K),
    classify (gen_QUBOContainer_init_default_pattern K (ops_of trunc)) = PUpper.
  Proof. intros. reflexivity. Qed.

  (* ---------------- non-square shapes: every generated entry point raises ValueError ---------------- *)
  Theorem C13_gen_nonsquare_rejected :
    forall (trunc : K -> K) (sh : nat * nat) (pat : string) (M : mat) (h : pvec K) (c : K),
    fst sh <> snd sh ->
    gen_to_upper_triangular K (ops_of trunc) (mkmat sh M) = Err ValueError /\
    gen_to_symmetric K (ops_of trunc) (mkmat sh M) = Err ValueError /\
    gen_QUBOContainer_init K (ops_of trunc) (mkmat sh M) c pat = Err ValueError /\
    gen_QUBO_to_Ising K (ops_of trunc) (mkmat sh M) c = Err ValueError /\
    gen_Ising_to_QUBO K (ops_of trunc) (mkmat sh M) h c = Err ValueError.
  Proof.
    intros trunc [n m] pat M h c H. cbn [fst snd] in H. apply Nat.eqb_neq in H.
    unfold gen_to_upper_triangular, gen_to_symmetric, gen_QUBOContainer_init, gen_QUBO_to_Ising, gen_Ising_to_QUBO.
    py_simpl. rewrite H. cbn [negb]. repeat split; reflexivity.
  Qed.

  (* ---------------- the container's evaluators ---------------- *)
  (* QUBOContainer.evaluate_QUBO / evaluate_Ising are the model's eQ / eI on the container's fields *)
  Theorem C13_gen_container_evaluators :
    forall (trunc : K -> K) (n : nat) (C : container K) (v : pvec K),
    mshape (f_Q C) = (n, n) -> mshape (f_J C) = (n, n) -> vlen (f_h C) = n ->
    gen_QUBOContainer_evaluate_QUBO K (ops_of trunc) C v = eQ n (ent (f_Q C)) (f_const_qubo C) (vent v) /\
    gen_QUBOContainer_evaluate_Ising K (ops_of trunc) C v
      = eI n (ent (f_J C)) (vent (f_h C)) (f_const_ising C) (vent v).
  Proof.
    intros trunc n C v HQ HJ Hh.
    unfold gen_QUBOContainer_evaluate_QUBO, gen_QUBOContainer_evaluate_Ising, gen_evaluate_QUBO, gen_evaluate_Ising,
           Qubo.eQ, Qubo.eI.
    py_simpl. rewrite HQ, HJ, Hh. py_simpl.
    rewrite !(dot_mv_qf K k0 k1 kadd kmul ksub kopp Kring). split; reflexivity.
  Qed.

  (* ---------------- the C13 statements for the GENERATED functions ---------------- *)
  (* to_upper_triangular / to_symmetric keep the quadratic form at EVERY vector x *)
  Theorem C13_gen_conversions_preserve_form : forall (trunc : K -> K) (n : nat) (M : mat) (x : vec),
    (exists U, gen_to_upper_triangular K (ops_of trunc) (mkmat (n, n) M) = Ok U /\ mshape U = (n, n) /\
               qf n (ent U) x = qf n M x /\ forall i j, (j < i)%nat -> ent U i j = k0) /\
    (exists S, gen_to_symmetric K (ops_of trunc) (mkmat (n, n) M) = Ok S /\ mshape S = (n, n) /\
               qf n (ent S) x = qf n M x /\ forall i j, ent S i j = ent S j i).
  Proof.
    intros trunc n M x. split.
    - pose proof (C13_gen_to_upper_triangular trunc (n, n) M) as HR.
      unfold Qubo.upper_checked, square in HR. cbn [fst snd] in HR. rewrite Nat.eqb_refl in HR.
      destruct (gen_to_upper_triangular K (ops_of trunc) (mkmat (n, n) M)) as [U|e]; [|contradiction].
      destruct HR as [Hs HU]. exists U. split; [reflexivity|]. split; [exact Hs|]. split.
      + rewrite (qf_ext_all K k0 kadd kmul n (ent U) (upper M) x x HU (fun i _ => eq_refl)).
        exact (upper_qf K k0 k1 kadd kmul ksub kopp Kring n M x).
      + intros i j Hji. rewrite HU. exact (upper_below K k0 k1 kadd kmul ksub kopp Kring M i j Hji).
    - pose proof (C13_gen_to_symmetric trunc (n, n) M) as HR.
      unfold Qubo.sym_checked, square in HR. cbn [fst snd] in HR. rewrite Nat.eqb_refl in HR.
      destruct (gen_to_symmetric K (ops_of trunc) (mkmat (n, n) M)) as [S|e]; [|contradiction].
      destruct HR as [Hs HS]. exists S. split; [reflexivity|]. split; [exact Hs|]. split.
      + rewrite (qf_ext_all K k0 kadd kmul n (ent S) (sym M) x x HS (fun i _ => eq_refl)).
        exact (sym_qf K k0 k1 kadd kmul ksub kopp Kring half Hhalf n M x).
      + intros i j. rewrite !HS. exact (sym_symmetric K k0 k1 kadd kmul ksub kopp Kring half M i j).
  Qed.

  (* the generated container is consistent, for EVERY pattern string: its QUBO value at a binary x and its Ising
     value at x_to_s(x) both equal the ORIGINAL x'Mx + c; J has a zero diagonal.  astype(int) in x_to_s is any
     function fixing 1 and -1. *)
  Theorem C13_gen_container_consistent : forall (trunc : K -> K),
    trunc k1 = k1 -> trunc (kopp k1) = kopp k1 ->
    forall (n : nat) (pat : string) (M : mat) (c : K) (x : vec), binary n x ->
    exists C,
      gen_QUBOContainer_init K (ops_of trunc) (mkmat (n, n) M) c pat = Ok C /\
      gen_QUBOContainer_evaluate_QUBO K (ops_of trunc) C (mkvec n x) = eQ n M c x /\
      gen_QUBOContainer_evaluate_Ising K (ops_of trunc) C (gen_x_to_s K (ops_of trunc) (mkvec n x)) = eQ n M c x /\
      (forall i, ent (f_J C) i i = k0).
  Proof.
    intros trunc H1 Hm1 n pat M c x Hb.
    pose proof (C13_gen_QUBOContainer_init trunc (n, n) pat M c) as HR.
    unfold Qubo.container_init, square in HR. cbn [fst snd] in HR. rewrite Nat.eqb_refl in HR.
    destruct (gen_QUBOContainer_init K (ops_of trunc) (mkmat (n, n) M) c pat) as [C|e]; [|contradiction].
    cbn [res_rel fst] in HR. destruct HR as ([HQs HQ] & Hc & [HJs HJ] & [Hhl Hh] & Hci & _).
    exists C. split; [reflexivity|].
    destruct (C13_gen_container_evaluators trunc n C (mkvec n x) HQs HJs Hhl) as [EQ _].
    destruct (C13_gen_container_evaluators trunc n C (gen_x_to_s K (ops_of trunc) (mkvec n x)) HQs HJs Hhl) as [_ EI].
    rewrite EQ, EI. cbn [vent].
    destruct (container_consistent K k0 k1 kadd kmul ksub kopp Kring half quarter Hhalf Hquarter n (classify pat) M c x Hb)
      as (A1 & A2 & A3 & _).
    split; [|split].
    - rewrite Hc, <- A1. apply eQ_ext; auto.
    - rewrite <- A2. apply eI_ext; auto.
      intros i Hi. unfold gen_x_to_s. py_simpl.
      exact (trunc_x2s K k0 k1 kadd kmul ksub kopp Kring trunc n x i H1 Hm1 Hb Hi).
    - intros i. rewrite HJ. apply A3.
  Qed.
End C13_gen.

Print Assumptions C13_gen_to_upper_triangular.
Print Assumptions C13_gen_to_symmetric.
Print Assumptions C13_gen_QUBO_to_Ising.
Print Assumptions C13_gen_QUBOContainer_init.
Print Assumptions C13_gen_default_pattern.
Print Assumptions C13_gen_nonsquare_rejected.
Print Assumptions C13_gen_container_evaluators.
Print Assumptions C13_gen_conversions_preserve_form.
Print Assumptions C13_gen_container_consistent.

(* ---------------- carrier Qc, astype(int) read literally ---------------- *)
Definition ops_Qc13 : ops Qc := mkops 0%Qc 1%Qc Qcplus Qcmult Qcminus Qcopp Qc_half Qc_quarter trunc_Qc.

Theorem C13_gen_Qc_container_consistent :
  forall (n : nat) (pat : string) (M : nat -> nat -> Qc) (c : Qc) (x : nat -> Qc),
  LinAlg.binary Qc 0%Qc 1%Qc n x ->
  exists C,
    gen_QUBOContainer_init Qc ops_Qc13 (mkmat (n, n) M) c pat = Ok C /\
    gen_QUBOContainer_evaluate_QUBO Qc ops_Qc13 C (mkvec n x) = eQ_Qc n M c x /\
    gen_QUBOContainer_evaluate_Ising Qc ops_Qc13 C (gen_x_to_s Qc ops_Qc13 (mkvec n x)) = eQ_Qc n M c x /\
    (forall i, ent (f_J C) i i = 0%Qc).
Proof.
  exact (C13_gen_container_consistent Qc 0%Qc 1%Qc Qcplus Qcmult Qcminus Qcopp Qcrt Qc_half Qc_quarter Qc_half_ok Qc_quarter_ok
           trunc_Qc trunc_Qc_one trunc_Qc_minus_one).
Qed.
Print Assumptions C13_gen_Qc_container_consistent.
