(* C05_gen.v -- the objective / constraint assembly of ArcBasedRoutingProblem as GENERATED from the source
   (coq/gen/ArcConsGen.v on top of coq/gen/ArcGen.v, both written on every run by
   harness/translate_arccons.py) equals the hand model Arc.v, and the C05 theorems that are stated in terms
   of the constraint system hold for the generated A, b, c.
     coqc -Q theories VQ -Q props VQP -Q gen VQG -Q genprops VQGP genprops/C05_gen.v
   Only Theorems.  Every statement is for ALL object states `self` and ALL problems I:
     cons_holds self I     the object holds I's graph and sorted grid, and a set variables_enumerated flag
                           means that var_mapping / num_variables are those of I (PyArc.arc_coherent);
     cons_coherent self I  a set objective_built / constraints_built flag means the stored data are I's.
   The first block re-proves, for the copy of ArcGen.v this package writes, what C18_arc_gen.v proves about the
   enumeration (same proofs), so that this file depends on no other genprops file. *)
From Coq Require Import String ZifyBool Sorting.Permutation.
From VQ Require Import Base Vrptw Vrptw_facts Arc Arc_ref Arc_facts Arc_routes Arc_complete PyEnumCore PyEnumCore_facts
  PyArc PyArc_facts PyArcCons PyArcCons_facts.
From VQP Require Import C05.
From VQG Require Import ArcGen ArcConsGen.

(* ---------- the enumeration the assembly methods call (ArcGen.v) ---------- *)
Theorem C05_gen_base_loop_t : forall self0 i j s t e,
  gen_enumerate_variables_quicker_body3 i j s t (arc_lift self0 e) =
  if t <? win_lo (s_graph self0) j then (CNext, arc_lift self0 e)
  else if above t (win_hi (s_graph self0) j) then (CBreak, arc_lift self0 e)
  else (CNext, arc_lift self0 (enum_t i s j (att (arc_at (s_graph self0) i j)) t e)).
Proof.
  intros. unfold gen_enumerate_variables_quicker_body3, arc_lift. cbn [fst snd].
  unfold py_nodes_item, py_arcs_item, py_get_window, py_get_travel_time, win_lo, win_hi, enum_t, py_append,
    above, ext_gtb.
  cbn [fst snd s_graph set_var_mapping s_var_mapping s_time_points].
  destruct (t <? _); [reflexivity|].
  destruct (negb _); [reflexivity|].
  destruct (_ >? t); [reflexivity|].
  cbn [fst snd]. rewrite Nat.add_1_r. reflexivity.
Qed.
Print Assumptions C05_gen_base_loop_t.

Theorem C05_gen_base_loop_s : forall self0 i j s e,
  gen_enumerate_variables_quicker_body2 i j s (arc_lift self0 e) =
  if s <? win_lo (s_graph self0) i then (CNext, arc_lift self0 e)
  else if above s (win_hi (s_graph self0) i) then (CBreak, arc_lift self0 e)
  else (CNext, arc_lift self0 (enum_s (s_graph self0) (s_time_points self0) i j s e)).
Proof.
  intros.
  assert (Hin : forall e', py_for (gen_enumerate_variables_quicker_body3 i j s) (s_time_points self0) (arc_lift self0 e') =
                           arc_lift self0 (enum_s (s_graph self0) (s_time_points self0) i j s e')).
  { intros e'. unfold enum_s. apply (py_for_scan_lift (arc_lift self0) (fun t : Z => t)).
    intros t st. apply C05_gen_base_loop_t. }
  specialize (Hin e). revert Hin.
  unfold gen_enumerate_variables_quicker_body2, arc_lift. cbn [fst snd].
  unfold py_nodes_item, py_get_window, win_lo, win_hi, above, ext_gtb.
  cbn [fst snd s_graph set_var_mapping s_time_points].
  intros Hin.
  destruct (s <? _); [reflexivity|].
  destruct (negb _); [reflexivity|].
  rewrite Hin. reflexivity.
Qed.
Print Assumptions C05_gen_base_loop_s.

Theorem C05_gen_base_loop_arc : forall self0 k e,
  gen_enumerate_variables_quicker_body1 k (arc_lift self0 e) =
  (CNext, arc_lift self0 (enum_arc (s_graph self0) (s_time_points self0) k e)).
Proof.
  intros self0 [i j] e.
  assert (Hin : py_for (gen_enumerate_variables_quicker_body2 i j) (s_time_points self0) (arc_lift self0 e) =
                arc_lift self0 (enum_arc (s_graph self0) (s_time_points self0) (i, j) e)).
  { unfold enum_arc. cbn [fst snd]. apply (py_for_scan_lift (arc_lift self0) (fun t : Z => t)).
    intros s st. apply C05_gen_base_loop_s. }
  revert Hin.
  unfold gen_enumerate_variables_quicker_body1, arc_lift. cbn [fst snd s_time_points set_var_mapping].
  intros Hin. rewrite Hin. reflexivity.
Qed.
Print Assumptions C05_gen_base_loop_arc.

Theorem C05_gen_base_enumerate_quicker : forall self I, arc_holds self I ->
  gen_enumerate_variables_quicker self = (arc_enumerated self I, tt).
Proof.
  intros self I [Hg Ht].
  assert (Hloop : py_for gen_enumerate_variables_quicker_body1 (py_dict_keys (py_arcs self)) (arc_lift self ([], O)) =
                  arc_lift self (enumerate I)).
  { unfold py_dict_keys, py_arcs, enumerate. rewrite py_for_map, <- Hg, <- Ht.
    apply (py_for_fold_lift (arc_lift self)). intros kv st _. apply C05_gen_base_loop_arc. }
  revert Hloop.
  unfold gen_enumerate_variables_quicker, arc_enumerated, vars, num_variables, arc_lift, py_arcs.
  cbn [fst snd s_graph set_var_mapping]. intros Hloop. rewrite Hloop. reflexivity.
Qed.
Print Assumptions C05_gen_base_enumerate_quicker.

(* self.enumerate_variables() on an object that holds I: afterwards the base part is `base_done`, which is
   settled (maps of I, flag set) *)
Theorem C05_gen_base_enumerate : forall self I, cons_holds self I ->
  gen_enumerate_variables (b_base self) = (base_done self I, tt) /\ base_settled (base_done self I) I.
Proof.
  intros self I [Hh Hc]. unfold gen_enumerate_variables, base_done.
  rewrite (C05_gen_base_enumerate_quicker _ I Hh).
  destruct (s_variables_enumerated (b_base self)) eqn:E.
  - split; [reflexivity|]. destruct (Hc E) as [H1 H2]. repeat split; try assumption; apply Hh.
  - split; [reflexivity|]. repeat split; apply Hh.
Qed.
Print Assumptions C05_gen_base_enumerate.

(* on a settled base part the three methods the assembly calls change nothing and return I's data *)
Theorem C05_gen_base_settled_calls : forall base I, base_settled base I ->
  gen_enumerate_variables base = (base, tt) /\
  gen_get_num_variables base = (base, num_variables I) /\
  forall k, gen_get_var_tuple_index base k = (base, Ok (nth_error (vars I) k)).
Proof.
  intros base I (Hh & Hv & Hn & Hf).
  assert (He : gen_enumerate_variables base = (base, tt)).
  { unfold gen_enumerate_variables. rewrite Hf. reflexivity. }
  split; [exact He|]. split.
  - unfold gen_get_num_variables. rewrite Hf. cbn [negb]. rewrite Hn. reflexivity.
  - intros k. unfold gen_get_var_tuple_index. rewrite He. unfold py_list_item. rewrite Hv.
    destruct (nth_error (vars I) k); reflexivity.
Qed.
Print Assumptions C05_gen_base_settled_calls.

(* ---------- build_objective ---------- *)
(* the body of `for k in range(n)`: one entry of the objective is filled in (a[k] = cost of the arc of
   variable k); the array is the hand model's objective up to k and still zero behind *)
Theorem C05_gen_objective_loop_eq : forall self I k,
  base_settled (b_base self) I -> (k < num_variables I)%nat ->
  let n := num_variables I in
  gen_build_objective_body1 k (set_objective (map (obj_F I) (seq 0 k) ++ repeat 0 (n - k)) self) =
  (XNext, set_objective (map (obj_F I) (seq 0 (S k)) ++ repeat 0 (n - S k)) self).
Proof.
  intros self I k (Hh & Hv & Hn & Hf) Hk n. destruct Hh as [Hg Ht].
  unfold gen_build_objective_body1, b_var_mapping, py_list_item.
  cbn [b_base set_objective]. rewrite Hv.
  assert (Hlen : (k < length (vars I))%nat) by (rewrite <- num_variables_length; exact Hk).
  destruct (nth_error (vars I) k) as [[[[i s] j] t]|] eqn:E; [|apply nth_error_None in E; lia].
  cbn [py_raising]. unfold b_arcs_item, py_arcs_item, py_get_cost.
  cbn [b_base b_objective set_objective fst snd]. rewrite Hg.
  replace (acost (arc_at (ig I) i j)) with (obj_F I k) by (unfold obj_F; rewrite E; reflexivity).
  fold n. rewrite (py_nd_set_fill (obj_F I) k n Hk). reflexivity.
Qed.
Print Assumptions C05_gen_objective_loop_eq.

(* build_objective: nothing happens when the flag is set; otherwise the variables are enumerated (if they
   were not), self.objective becomes the hand model's objective and the flag is set -- whatever
   self.objective held before *)
Theorem C05_gen_objective_eq : forall self I, cons_holds self I ->
  gen_build_objective self = (if b_objective_built self then self else obj_built self I, Ok tt).
Proof.
  intros self I H. destruct (C05_gen_base_enumerate self I H) as [He Hs].
  destruct (C05_gen_base_settled_calls _ I Hs) as (_ & Hn & _).
  unfold gen_build_objective. destruct (b_objective_built self); [reflexivity|].
  rewrite He. unfold b_call at 1. cbn [fst snd].
  set (self1 := set_base (base_done self I) self).
  assert (Hb : b_base self1 = base_done self I) by reflexivity.
  rewrite Hb, Hn, <- Hb, b_call_same.
  assert (Hb2 : forall o, b_base (set_objective o self1) = base_done self I) by reflexivity.
  rewrite Hb2, Hn, <- (Hb2 (np_zeros (num_variables I))), b_call_same.
  unfold py_range.
  rewrite (py_forx_fill (fun o => set_objective o self1) (obj_F I)).
  - reflexivity.
  - intros m Hm. change (set_objective ?o (set_objective ?o' self1)) with (set_objective o self1).
    apply C05_gen_objective_loop_eq; [rewrite Hb; exact Hs | exact Hm].
Qed.
Print Assumptions C05_gen_objective_eq.

(* self.get_num_variables() on an object that holds I (enumerated or not) *)
Theorem C05_gen_base_num_variables : forall self I, cons_holds self I ->
  gen_get_num_variables (b_base self) = (base_done self I, num_variables I).
Proof.
  intros self I H. destruct (C05_gen_base_enumerate self I H) as [He (_ & _ & Hn & _)].
  revert He Hn. unfold gen_get_num_variables, base_done. destruct H as [_ Hc].
  destruct (s_variables_enumerated (b_base self)) eqn:E; cbn [negb]; intros He Hn.
  - rewrite Hn. reflexivity.
  - rewrite He. rewrite Hn. reflexivity.
Qed.
Print Assumptions C05_gen_base_num_variables.

(* get_objective_data returns the hand model's c and the n x n zero matrix *)
Theorem C05_gen_objective_data_eq : forall self I, cons_holds self I -> cons_coherent self I ->
  snd (gen_get_objective_data self) =
  Ok (objective I, sparse_csr_zeros (num_variables I, num_variables I)).
Proof.
  intros self I H [Hc _]. destruct (C05_gen_base_enumerate self I H) as [_ Hs].
  destruct (C05_gen_base_settled_calls _ I Hs) as (_ & Hn & _).
  unfold gen_get_objective_data. rewrite (C05_gen_objective_eq self I H). cbn [py_raising].
  destruct (b_objective_built self) eqn:E.
  - rewrite (C05_gen_base_num_variables self I H). cbn [b_call fst snd].
    change (b_objective (set_base _ self)) with (b_objective self). rewrite (Hc eq_refl). reflexivity.
  - assert (Hb : b_base (obj_built self I) = base_done self I) by reflexivity.
    rewrite Hb, Hn. reflexivity.
Qed.
Print Assumptions C05_gen_objective_data_eq.

(* ---------- build_constraints_quicker: the loops ---------- *)
(* body of `for s_index, s in enumerate(self.time_points)`: one step of Arc.scan over the enumerated grid --
   `continue` below the window of i, BREAK above it, else Arc.flow_body (register the row (i, s), its
   right-hand side 0, its name f"cflow_{i},{s_index}", count it) *)
Theorem C05_gen_flow_loop_eq : forall self0 i p st,
  gen_build_constraints_quicker_body2 i p (flow_lift self0 st) =
  if snd p <? win_lo (s_graph (b_base self0)) i then (XNext, flow_lift self0 st)
  else if above (snd p) (win_hi (s_graph (b_base self0)) i) then (XBreak, flow_lift self0 st)
  else (XNext, flow_lift self0 (flow_body i p st)).
Proof.
  intros self0 i [sidx s] [[[m b] nm] r].
  unfold gen_build_constraints_quicker_body2, flow_lift, flow_body, c_fcm, c_brhs, c_names, c_row. cbn [fst snd].
  unfold b_nodes_item, py_nodes_item, py_get_window, win_lo, win_hi, above, ext_gtb.
  cbn [fst snd b_base set_constraint_names].
  destruct (s <? _); [reflexivity|].
  destruct (negb _); [reflexivity|].
  unfold py_append. cbn [b_constraint_names set_constraint_names b_base b_objective b_objective_built
                         b_constraints_built b_constraints_matrix b_constraints_rhs].
  rewrite map_app, Nat.add_1_r. reflexivity.
Qed.
Print Assumptions C05_gen_flow_loop_eq.

(* body of `for i in range(1, len(self.nodes))`: the inner loop is Arc.scan with that step *)
Theorem C05_gen_flow_node_eq : forall self0 i st,
  gen_build_constraints_quicker_body1 i (flow_lift self0 st) =
  (XNext, flow_lift self0 (scan (fun p : nat * Z => snd p) (win_lo (s_graph (b_base self0)) i)
                                (win_hi (s_graph (b_base self0)) i) (flow_body i)
                                (enumerate_list (s_time_points (b_base self0))) st)).
Proof.
  intros self0 i st.
  assert (Hin : py_forx (gen_build_constraints_quicker_body2 i) (py_enumerate (s_time_points (b_base self0)))
                        (flow_lift self0 st) =
                (flow_lift self0 (scan (fun p : nat * Z => snd p) (win_lo (s_graph (b_base self0)) i)
                                       (win_hi (s_graph (b_base self0)) i) (flow_body i)
                                       (enumerate_list (s_time_points (b_base self0))) st), None)).
  { apply (py_forx_scan_lift (flow_lift self0) (fun p : nat * Z => snd p)).
    intros p st'. apply C05_gen_flow_loop_eq. }
  revert Hin. generalize (scan (fun p : nat * Z => snd p) (win_lo (s_graph (b_base self0)) i)
                               (win_hi (s_graph (b_base self0)) i) (flow_body i)
                               (enumerate_list (s_time_points (b_base self0))) st).
  intros st'. unfold gen_build_constraints_quicker_body1, flow_lift, b_time_points.
  cbn [fst snd b_base set_constraint_names]. intros Hin. unfold nt in Hin |- *. rewrite Hin. reflexivity.
Qed.
Print Assumptions C05_gen_flow_node_eq.

(* body of the first `for col in range(n)`: the (at most two) flow-conservation triples of variable col,
   -1 in the row of its (origin, departure), +1 in the row of its (destination, arrival), each only when
   flow_conservation_mapping.index finds the row (ValueError -> nothing) *)
Theorem C05_gen_flow_trips_eq : forall self I m col v T,
  base_settled (b_base self) I -> nth_error (vars I) col = Some v ->
  gen_build_constraints_quicker_body3 m col (trip_lift self T) =
  (XNext, trip_lift self (T ++ flow_trips_of m col v)).
Proof.
  intros self I m col [[[i s] j] t] T Hs Hv.
  destruct (C05_gen_base_settled_calls _ I Hs) as (_ & _ & Hget).
  unfold gen_build_constraints_quicker_body3, trip_lift.
  rewrite Hget, b_call_same, Hv. cbn [py_raising].
  rewrite !py_list_index_nt. unfold flow_trips_of, orig, dest.
  destruct (find_index nt_eqb (i, s) m) as [r1|]; destruct (find_index nt_eqb (j, t) m) as [r2|];
    cbn [py_try errcls_eqb]; unfold py_append, trip_vals, trip_rows, trip_cols;
    rewrite ?map_app; cbn [map fst snd app]; rewrite <- ?app_assoc; cbn [app];
    rewrite ?app_nil_r; reflexivity.
Qed.
Print Assumptions C05_gen_flow_trips_eq.

(* body of `for j in range(1, len(self.nodes))`: the name f"cnode{j}" *)
Theorem C05_gen_node_names_eq : forall self0 j nm,
  gen_build_constraints_quicker_body4 j (set_constraint_names (map cname_str nm) self0) =
  (XNext, set_constraint_names (map cname_str (nm ++ [CNode j])) self0).
Proof.
  intros. unfold gen_build_constraints_quicker_body4, py_append.
  cbn [b_constraint_names set_constraint_names b_base b_objective b_objective_built
       b_constraints_built b_constraints_matrix b_constraints_rhs].
  rewrite map_app. reflexivity.
Qed.
Print Assumptions C05_gen_node_names_eq.

(* body of the second `for col in range(n)`: the visit triple of variable col -- nothing when it enters the
   depot (`if j == 0: continue`), else +1 in row row_index + (j - 1) *)
Theorem C05_gen_visit_trips_eq : forall self I R col v T,
  base_settled (b_base self) I -> nth_error (vars I) col = Some v ->
  gen_build_constraints_quicker_body5 R col (trip_lift self T) =
  (XNext, trip_lift self (T ++ visit_trips_of R col v)).
Proof.
  intros self I R col [[[i s] j] t] T Hs Hv.
  destruct (C05_gen_base_settled_calls _ I Hs) as (_ & _ & Hget).
  unfold gen_build_constraints_quicker_body5, trip_lift.
  rewrite Hget, b_call_same, Hv. cbn [py_raising].
  unfold visit_trips_of, dnode, dest. cbn [fst snd].
  destruct (Nat.eqb j 0) eqn:E.
  - rewrite app_nil_r. reflexivity.
  - unfold py_append, trip_vals, trip_rows, trip_cols. rewrite !map_app. cbn [map fst snd].
    replace (Z.of_nat R + (Z.of_nat j - 1)) with (Z.of_nat (R + (j - 1))) by lia. reflexivity.
Qed.
Print Assumptions C05_gen_visit_trips_eq.

(* ---------- build_constraints_quicker: the whole method ---------- *)
(* For every object that holds I -- whatever constraint_names / constraints_matrix / constraints_rhs it
   had -- the method returns normally and leaves: constraints_matrix = the hand model's A (shape
   len(b) x n, dense entries = sums of the triples), constraints_rhs = the hand model's b,
   constraint_names = the hand model's names, the flag set, the variables enumerated. *)
Theorem C05_gen_constraints_eq : forall self I, cons_holds self I ->
  gen_build_constraints_quicker self = (cons_built self I, Ok tt).
Proof.
  intros self I H. destruct (C05_gen_base_enumerate self I H) as [He Hs].
  destruct (C05_gen_base_settled_calls _ I Hs) as (_ & Hn & _).
  destruct H as [[Hg Ht] _].
  set (self1 := set_base (base_done self I) self).
  assert (Hg1 : s_graph (b_base self1) = ig I).
  { unfold self1, base_done. cbn [b_base set_base]. destruct (s_variables_enumerated _); exact Hg. }
  assert (Ht1 : s_time_points (b_base self1) = tp I).
  { unfold self1, base_done. cbn [b_base set_base]. destruct (s_variables_enumerated _); exact Ht. }
  assert (Hnum : forall s, b_base s = base_done self I ->
                 b_call s (gen_get_num_variables (b_base s)) = (s, num_variables I)).
  { intros s E. rewrite E, Hn, <- E. apply b_call_same. }
  assert (Hnodes : forall s, b_base s = base_done self I -> b_nodes s = nodes (ig I)).
  { intros s E. unfold b_nodes, py_nodes. rewrite E. change (base_done self I) with (b_base self1).
    rewrite Hg1. reflexivity. }
  set (FR := flow_rows (ig I) (tp I)).
  set (self3 := set_constraint_names (map cname_str (c_names FR)) self1).
  set (self4 := set_constraint_names (map cname_str (constraint_names I)) self1).
  assert (Hs3 : forall nm, base_settled (b_base (set_constraint_names nm self1)) I) by (intros; exact Hs).
  assert (Hlen : (num_variables I <= length (vars I))%nat) by (rewrite num_variables_length; apply le_n).
  (* loop 1: the flow rows *)
  assert (L1 : py_forx gen_build_constraints_quicker_body1 (py_range2 1 (length (nodes (ig I))))
                       (set_constraint_names [] self1, [], [], O) =
               (self3, c_fcm FR, c_brhs FR, c_row FR, None)).
  { refine (py_forx_fold_lift (flow_lift self1) gen_build_constraints_quicker_body1
              (fun st i => scan (fun p : nat * Z => snd p) (win_lo (ig I) i) (win_hi (ig I) i) (flow_body i)
                                (enumerate_list (tp I)) st) _ _ ([], [], [], O)).
    intros i st _. rewrite C05_gen_flow_node_eq, Hg1, Ht1. reflexivity. }
  (* loop 3: the flow triples *)
  assert (L3 : py_forx (gen_build_constraints_quicker_body3 (c_fcm FR)) (py_range (num_variables I))
                       (self3, [], [], []) =
               (trip_lift self3 (over_cols I (flow_trips_of (c_fcm FR))), None)).
  { exact (py_forx_over_cols (trip_lift self3) (vars I) (flow_trips_of (c_fcm FR))
             (gen_build_constraints_quicker_body3 (c_fcm FR)) (num_variables I) Hlen
             (fun col v T Hv => C05_gen_flow_trips_eq self3 I (c_fcm FR) col v T (Hs3 _) Hv) []). }
  (* loop 4: the names of the visit rows *)
  assert (L4 : py_forx gen_build_constraints_quicker_body4 (py_range2 1 (length (nodes (ig I)))) self3 =
               (self4, None)).
  { unfold self4, constraint_names, py_range2. fold FR. unfold self3.
    rewrite <- (flat_map_single CNode), <- fold_left_app_flat_map.
    apply (py_forx_fold_lift (fun nm => set_constraint_names (map cname_str nm) self1)).
    intros j nm _. apply C05_gen_node_names_eq. }
  (* loop 5: the visit triples *)
  assert (L5 : forall T, py_forx (gen_build_constraints_quicker_body5 (c_row FR)) (py_range (num_variables I))
                                 (self4, trip_vals T, trip_rows T, trip_cols T) =
               (trip_lift self4 (T ++ over_cols I (visit_trips_of (c_row FR))), None)).
  { intros T.
    exact (py_forx_over_cols (trip_lift self4) (vars I) (visit_trips_of (c_row FR))
             (gen_build_constraints_quicker_body5 (c_row FR)) (num_variables I) Hlen
             (fun col v T' Hv => C05_gen_visit_trips_eq self4 I (c_row FR) col v T' (Hs3 _) Hv) T). }
  unfold gen_build_constraints_quicker. rewrite He. unfold b_call at 1. cbn [fst snd]. fold self1.
  rewrite (Hnodes (set_constraint_names [] self1) eq_refl), L1. cbv beta iota.
  rewrite (Hnum self3 eq_refl). cbv beta iota. rewrite L3. unfold trip_lift at 1. cbv beta iota.
  rewrite (Hnodes self3 eq_refl), L4. cbv beta iota.
  rewrite (Hnum self4 eq_refl). cbv beta iota. rewrite L5. unfold trip_lift at 1. cbv beta iota.
  rewrite (Hnum self4 eq_refl). cbv beta iota.
  rewrite Z_to_nat_pred.
  change (over_cols I (flow_trips_of (c_fcm FR)) ++ over_cols I (visit_trips_of (c_row FR))) with (triplets I).
  change (py_list_concat (c_brhs FR) (repeat 1 (length (nodes (ig I)) - 1))) with (rhs I).
  rewrite sparse_coo_triplets. reflexivity.
Qed.
Print Assumptions C05_gen_constraints_eq.

(* build_constraints (the dispatcher): nothing when the flag is set, else build_constraints_quicker *)
Theorem C05_gen_build_constraints_eq : forall self I, cons_holds self I ->
  gen_build_constraints self = (if b_constraints_built self then self else cons_built self I, Ok tt).
Proof.
  intros self I H. unfold gen_build_constraints.
  destruct (b_constraints_built self); [reflexivity|].
  rewrite (C05_gen_constraints_eq self I H). reflexivity.
Qed.
Print Assumptions C05_gen_build_constraints_eq.

(* get_constraint_data returns (A, b, Q, r) = (the hand model's A, the hand model's b, the n x n zero
   matrix, 0); the `.toarray()` taken when b is empty does not change the matrix *)
Theorem C05_gen_constraint_data_eq : forall self I, cons_holds self I -> cons_coherent self I ->
  snd (gen_get_constraint_data self) =
  Ok (A_of I, rhs I, sparse_csr_zeros (num_variables I, num_variables I), O).
Proof.
  intros self I H [_ Hc]. destruct (C05_gen_base_enumerate self I H) as [_ Hs].
  destruct (C05_gen_base_settled_calls _ I Hs) as (_ & Hn & _).
  unfold gen_get_constraint_data. rewrite (C05_gen_build_constraints_eq self I H). cbn [py_raising].
  destruct (b_constraints_built self) eqn:E.
  - rewrite (C05_gen_base_num_variables self I H). cbn [b_call fst snd].
    destruct (Hc eq_refl) as [HA Hb]. rewrite HA, Hb. unfold np_toarray.
    destruct (Nat.eqb _ _); reflexivity.
  - assert (Hb : b_base (cons_built self I) = base_done self I) by reflexivity.
    rewrite Hb, Hn. cbn [b_call fst snd]. unfold np_toarray.
    destruct (Nat.eqb _ _); reflexivity.
Qed.
Print Assumptions C05_gen_constraint_data_eq.

(* the dimensions of what get_constraint_data / get_objective_data hand out: A is len(b) x n (shape and
   dense rows), c has n entries, Q is n x n *)
Theorem C05_gen_dims : forall self I A b Q r c Qo,
  cons_holds self I -> cons_coherent self I ->
  snd (gen_get_constraint_data self) = Ok (A, b, Q, r) ->
  snd (gen_get_objective_data self) = Ok (c, Qo) ->
  mshape A = (length b, num_variables I) /\
  length (mdense A) = length b /\ Forall (fun row => length row = num_variables I) (mdense A) /\
  length (mat_vec A (repeat 0 (num_variables I))) = length b /\
  length c = num_variables I /\ mshape Q = (num_variables I, num_variables I) /\ Q = Qo.
Proof.
  intros self I A b Q r c Qo H Hc HA Ho.
  rewrite (C05_gen_constraint_data_eq self I H Hc) in HA. inversion HA; subst; clear HA.
  rewrite (C05_gen_objective_data_eq self I H Hc) in Ho. inversion Ho; subst; clear Ho.
  destruct (C05_shape I (repeat 0 (num_variables I))) as (H1 & H2 & H3 & H4).
  repeat split; try assumption; reflexivity.
Qed.
Print Assumptions C05_gen_dims.

(* ---------- the C05 theorems that speak about the constraint system, for the GENERATED A, b, c ----------
   `sys self I A b` abbreviates: get_constraint_data of an object holding I returned A and b. *)
Theorem C05_gen_local : forall self I A b Q r x,
  cons_holds self I -> cons_coherent self I -> snd (gen_get_constraint_data self) = Ok (A, b, Q, r) ->
  NoDup (igrid I) -> length x = num_variables I -> binary x ->
  (mat_vec A x = b <->
   forall j, (1 <= j < length (nodes (ig I)))%nat ->
     exists t, cnt (into_node j) (selected I x) = 1%nat /\ cnt (into (j, t)) (selected I x) = 1%nat /\
               cnt (outof_node j) (selected I x) = 1%nat /\ cnt (outof (j, t)) (selected I x) = 1%nat).
Proof.
  intros self I A b Q r x H Hc HA. rewrite (C05_gen_constraint_data_eq self I H Hc) in HA.
  inversion HA; subst; clear HA. rewrite mat_vec_A_of. apply C05_local.
Qed.
Print Assumptions C05_gen_local.

Theorem C05_gen_sound : forall self I A b Q r x,
  cons_holds self I -> cons_coherent self I -> snd (gen_get_constraint_data self) = Ok (A, b, Q, r) ->
  Inv (ig I) -> NoDup (igrid I) -> pos_cc I -> length x = num_variables I -> binary x ->
  mat_vec A x = b ->
  exists routes : list (list var),
    Permutation (selected I x) (concat routes) /\ Forall sroute routes /\
    Forall (valid_move I) (concat routes) /\
    forall j, (1 <= j < length (nodes (ig I)))%nat -> cnt (into_node j) (concat routes) = 1%nat.
Proof.
  intros self I A b Q r x H Hc HA. rewrite (C05_gen_constraint_data_eq self I H Hc) in HA.
  inversion HA; subst; clear HA. rewrite mat_vec_A_of. apply C05_sound.
Qed.
Print Assumptions C05_gen_sound.

Theorem C05_gen_routes_feasible : forall self I A b Q r x routes,
  cons_holds self I -> cons_coherent self I -> snd (gen_get_constraint_data self) = Ok (A, b, Q, r) ->
  NoDup (igrid I) -> length x = num_variables I -> binary x ->
  Permutation (selected I x) (concat routes) -> Forall walk routes ->
  (forall j, (1 <= j < length (nodes (ig I)))%nat -> cnt (into_node j) (concat routes) = 1%nat) ->
  mat_vec A x = b.
Proof.
  intros self I A b Q r x routes H Hc HA. rewrite (C05_gen_constraint_data_eq self I H Hc) in HA.
  inversion HA; subst; clear HA. rewrite mat_vec_A_of. apply C05_routes_feasible.
Qed.
Print Assumptions C05_gen_routes_feasible.

Theorem C05_gen_decode : forall self I A b Q r x,
  cons_holds self I -> cons_coherent self I -> snd (gen_get_constraint_data self) = Ok (A, b, Q, r) ->
  Inv (ig I) -> NoDup (igrid I) -> pos_cc I -> length x = num_variables I -> binary x ->
  mat_vec A x = b ->
  exists mss : list (list var),
    get_routes I x = Ok (map route_of mss) /\
    Permutation (selected I x) (concat mss) /\ Forall walk mss /\
    Forall sroute (flat_map split_depot mss) /\ concat (flat_map split_depot mss) = concat mss.
Proof.
  intros self I A b Q r x H Hc HA. rewrite (C05_gen_constraint_data_eq self I H Hc) in HA.
  inversion HA; subst; clear HA. rewrite mat_vec_A_of. apply C05_decode.
Qed.
Print Assumptions C05_gen_decode.

(* the objective value of a binary vector under the generated c is the summed cost of the selected moves *)
Theorem C05_gen_objective_value : forall self I c Qo x,
  cons_holds self I -> cons_coherent self I -> snd (gen_get_objective_data self) = Ok (c, Qo) ->
  length x = num_variables I -> binary x ->
  dotn (num_variables I) c x = sumz (map (fun v => acost (arc_at (ig I) (onode v) (dnode v))) (selected I x)).
Proof.
  intros self I c Qo x H Hc Ho. rewrite (C05_gen_objective_data_eq self I H Hc) in Ho.
  inversion Ho; subst; clear Ho. apply C05_objective.
Qed.
Print Assumptions C05_gen_objective_value.

(* completeness: the indicator vector of a valid VRPTW plan satisfies the generated system and costs the
   summed route costs under the generated c *)
Theorem C05_gen_complete : forall self I A b Q r c Qo (plan : list (list nat * list nt)),
  cons_holds self I -> cons_coherent self I ->
  snd (gen_get_constraint_data self) = Ok (A, b, Q, r) -> snd (gen_get_objective_data self) = Ok (c, Qo) ->
  NoDup (igrid I) -> NoDup (map fst (arcs (ig I))) ->
  Forall (fun p => fst p <> [] /\ vrptw_route (ig I) (fst p) = Some (snd p) /\
                   (forall q, In q (snd p) -> In (snd q) (igrid I))) plan ->
  Permutation (concat (map fst plan)) (seq 1 (length (nodes (ig I)) - 1)) ->
  win_lo (ig I) 0 <= 0 /\ ext_le (Fin 0) (win_hi (ig I) 0) ->
  let x := indicator I (flat_map (fun p => moves_of (snd p)) plan) in
  binary x /\ length x = num_variables I /\ mat_vec A x = b /\
  dotn (num_variables I) c x = sumz (map (fun p => route_cost (ig I) 0 (fst p ++ [0%nat])) plan) /\
  Permutation (selected I x) (flat_map (fun p => moves_of (snd p)) plan).
Proof.
  intros self I A b Q r c Qo plan H Hc HA Ho. rewrite (C05_gen_constraint_data_eq self I H Hc) in HA.
  inversion HA; subst; clear HA. rewrite (C05_gen_objective_data_eq self I H Hc) in Ho.
  inversion Ho; subst; clear Ho. intros Hg Hk Hp Hperm Hd x. rewrite mat_vec_A_of.
  exact (C05_complete I plan Hg Hk Hp Hperm Hd).
Qed.
Print Assumptions C05_gen_complete.

(* the hypotheses are satisfiable: the object made from the example instance of props/C05.v by
   add_time_points, with nothing built, holds that instance and is coherent; the generated methods return
   A, b, c on which the example vector is feasible with cost 3 *)
Example C05_gen_example :
  let self := mkBS (mkAS ex_graph (sortZ (igrid ex_inst)) [] O false) [] false false [] (mkMat (O, O) []) [] in
  cons_holds self ex_inst /\ cons_coherent self ex_inst /\
  exists A b Q r c,
    snd (gen_get_constraint_data self) = Ok (A, b, Q, r) /\
    snd (gen_get_objective_data self) = Ok (c, Q) /\
    mshape A = (6%nat, 26%nat) /\ mat_vec A ex_x = b /\ dotn 26 c ex_x = 3.
Proof.
  intros self.
  assert (H : cons_holds self ex_inst) by (split; [split; reflexivity | intros E; discriminate E]).
  assert (Hc : cons_coherent self ex_inst) by (split; intros E; discriminate E).
  split; [exact H|]. split; [exact Hc|].
  exists (A_of ex_inst), (rhs ex_inst), (sparse_csr_zeros (num_variables ex_inst, num_variables ex_inst)), O,
         (objective ex_inst).
  split; [apply (C05_gen_constraint_data_eq self ex_inst H Hc)|].
  split; [apply (C05_gen_objective_data_eq self ex_inst H Hc)|].
  split; [vm_compute; reflexivity|]. split; vm_compute; reflexivity.
Qed.
Print Assumptions C05_gen_example.
