"""translate_rngflow.py -- prints where the routing-problem package touches numpy's global generator  [C17]

For EVERY function, method, class body and module body of the files in FILES (working tree under test,
`core.REPO`) the translator walks the `ast` and prints a term of type `PyRng.rskel`
(coq/theories/PyRng.v): the control structure (sequence, branch, loop, try, return / break / continue /
raise) with, as leaves,

    <expr>.random.seed(a)                REv (ESeed a)    a = SConst z (int literal) | SNone (no argument / None)
                                                              | SAttr "x" (self.x) | SUnk (anything else)
    <expr>.random.get_state(..)          REv EGetState
    <expr>.random.set_state(..)          REv ESetState
    <expr>.random.<f>(..)                REv (EDraw "f")                 (every other function of np.random)
    <expr>.rvs(..)                       REv (EDraw "rvs")               (scipy / sampler draws)
    self.m(..) / super().m(..)           RCall (TSelf "m") args / RCall (TSuper "m") args
    self.x.m(..)                         RCall (TAttr "x" "m") args
    <other>.m(..)                        events of <other>, then RCall (TOther "m") args
    f(..)                                RCall (TFun "f") args           (function or class; resolved in Coq)
    if p: A else: B  (p a parameter that is never re-bound; also `if not p`)      RIfParam n A B
    any other condition                  its events, then RChoice A B
    lambda / nested def                  RClosure body

Arguments of a call are printed as far as booleans go: literal True/False, "my own parameter n", unknown;
by position or by keyword (the callee's parameter names and literal boolean defaults are in its row).

The translator knows NOTHING about which functions are entry points, which classes there are, what a call
resolves to, or which sequences of events are acceptable: it prints every call of every function.  Name
resolution, the semantics, the discipline and its decision procedure are Coq definitions (PyRng.v), and
coq/genprops/C17_gen.v proves the discipline for the printed table.

Rejected (fail closed): any mention of a name / attribute `random` other than as `<expr>.random.<f>(..)`;
imports of `random`, `numpy.random`, `secrets` or of names from them; getattr / setattr / eval / exec /
__import__ / globals / locals / vars / compile / importlib; an assignment to `self.x` in a class that also seeds with
`self.x`; decorators other than @property / @dataclass; nested classes; for/while-else; try-finally; global /
nonlocal; async; match; a method without `self`.
"""
import ast
import os
from collections import OrderedDict

from vq import core

FILES = [
    "src/vrpqubo/routing_problem/vrptw.py",
    "src/vrpqubo/routing_problem/routing_problem.py",
    "src/vrpqubo/routing_problem/formulations/arc_based_rp.py",
    "src/vrpqubo/routing_problem/formulations/sequence_based_rp.py",
    "src/vrpqubo/routing_problem/formulations/path_based_rp.py",
    "src/vrpqubo/applications/mirp.py",
    "src/vrpqubo/examples/mirp_random.py",
]
FORBIDDEN_FUNCS = {"getattr", "setattr", "delattr", "eval", "exec", "__import__", "globals", "locals", "vars",
                   "compile", "import_module", "reload"}
FORBIDDEN_MODULES = {"random", "secrets", "importlib"}
OUTCOME = {"return": "XRet", "break": "XBrk", "continue": "XCnt", "raise": "XRaise"}


class Rejected(Exception):
    pass


_NAMES = OrderedDict()      # string literal -> Coq identifier (each literal is defined once: small terms)


def _s(x):
    if x not in _NAMES:
        ident = "n_" + "".join(ch if (ch.isalnum() and ch.isascii()) else "_" for ch in x)
        while ident in _NAMES.values():
            ident += "'"
        _NAMES[x] = ident
    return _NAMES[x]


def _lit(x):
    return '"' + x.replace('"', '""') + '"'


def _is_name(e, ident):
    return isinstance(e, ast.Name) and e.id == ident


def check_import(node, where):
    mods = []
    if isinstance(node, ast.Import):
        for a in node.names:
            mods.append((a.name, a.asname))
    else:
        mods.append((node.module or "", None))
        for a in node.names:
            mods.append((a.name, a.asname))
    for name, asname in mods:
        parts = set(name.split(".")) | ({asname} if asname else set())
        if parts & FORBIDDEN_MODULES:
            raise Rejected(f"{where} line {node.lineno}: import of {name}")


class Fn:
    """translation of one body (function, method, class body, module body)"""

    def __init__(self, where, body, params, self_name, news, cls):
        self.where = where
        self.body = body
        self.self_name = self_name          # "self" in a method, else None
        self.cls = cls
        self.news = news                    # shared list of (class, attr, ctor)
        stored = set()
        for st in body:
            for n in ast.walk(st):
                if isinstance(n, ast.Name) and isinstance(n.ctx, (ast.Store, ast.Del)):
                    stored.add(n.id)
                elif isinstance(n, ast.arg):
                    stored.add(n.arg)           # parameters of nested functions / lambdas shadow
        self.stable = {p: i for i, p in enumerate(params) if p not in stored}
        self.closure = 0
        self.self_stores = set()
        self.seed_attrs = set()

    def err(self, node, msg):
        raise Rejected(f"{self.where} line {getattr(node, 'lineno', '?')}: {msg}")

    def is_self(self, e):
        return self.self_name is not None and self.closure >= 0 and _is_name(e, self.self_name)

    def self_attr(self, e):
        if isinstance(e, ast.Attribute) and self.is_self(e.value):
            return e.attr
        return None

    def param(self, e):
        """index of the stable parameter e names (outside closures), else None"""
        if self.closure == 0 and isinstance(e, ast.Name) and e.id in self.stable:
            return self.stable[e.id]
        return None

    # ---- expressions: list of skeleton nodes in evaluation order ----
    def ev(self, e):
        if e is None:
            return []
        if isinstance(e, ast.Constant):
            return []
        if isinstance(e, ast.Name):
            if e.id == "random":
                self.err(e, "a name `random`")
            return []
        if isinstance(e, ast.Attribute):
            if e.attr == "random":
                self.err(e, "`.random` used other than as <expr>.random.<f>(..)")
            return self.ev(e.value)
        if isinstance(e, ast.Call):
            return self.call(e)
        if isinstance(e, ast.Lambda):
            self.closure += 1
            body = self.ev(e.body)
            self.closure -= 1
            return [f"RClosure {self.seq(body)}"]
        if isinstance(e, (ast.ListComp, ast.SetComp, ast.GeneratorExp, ast.DictComp)):
            inner = (self.ev(e.key) + self.ev(e.value)) if isinstance(e, ast.DictComp) else self.ev(e.elt)
            for g in reversed(e.generators):
                if g.is_async:
                    self.err(e, "async comprehension")
                body = self.target(g.target) + [x for c in g.ifs for x in self.ev(c)] + inner
                inner = self.ev(g.iter) + [f"RLoop {self.seq(body)}"]
            return inner
        if isinstance(e, ast.BoolOp):
            out = self.ev(e.values[0])
            rest = None
            for v in reversed(e.values[1:]):
                items = self.ev(v) + ([rest] if rest else [])
                rest = f"RChoice RSkip {self.seq(items)}" if items else None
            return out + ([rest] if rest else [])
        if isinstance(e, ast.IfExp):
            a, b = self.ev(e.body), self.ev(e.orelse)
            return self.ev(e.test) + ([f"RChoice {self.seq(a)} {self.seq(b)}"] if a or b else [])
        if isinstance(e, ast.Await):
            self.err(e, "await")
        out = []
        for c in ast.iter_child_nodes(e):
            if isinstance(c, ast.expr):
                out += self.ev(c)
            elif isinstance(c, ast.keyword):
                out += self.ev(c.value)
            elif isinstance(c, ast.comprehension):
                self.err(e, "comprehension outside a comprehension expression")
        return out

    def seed_arg(self, e):
        args = list(e.args) + [k.value for k in e.keywords]
        if any(isinstance(a, ast.Starred) for a in e.args) or any(k.arg is None for k in e.keywords):
            return "SUnk"
        if len(args) == 0:
            return "SNone"
        if len(args) > 1 or (e.keywords and e.keywords[0].arg != "seed"):
            return "SUnk"
        a = args[0]
        if isinstance(a, ast.Constant):
            if a.value is None:
                return "SNone"
            if isinstance(a.value, int) and not isinstance(a.value, bool):
                return f"SConst {a.value}%Z"
            return "SUnk"
        x = self.self_attr(a)
        if x is not None:
            self.seed_attrs.add(x)
            return f"SAttr {_s(x)}"
        return "SUnk"

    def args(self, e):
        out = []
        for i, a in enumerate(e.args):
            if isinstance(a, ast.Starred):
                out.append("star")
                continue
            if isinstance(a, ast.Constant) and isinstance(a.value, bool):
                out.append(f"pb {i} {'true' if a.value else 'false'}")
            elif self.param(a) is not None:
                out.append(f"pp {i} {self.param(a)}")
            else:
                out.append(f"pu {i}")
        for k in e.keywords:
            if k.arg is None:
                out.append("star")
            elif isinstance(k.value, ast.Constant) and isinstance(k.value.value, bool):
                out.append(f"kb {_s(k.arg)} {'true' if k.value.value else 'false'}")
            elif self.param(k.value) is not None:
                out.append(f"kp {_s(k.arg)} {self.param(k.value)}")
            else:
                out.append(f"ku {_s(k.arg)}")
        return "[" + "; ".join(out) + "]"

    def call(self, e):
        f = e.func
        argev = []
        for a in e.args:
            argev += self.ev(a.value if isinstance(a, ast.Starred) else a)
        for k in e.keywords:
            argev += self.ev(k.value)
        if isinstance(f, ast.Attribute):
            v = f.value
            # <expr>.random.<f>(..)
            if isinstance(v, ast.Attribute) and v.attr == "random":
                base = self.ev(v.value)
                if f.attr == "seed":
                    node = f"REv (ESeed ({self.seed_arg(e)}))"
                elif f.attr == "get_state":
                    node = "REv EGetState"
                elif f.attr == "set_state":
                    node = "REv ESetState"
                else:
                    node = f"REv (EDraw {_s(f.attr)})"
                return base + argev + [node]
            if f.attr == "rvs":
                return self.ev(v) + argev + [f"REv (EDraw {_s('rvs')})"]
            if self.is_self(v):
                return argev + [f"RCall (TSelf {_s(f.attr)}) {self.args(e)}"]
            if (isinstance(v, ast.Call) and _is_name(v.func, "super") and not v.args and not v.keywords
                    and self.self_name is not None):
                return argev + [f"RCall (TSuper {_s(f.attr)}) {self.args(e)}"]
            x = self.self_attr(v)
            if x is not None:
                return argev + [f"RCall (TAttr {_s(x)} {_s(f.attr)}) {self.args(e)}"]
            return self.ev(v) + argev + [f"RCall (TOther {_s(f.attr)}) {self.args(e)}"]
        if isinstance(f, ast.Name):
            if f.id in FORBIDDEN_FUNCS:
                self.err(e, f"{f.id}(..)")
            if f.id == "random":
                self.err(e, "a name `random`")
            return argev + [f"RCall (TFun {_s(f.id)}) {self.args(e)}"]
        # anything else that is called: (lambda ..)(..), f()(..), table[k](..)
        return self.ev(f) + argev

    # ---- assignment targets: events of their sub-expressions, bookkeeping ----
    def target(self, t):
        if isinstance(t, ast.Name):
            if t.id == "random":
                self.err(t, "a name `random`")
            return []
        x = self.self_attr(t)
        if x is not None:
            self.self_stores.add(x)
            return []
        if isinstance(t, ast.Attribute):
            if t.attr == "random":
                self.err(t, "assignment to `.random`")
            return self.ev(t.value)
        if isinstance(t, ast.Subscript):
            return self.ev(t.value) + self.ev(t.slice)
        if isinstance(t, (ast.Tuple, ast.List)):
            return [x for el in t.elts for x in self.target(el)]
        if isinstance(t, ast.Starred):
            return self.target(t.value)
        self.err(t, f"assignment target {type(t).__name__}")

    # ---- statements ----
    def seq(self, items):
        items = [i for i in items if i is not None]
        if not items:
            return "RSkip"
        if len(items) == 1:
            return "(" + items[0] + ")"
        return "(rseq [" + "; ".join(items) + "])"

    def block(self, stmts):
        return self.seq([x for s in stmts for x in self.stmt(s)])

    def stmt(self, s):
        """list of nodes of one statement"""
        if isinstance(s, ast.Expr):
            return self.ev(s.value)
        if isinstance(s, ast.Assign):
            out = self.ev(s.value)
            for t in s.targets:
                out += self.target(t)
                x = self.self_attr(t)
                if x is not None and isinstance(s.value, ast.Call) and isinstance(s.value.func, ast.Name):
                    self.news.append((self.cls, x, s.value.func.id))
            return out
        if isinstance(s, ast.AnnAssign):
            return (self.ev(s.value) + self.target(s.target)) if s.value is not None else []
        if isinstance(s, ast.AugAssign):
            return self.ev(s.value) + self.target(s.target)
        if isinstance(s, ast.Delete):
            return [x for t in s.targets for x in self.target(t)]
        if isinstance(s, ast.Pass):
            return []
        if isinstance(s, (ast.Import, ast.ImportFrom)):
            check_import(s, self.where)
            return []
        if isinstance(s, ast.Return):
            return self.ev(s.value) + ["RExit XRet"]
        if isinstance(s, ast.Raise):
            return self.ev(s.exc) + self.ev(s.cause) + ["RExit XRaise"]
        if isinstance(s, ast.Assert):
            fail = self.seq(self.ev(s.msg) + ["RExit XRaise"])
            return self.ev(s.test) + [f"RChoice RSkip {fail}"]
        if isinstance(s, ast.Break):
            return ["RExit XBrk"]
        if isinstance(s, ast.Continue):
            return ["RExit XCnt"]
        if isinstance(s, ast.If):
            a, b = self.block(s.body), self.block(s.orelse)
            n = self.param(s.test)
            if n is not None:
                return [f"RIfParam {n} {a} {b}"]
            if isinstance(s.test, ast.UnaryOp) and isinstance(s.test.op, ast.Not) and self.param(s.test.operand) is not None:
                return [f"RIfParam {self.param(s.test.operand)} {b} {a}"]
            return self.ev(s.test) + [f"RChoice {a} {b}"]
        if isinstance(s, ast.For):
            if s.orelse:
                self.err(s, "for-else")
            body = self.seq(self.target(s.target) + [x for st in s.body for x in self.stmt(st)])
            return self.ev(s.iter) + [f"RLoop {body}"]
        if isinstance(s, ast.While):
            if s.orelse:
                self.err(s, "while-else")
            body = self.seq(self.ev(s.test) + [f"RChoice (RExit XBrk) {self.block(s.body)}"])
            return [f"RLoop {body}"]
        if isinstance(s, ast.Try):
            if s.finalbody:
                self.err(s, "try-finally")
            hs = None
            for h in reversed(s.handlers):
                hb = self.seq(self.ev(h.type) + [x for st in h.body for x in self.stmt(st)])
                hs = hb if hs is None else f"(RChoice {hb} {hs})"
            return [f"RTry {self.block(s.body)} {hs or 'RSkip'} {self.block(s.orelse)}"]
        if isinstance(s, ast.With):
            out = []
            for it in s.items:
                out += self.ev(it.context_expr)
                if it.optional_vars is not None:
                    out += self.target(it.optional_vars)
            return out + [x for st in s.body for x in self.stmt(st)]
        if isinstance(s, ast.FunctionDef):
            if s.decorator_list:
                self.err(s, "decorated nested function")
            out = [x for d in s.args.defaults + [k for k in s.args.kw_defaults if k is not None] for x in self.ev(d)]
            self.closure += 1
            body = self.block(s.body)
            self.closure -= 1
            return out + [f"RClosure {body}"]
        self.err(s, f"statement {type(s).__name__}")

    def term(self):
        return self.block(self.body)


def _params(fdef, where, method):
    a = fdef.args
    names = [x.arg for x in a.posonlyargs + a.args]
    defaults = [None] * (len(names) - len(a.defaults)) + list(a.defaults)
    names += [x.arg for x in a.kwonlyargs]
    defaults += list(a.kw_defaults)
    if method:
        if not names or names[0] != "self":
            raise Rejected(f"{where}: method without `self` as first parameter")
        names, defaults = names[1:], defaults[1:]
    out = []
    for n, d in zip(names, defaults):
        if isinstance(d, ast.Constant) and isinstance(d.value, bool):
            out.append((n, "Some " + ("true" if d.value else "false")))
        else:
            out.append((n, "None"))
    return out


def _row(cls, name, kind, params, term):
    ps = "[" + "; ".join(f"({_s(n)}, {d})" for n, d in params) + "]"
    return f"  mkFn {_s(cls)} {_s(name)} {kind} {ps}\n    {term}"


def _default_events(fdef, fn):
    """default values are evaluated where the def statement is; they must not hide generator calls"""
    out = []
    for d in list(fdef.args.defaults) + [k for k in fdef.args.kw_defaults if k is not None]:
        out += fn.ev(d)
    return out


def module_rows(path, rows, classes, news):
    src = open(os.path.join(core.REPO, path)).read()
    tree = ast.parse(src)
    mod = "<module " + path.split("src/")[-1] + ">"
    top = []            # module-level statements that are not def / class
    for n in tree.body:
        if isinstance(n, ast.FunctionDef):
            if n.decorator_list:
                raise Rejected(f"{path}: decorated function {n.name}")
            ps = _params(n, f"{path}:{n.name}", False)
            fn = Fn(f"{path}:{n.name}", n.body, [p for p, _ in ps], None, news, "")
            top += [ast.Expr(value=d) for d in list(n.args.defaults) + [k for k in n.args.kw_defaults if k is not None]]
            rows.append(("", n.name, _row("", n.name, "FFunction", ps, fn.term())))
        elif isinstance(n, ast.ClassDef):
            class_rows(path, n, rows, classes, news, top)
        elif isinstance(n, (ast.AsyncFunctionDef,)):
            raise Rejected(f"{path}: async def")
        else:
            top.append(n)
    fn = Fn(f"{path}:<module>", top, [], None, news, "")
    rows.append(("", mod, _row("", mod, "FToplevel", [], fn.term())))


def class_rows(path, cdef, rows, classes, news, top):
    cname = cdef.name
    bases = []
    for b in cdef.bases:
        if not isinstance(b, ast.Name):
            raise Rejected(f"{path}: class {cname}: base class expression")
        bases.append(b.id)
    if cdef.keywords:
        raise Rejected(f"{path}: class {cname}: metaclass / class keywords")
    dataclass = False
    for d in cdef.decorator_list:
        dn = d.func if isinstance(d, ast.Call) else d
        if isinstance(dn, ast.Name) and dn.id == "dataclass":
            dataclass = True
            if isinstance(d, ast.Call):
                top.append(ast.Expr(value=d))
        else:
            raise Rejected(f"{path}: class {cname}: decorator")
    classes.append((cname, bases, dataclass))
    body = []
    stores, seeds = set(), set()
    for n in cdef.body:
        if isinstance(n, ast.FunctionDef):
            kind = "FMethod"
            for d in n.decorator_list:
                if isinstance(d, ast.Name) and d.id == "property":
                    kind = "FProperty"
                else:
                    raise Rejected(f"{path}: {cname}.{n.name}: decorator")
            ps = _params(n, f"{cname}.{n.name}", True)
            fn = Fn(f"{cname}.{n.name}", n.body, [p for p, _ in ps], "self", news, cname)
            body += [ast.Expr(value=d) for d in list(n.args.defaults) + [k for k in n.args.kw_defaults if k is not None]]
            rows.append((cname, n.name, _row(cname, n.name, kind, ps, fn.term())))
            stores |= fn.self_stores
            seeds |= fn.seed_attrs
        elif isinstance(n, (ast.ClassDef, ast.AsyncFunctionDef)):
            raise Rejected(f"{path}: class {cname}: nested {type(n).__name__}")
        else:
            body.append(n)
    if stores & seeds:
        raise Rejected(f"{path}: class {cname}: self.{sorted(stores & seeds)[0]} is used as a seed and assigned by a method")
    fn = Fn(f"{cname}:<class body>", body, [], None, news, cname)
    name = "<class body>"
    rows.append((cname, name, _row(cname, name, "FToplevel", [], fn.term())))


def translate():
    _NAMES.clear()
    _s("")
    rows, classes, news = [], [], []
    for path in FILES:
        module_rows(path, rows, classes, news)
    keys = [(c, n) for c, n, _ in rows]
    if len(set(keys)) != len(keys):
        raise Rejected("a function / method is defined twice under one name")
    cn = [c for c, _, _ in classes]
    if len(set(cn)) != len(cn) or "" in cn:
        raise Rejected("two classes of the same name")
    body = ["Definition gen_funs : list fn := [", ";\n".join(r for c, _, r in rows if c == ""), "].", ""]
    for c, bs, dc in classes:
        body += [f"Definition gen_methods_{c} : list fn := [", ";\n".join(r for c2, _, r in rows if c2 == c), "].", ""]
    body.append("Definition gen_classes : list cls := [")
    body.append(";\n".join(f"  mkCls {_s(c)} [{'; '.join(_s(b) for b in bs)}] {'true' if dc else 'false'} gen_methods_{c}"
                           for c, bs, dc in classes))
    body += ["].", ""]
    body.append("Definition gen_news : list (string * string * string) := [")
    body.append(";\n".join(f"  ({_s(c)}, {_s(x)}, {_s(k)})" for c, x, k in news))
    body += ["].", "", "Definition generated_table : rng_table := mkRT gen_funs gen_classes gen_news."]
    head = ["(* RngGen.v -- GENERATED by harness/translate_rngflow.py from the working tree; do not edit *)",
            "From Coq Require Import String.",
            "From VQ Require Import Base PyRng.",
            "Local Open Scope string_scope.", "",
            "(* class, function, attribute and parameter names *)"]
    head += [f"Definition {ident} : string := {_lit(x)}." for x, ident in _NAMES.items()]
    return OrderedDict([("RngGen.v", "\n".join(head + [""] + body) + "\n")])


if __name__ == "__main__":
    import sys
    sys.stdout.write(translate()["RngGen.v"])
