"""translate_heurpath.py -- fail-closed translator  path_based_rp.py -> coq/gen/HeurPathGen.v   (property C09, path heuristic).

Reads the source of `PathBasedRoutingProblem` (and the module-level `get_sampled_key`) from the tree under test and
prints, for each of

    get_sampled_key, get_route_names, generate_route, add_routes_better, make_feasible, get_routes

one Gallina definition `gen_<name>` plus one `gen_<name>_loop<k>` per `for` / `while` loop (the loop BODY as a function
of the loop variable and the loop-carried variables; `self` is loop-carried when the body modifies it).
`check_arc`, `check_route`, `add_route` and the Arc / Node accessors are translated by harness/translate_path.py
(coq/gen/PathGen.v); `translate()` of this module calls it first and returns both files.
coq/genprops/C09_path_gen.v proves the generated definitions equal to the hand model Heur.v.

The translator is a typed, syntax-directed printer of a small imperative fragment (see notes/C09_path_gen.md for the
exact list).  What each printed combinator MEANS is defined in coq/theories/PyHeurPath.v (and PyPath.v, Heur.v), not
here.  Operators and constants are printed from the ast node, never from the source text; Python locals are printed
as `v_<name>` and re-bound by shadowing `let`s, so that an exception handler printed at the point where the
exception can occur sees the values the variables have at that point.  Anything outside the fragment raises
`Rejected` with the line number.

Oracles: `np.random.choice(keys, p=pmf)` is printed as `py_random_choice choose keys pmf` where `pmf` is the SYMBOLIC
float expression (PyHeurPath.fx) of the source; an f-string is printed as `fstr [parts]`.  `choose` and `fstr` are
parameters of every generated definition that (transitively) needs them.

Value semantics and aliasing: Gallina has no heap.  Accepted: a list is bound to ONE name; `c.append(x)` stores the
value of x (x must not be modified in place afterwards, and must be a name created in the same loop iteration);
a list handed to `add_route` (which converts names in place) is checked to come back unchanged (`py_call_frozen`);
a parameter that a function modifies in place (generate_route's `vf`) must be part of every `return` and callers may
pass only `None` / a fresh object for it.
"""
import ast
import os
import re
from collections import OrderedDict

import translate_path as TP
from translate_path import Rejected, where, is_docstring, is_self, indent

CLASS = TP.CLASS
REL = TP.REL

ERR_CLASSES = ("KeyError", "ValueError", "IndexError", "TypeError", "AssertionError")


# ---------------------------------------------------------------------------------------------
# types:  atoms "Z" "nat" "bool" "name" "node" "arc" "fx" "kvdict" "natpair" "unit" "lit" "flit" "none" "fn";
#         ("list", T) | ("opt", T) | ("tuple", [T...]);  a Cell is the element type of `[]` until its first use
# ---------------------------------------------------------------------------------------------
class Cell:
    count = 0
    registry = {}

    def __init__(self):
        Cell.count += 1
        self.id = Cell.count
        self.ty = None
        Cell.registry[self.id] = self

    @property
    def token(self):
        return f"@@T{self.id}@@"


def resolve(t):
    while isinstance(t, Cell) and t.ty is not None:
        t = t.ty
    if isinstance(t, tuple):
        if t[0] in ("list", "opt"):
            return (t[0], resolve(t[1]))
        if t[0] == "tuple":
            return ("tuple", [resolve(x) for x in t[1]])
    return t


def unify(a, b):
    """Make the two types equal (binding cells); False when impossible."""
    a, b = resolve(a), resolve(b)
    if isinstance(a, Cell):
        if a is not b:
            a.ty = b
        return True
    if isinstance(b, Cell):
        b.ty = a
        return True
    if isinstance(a, tuple) and isinstance(b, tuple) and a[0] == b[0]:
        if a[0] in ("list", "opt"):
            return unify(a[1], b[1])
        return len(a[1]) == len(b[1]) and all(unify(x, y) for x, y in zip(a[1], b[1]))
    return a == b


ATOM_COQ = {"Z": "Z", "nat": "nat", "bool": "bool", "name": "nat", "node": "node", "arc": "arc", "fx": "fx",
            "kvdict": "kvdict", "natpair": "(nat * nat)", "unit": "unit", "fn": "(Z -> Z)", "pstate": "pstate"}
ZLIST, NATLIST, NAMELIST = ("list", "Z"), ("list", "nat"), ("list", "name")
NATLISTS, NAMELISTS, NODELIST = ("list", NATLIST), ("list", NAMELIST), ("list", "node")


def coq_ty(t):
    t = resolve(t)
    if isinstance(t, Cell):
        return t.token
    if isinstance(t, tuple):
        if t[0] == "list":
            return f"(list {coq_ty(t[1])})"
        if t[0] == "opt":
            return f"(option {coq_ty(t[1])})"
        if t[0] == "tuple":
            return "(" + " * ".join(coq_ty(x) for x in t[1]) + ")"
    if t not in ATOM_COQ:
        raise Rejected(f"internal: no Coq type for {t}")
    return ATOM_COQ[t]


def is_list(t):
    t = resolve(t)
    return isinstance(t, tuple) and t[0] == "list"


def show(t):
    t = resolve(t)
    if isinstance(t, Cell):
        return "list-element-type-unknown"
    if isinstance(t, tuple):
        if t[0] == "tuple":
            return "tuple[" + ", ".join(show(x) for x in t[1]) + "]"
        return f"{t[0]}[{show(t[1])}]"
    return str(t)


# self.<field> reads
SELF_FIELDS = {
    "nodes": (NODELIST, "(nodes (pg st))"),
    "node_names": (NAMELIST, "(names (pg st))"),
    "depot_index": ("nat", "(py_depot st)"),
    "vehicle_cap": ("Z", "(pcap st)"),
    "initial_loading": ("Z", "(pinit st)"),
    "routes": (NATLISTS, "(proutes st)"),
    "route_costs": (ZLIST, "(pcosts st)"),
}
# attributes of self that exist only as results of the translated functions (not part of Path.pstate)
SELF_OUT_ATTRS = {"feasible_solution": ZLIST}
# methods of self that are primitives here (models: Heur.max_vehicles, Vrptw.add_node / add_arc through PyHeurPath.v):
# name -> (parameter types, payload type, modifies self, combinator)
SELF_PRIMS = {
    "estimate_max_vehicles": ([], "nat", False, "py_estimate_max_vehicles"),
    "add_node": (["name", "Z"], "unit", True, "py_add_node"),
    "add_arc": (["name", "name", "Z", "Z"], "bool", True, "py_add_arc"),
}
# accessors generated by translate_path (PathGen.v)
ACCESSORS = {("arc", "get_cost"): "Z", ("arc", "get_travel_time"): "Z", ("arc", "get_destination"): "node",
             ("node", "get_load"): "Z"}
# the functions translated here, in this order: kind, parameter types by position, declared result
FUNCS = OrderedDict([
    ("get_sampled_key", ("function", ["kvdict", "Z"], ("tuple", ["nat", "nat"]))),
    ("get_route_names", ("method", [NATLIST], NAMELIST)),
    ("generate_route", ("method", [("opt", ZLIST), "Z", ("opt", ZLIST), ("opt", "fn"), ("opt", NATLIST)],
                        ("tuple", [NATLIST, ZLIST]))),
    ("add_routes_better", ("method", ["Z", ("opt", ZLIST), ("opt", "fn")], ("tuple", [NATLIST, NATLISTS]))),
    ("make_feasible", ("method", ["Z"], ("attrs", ["feasible_solution"]))),
    ("get_routes", ("method", [ZLIST], NAMELISTS)),
])
ORACLES = OrderedDict([("choose", "(choose : list nat -> fx -> nat)"), ("fstr", "(fstr : list fpart -> nat)")])
Z_CMP = {ast.Lt: "<?", ast.LtE: "<=?", ast.Gt: ">?", ast.GtE: ">=?", ast.Eq: "=?"}
NAT_CMP = {ast.Lt: "Nat.ltb", ast.LtE: "Nat.leb", ast.Eq: "Nat.eqb"}
BIN = {ast.Add: ("+", "FAdd"), ast.Sub: ("-", "FSub"), ast.Mult: ("*", "FMul"), ast.Div: (None, "FDiv")}


class Var:
    def __init__(self, ty, coq, shared=False, is_param=False):
        self.ty, self.coq, self.shared, self.is_param = ty, coq, shared, is_param


class Ex:
    """A translated expression: type, term, whether the term has type `result <type>`; `mut`: the term has type
    `result (pstate * <type>)` (`result pstate` for unit) and the new self must be bound; `lit`: value of a literal."""
    def __init__(self, ty, term, raising=False, mut=False, lit=None, fresh=True, var=None):
        self.ty, self.term, self.raising, self.mut, self.lit, self.fresh, self.var = ty, term, raising, mut, lit, fresh, var


def is_logger_stmt(st):
    if not (isinstance(st, ast.Expr) and isinstance(st.value, ast.Call)):
        return False
    f = st.value.func
    return (isinstance(f, ast.Attribute) and isinstance(f.value, ast.Name) and f.value.id == "logger"
            and f.attr in ("debug", "info", "warning", "error", "critical"))


def falls_through(stmts):
    """Syntactic: can control reach the end of this block?"""
    for st in stmts:
        if isinstance(st, (ast.Return, ast.Raise, ast.Break, ast.Continue)):
            return False
        if isinstance(st, ast.If) and st.orelse and not falls_through(st.body) and not falls_through(st.orelse):
            return False
    return True


def must_assign(stmts):
    """Names certainly bound when control reaches the end of the block (None = the end is not reached)."""
    out = set()
    for st in stmts:
        if isinstance(st, (ast.Return, ast.Raise, ast.Break, ast.Continue)):
            return None
        if isinstance(st, ast.Assign):
            for t in st.targets:
                for n in ([t] if isinstance(t, ast.Name) else (t.elts if isinstance(t, ast.Tuple) else [])):
                    if isinstance(n, ast.Name):
                        out.add(n.id)
        elif isinstance(st, ast.If):
            a, b = must_assign(st.body), must_assign(st.orelse)
            if a is None and b is None:
                return None
            out |= (b if a is None else a if b is None else (a & b))
    return out


# ---------------------------------------------------------------------------------------------
class FnInfo:
    def __init__(self, name, kind, params, ret):
        self.name, self.kind, self.params, self.ret = name, kind, params, ret
        self.mut_self = False
        self.mut_params = []
        self.oracles = []

    @property
    def gen(self):
        return "gen_" + self.name

    def oracle_args(self):
        return "".join(" " + o for o in ORACLES if o in self.oracles)

    def oracle_params(self):
        return "".join(" " + ORACLES[o] for o in ORACLES if o in self.oracles)

    def ret_types(self):
        if self.ret[0] == "attrs":
            return [SELF_OUT_ATTRS[a] for a in self.ret[1]]
        if self.ret[0] == "tuple":
            return list(self.ret[1])
        return [self.ret]

    def out_type(self):
        parts = (["pstate"] if self.mut_self else []) + [coq_ty(t) for t in self.ret_types()]
        return "(result (" + " * ".join(parts) + "))"


class Ctx:
    """How return / raise / break / continue / falling off the end are printed at the current position.
    loop: None, or the list of Coq names of the loop-carried variables (in order).
    handler: None, or (exception class, env -> term) of the innermost enclosing `try` (outer: the context around it)."""
    def __init__(self, fn, loop=None, handler=None, outer=None):
        self.fn, self.loop, self.handler, self.outer = fn, loop, handler, outer

    def pack(self):
        if not self.loop:
            return "tt"
        return self.loop[0] if len(self.loop) == 1 else "(" + ", ".join(self.loop) + ")"

    def raise_var(self, e, env):
        if self.handler is not None:
            cls, h = self.handler
            return f"if errcls_eqb {e} {cls} then\n{h(env)}\nelse\n{self.outer.raise_var(e, env)}"
        return f"LRaise {e}" if self.loop is not None else f"(Err {e})"

    def raise_const(self, cls, env):
        if self.handler is not None:
            if self.handler[0] == cls:
                return self.handler[1](env)
            return self.outer.raise_const(cls, env)
        return f"LRaise {cls}" if self.loop is not None else f"(Err {cls})"

    def ret(self, terms, node):
        if self.loop is not None:
            raise Rejected(f"{where(node)}: return inside a loop")
        parts = (["st"] if self.fn.mut_self else []) + list(terms)
        return "(Ok " + (parts[0] if len(parts) == 1 else "(" + ", ".join(parts) + ")") + ")"

    def brk(self, node):
        if self.loop is None:
            raise Rejected(f"{where(node)}: break outside a loop")
        return f"LBreak {self.pack()}"

    def nxt(self, node=None):
        if self.loop is None:
            raise Rejected(f"{where(node)}: continue outside a loop")
        return f"LNext {self.pack()}"


class Translator:
    def __init__(self, tree):
        cls = [n for n in tree.body if isinstance(n, ast.ClassDef) and n.name == CLASS]
        if len(cls) != 1:
            raise Rejected(f"class {CLASS} not found")
        self.defs = {}
        for owner, body in (("method", cls[0].body), ("function", tree.body)):
            for n in body:
                if isinstance(n, ast.FunctionDef) and n.name in FUNCS and FUNCS[n.name][0] == owner:
                    if n.name in self.defs:
                        raise Rejected(f"{where(n)}: {n.name} is defined twice")
                    self.defs[n.name] = n
        for n in cls[0].body:
            if isinstance(n, ast.FunctionDef) and n.name in FUNCS and FUNCS[n.name][0] == "function":
                raise Rejected(f"{where(n)}: {n.name} is expected at module level, found in the class")
        self.done = OrderedDict()
        self.texts = []
        self.n = 0
        self.fn = None
        self.loopn = 0

    def fresh(self, p):
        self.n += 1
        return f"{p}{self.n}"

    def use_oracle(self, o):
        if o not in self.fn.oracles:
            self.fn.oracles.append(o)

    # ------------------------------------------------------------------ effects
    def assigned(self, stmts):
        """Python names bound or modified in place in the block; "self" for a modification of self;
        "self.<attr>" for an assignment to a result attribute."""
        out = []

        def add(x):
            if x != "_" and x not in out:
                out.append(x)

        def target(t):
            if isinstance(t, ast.Name):
                add(t.id)
            elif isinstance(t, ast.Tuple):
                for e in t.elts:
                    target(e)
            elif isinstance(t, ast.Subscript) and isinstance(t.value, ast.Name):
                add(t.value.id)
            elif isinstance(t, ast.Attribute) and is_self(t.value) and t.attr in SELF_OUT_ATTRS:
                add("self." + t.attr)
            else:
                raise Rejected(f"{where(t)}: assignment target {type(t).__name__}")

        def calls(v):
            for c in ast.walk(v):
                if not isinstance(c, ast.Call):
                    continue
                f = c.func
                if isinstance(f, ast.Attribute) and is_self(f.value):
                    if f.attr in SELF_PRIMS and SELF_PRIMS[f.attr][2]:
                        add("self")
                    elif f.attr == "add_route":
                        add("self")
                    elif f.attr in self.done and self.done[f.attr].mut_self:
                        add("self")
                    elif f.attr not in self.done and f.attr not in SELF_PRIMS and f.attr not in ("check_arc",):
                        raise Rejected(f"{where(c)}: self.{f.attr}(...) is not a translated method")
                elif isinstance(f, ast.Attribute) and isinstance(f.value, ast.Name) and f.attr in ("append", "remove"):
                    add(f.value.id)

        def go(block):
            for st in block:
                if isinstance(st, ast.Assign):
                    for t in st.targets:
                        target(t)
                    calls(st.value)
                elif isinstance(st, ast.AugAssign):
                    target(st.target)
                    calls(st.value)
                elif isinstance(st, (ast.For, ast.While)):
                    if isinstance(st, ast.For):
                        target(st.target)
                        calls(st.iter)
                    else:
                        calls(st.test)
                    go(st.body)
                    go(st.orelse)
                elif isinstance(st, ast.If):
                    calls(st.test)
                    go(st.body)
                    go(st.orelse)
                elif isinstance(st, ast.Try):
                    go(st.body)
                    for h in st.handlers:
                        go(h.body)
                    go(st.orelse)
                    go(st.finalbody)
                elif isinstance(st, ast.Expr):
                    if not is_logger_stmt(st):
                        calls(st.value)
                elif isinstance(st, ast.Assert):
                    calls(st.test)
                elif isinstance(st, ast.Return):
                    if st.value is not None:
                        calls(st.value)
                elif isinstance(st, (ast.Pass, ast.Break, ast.Continue)):
                    pass
                else:
                    raise Rejected(f"{where(st)}: statement {type(st).__name__} is outside the accepted fragment")
        go(stmts)
        return out

    # ------------------------------------------------------------------ expressions
    def lift(self, ops, build, raising_result=False):
        """Evaluate the operands left to right, then `build(pure terms)`.  Returns (term, raising)."""
        names, binds = [], []
        for o in ops:
            if o.mut:
                raise Rejected("a call that modifies self is used inside an expression")
            if o.raising:
                x = self.fresh("x")
                binds.append((x, o.term))
                names.append(x)
            else:
                names.append(o.term)
        body = build(names)
        if not binds:
            return body, raising_result
        if not raising_result:
            body = f"Ok {body}"
        for x, t in reversed(binds):
            body = f"rbind {t} (fun {x} => {body})"
        return f"({body})", True

    def conv(self, o, want, node):
        """Function term -> term that converts a pure term of o's type to `want` (literals, Some / None, Z -> fx)."""
        ty, want = resolve(o.ty), resolve(want)
        if isinstance(want, tuple) and want[0] == "opt":
            if ty == "none":
                return lambda s: "None"
            if isinstance(ty, tuple) and ty[0] == "opt":
                if unify(ty[1], want[1]):
                    return lambda s: s
            else:
                inner = self.conv(o, want[1], node)
                return lambda s: f"(Some {inner(s)})"
        if ty == "lit":
            v, isfloat = o.lit
            if want == "Z":
                return lambda s: s
            if want == "nat" and v >= 0 and not isfloat:
                return lambda s: f"{v}%nat"
            if want == "fx":
                return lambda s: f"(FOfZ {s})"
        elif ty == "flit" and want == "fx":
            return lambda s: s
        elif ty == "Z" and want == "fx":
            return lambda s: f"(FOfZ {s})"
        elif unify(ty, want):
            return lambda s: s
        raise Rejected(f"{where(node)}: a value of type {show(ty)} is used where {show(want)} is expected")

    def default_ty(self, o):
        """The type a bare literal gets when nothing else determines it."""
        t = resolve(o.ty)
        if t == "lit":
            return "Z"
        if t == "flit":
            return "fx"
        return t

    def num_join(self, a, b, node):
        """Common numeric type of two operands."""
        ta, tb = resolve(a.ty), resolve(b.ty)
        order = ["lit", "nat", "Z", "flit", "fx"]
        if ta not in order or tb not in order:
            raise Rejected(f"{where(node)}: arithmetic / comparison on {show(ta)}, {show(tb)}")
        s = {ta, tb}
        if s <= {"lit"}:
            return "Z"
        if s <= {"lit", "nat"}:
            return "nat"
        if s <= {"lit", "Z"}:
            return "Z"
        if "nat" in s:
            raise Rejected(f"{where(node)}: a count / index is mixed with a number ({show(ta)}, {show(tb)})")
        return "fx"

    def expr(self, e, env):
        if isinstance(e, ast.Constant):
            v = e.value
            if isinstance(v, bool):
                return Ex("bool", "true" if v else "false")
            if isinstance(v, int):
                return Ex("lit", f"({v})" if v < 0 else f"{v}", lit=(v, False))
            if isinstance(v, float):
                if v != v or v in (float("inf"), float("-inf")):
                    raise Rejected(f"{where(e)}: float constant {v!r}")
                if v == int(v):
                    iv = int(v)
                    return Ex("lit", f"({iv})" if iv < 0 else f"{iv}", lit=(iv, True))
                num, den = v.as_integer_ratio()
                return Ex("flit", f"(FLit ({num}) {den})" if num < 0 else f"(FLit {num} {den})")
            if v is None:
                return Ex("none", "None")
            raise Rejected(f"{where(e)}: constant {v!r}")
        if isinstance(e, ast.Name):
            if e.id not in env:
                raise Rejected(f"{where(e)}: unknown name {e.id!r} (not bound on every path to this point)")
            v = env[e.id]
            if resolve(v.ty) == "none":
                raise Rejected(f"{where(e)}: {e.id} is None here")
            return Ex(v.ty, v.coq, fresh=False, var=v)
        if isinstance(e, ast.Attribute):
            if is_self(e.value) and e.attr in SELF_FIELDS:
                ty, term = SELF_FIELDS[e.attr]
                return Ex(ty, term, fresh=False)
            if is_self(e.value) and ("self." + e.attr) in env:
                v = env["self." + e.attr]
                return Ex(v.ty, v.coq, fresh=False, var=v)
            raise Rejected(f"{where(e)}: attribute .{e.attr}")
        if isinstance(e, ast.UnaryOp):
            o = self.expr(e.operand, env)
            t = resolve(o.ty)
            if isinstance(e.op, ast.USub):
                if t == "lit":
                    v, fl = o.lit
                    return Ex("lit", f"({-v})" if -v < 0 else f"{-v}", lit=(-v, fl))
                if t == "Z":
                    s, r = self.lift([o], lambda a: f"(- {a[0]})")
                    return Ex("Z", s, r)
                if t in ("fx", "flit"):
                    s, r = self.lift([o], lambda a: f"(FNeg {a[0]})")
                    return Ex("fx", s, r)
            if isinstance(e.op, ast.Not) and t == "bool":
                s, r = self.lift([o], lambda a: f"(negb {a[0]})")
                return Ex("bool", s, r)
            raise Rejected(f"{where(e)}: unary {type(e.op).__name__} on {show(t)}")
        if isinstance(e, ast.BinOp):
            return self.binop(e, env)
        if isinstance(e, ast.BoolOp):
            ops = [self.expr(v, env) for v in e.values]
            if any(resolve(o.ty) != "bool" for o in ops):
                raise Rejected(f"{where(e)}: and/or on {[show(o.ty) for o in ops]}")
            is_and = isinstance(e.op, ast.And)
            if not any(o.raising for o in ops):
                return Ex("bool", "(" + (" && " if is_and else " || ").join(o.term for o in ops) + ")")
            as_res = lambda o: o.term if o.raising else f"(Ok {o.term})"
            term = as_res(ops[-1])
            for o in reversed(ops[:-1]):
                x = self.fresh("x")
                term = (f"(rbind {as_res(o)} (fun {x} => if {x} then {term} else Ok false))" if is_and else
                        f"(rbind {as_res(o)} (fun {x} => if {x} then Ok true else {term}))")
            return Ex("bool", term, True)
        if isinstance(e, ast.Compare):
            return self.compare(e, env)
        if isinstance(e, ast.IfExp):
            return self.ifexp(e, env)
        if isinstance(e, ast.Tuple):
            ops = [self.expr(v, env) for v in e.elts]
            if len(ops) == 2:
                cs = [self.conv(o, "nat", e) for o in ops]
                s, r = self.lift(ops, lambda x: f"({cs[0](x[0])}, {cs[1](x[1])})")
                return Ex("natpair", s, r)
            raise Rejected(f"{where(e)}: tuple of {[show(o.ty) for o in ops]}")
        if isinstance(e, ast.List):
            if not e.elts:
                c = Cell()
                return Ex(("list", c), f"(@nil {c.token})")
            ops = [self.expr(v, env) for v in e.elts]
            ety = self.default_ty(ops[0])
            for o in ops[1:]:
                if resolve(o.ty) not in ("lit",):
                    ety = self.default_ty(o)
            cs = [self.conv(o, ety, e) for o in ops]
            s, r = self.lift(ops, lambda x: "[" + "; ".join(c(y) for c, y in zip(cs, x)) + "]")
            return Ex(("list", ety), s, r)
        if isinstance(e, ast.JoinedStr):
            return self.fstring(e, env)
        if isinstance(e, ast.Subscript):
            return self.subscript(e, env)
        if isinstance(e, ast.Call):
            return self.call(e, env)
        raise Rejected(f"{where(e)}: expression {type(e).__name__} is outside the accepted fragment")

    def binop(self, e, env):
        # [c] * n
        if isinstance(e.op, ast.Mult) and isinstance(e.left, ast.List) and len(e.left.elts) == 1:
            c, n = self.expr(e.left.elts[0], env), self.expr(e.right, env)
            ety = self.default_ty(c)
            cc, cn = self.conv(c, ety, e), self.conv(n, "nat", e)
            s, r = self.lift([c, n], lambda a: f"(py_repeat {cc(a[0])} {cn(a[1])})")
            return Ex(("list", ety), s, r)
        if type(e.op) not in BIN:
            raise Rejected(f"{where(e)}: operator {type(e.op).__name__}")
        sym, fsym = BIN[type(e.op)]
        a, b = self.expr(e.left, env), self.expr(e.right, env)
        ty = self.num_join(a, b, e)
        ca, cb = self.conv(a, ty, e), self.conv(b, ty, e)
        if ty == "fx":
            s, r = self.lift([a, b], lambda x: f"({fsym} {ca(x[0])} {cb(x[1])})")
            return Ex("fx", s, r)
        if sym is None:
            raise Rejected(f"{where(e)}: division of exact numbers")
        if ty == "nat":
            if sym == "-":
                raise Rejected(f"{where(e)}: subtraction of counts / indices")
            s, r = self.lift([a, b], lambda x: f"({ca(x[0])} {sym} {cb(x[1])})%nat")
            return Ex("nat", s, r)
        s, r = self.lift([a, b], lambda x: f"({ca(x[0])} {sym} {cb(x[1])})")
        return Ex("Z", s, r)

    def is_none_test(self, t, env):
        """`x is None` / `x is not None` for an optional variable x  ->  (name, True when the test is `is None`)."""
        if (isinstance(t, ast.Compare) and len(t.ops) == 1 and isinstance(t.ops[0], (ast.Is, ast.IsNot))
                and isinstance(t.comparators[0], ast.Constant) and t.comparators[0].value is None):
            if not (isinstance(t.left, ast.Name) and t.left.id in env):
                raise Rejected(f"{where(t)}: `is None` on something that is not a local name")
            ty = resolve(env[t.left.id].ty)
            if not (isinstance(ty, tuple) and ty[0] == "opt"):
                raise Rejected(f"{where(t)}: `is None` on {t.left.id}, which is not an optional parameter here")
            return t.left.id, isinstance(t.ops[0], ast.Is)
        return None

    def narrow(self, env, name, some):
        env2 = OrderedDict(env)
        v = env[name]
        env2[name] = Var(resolve(v.ty)[1] if some else "none", v.coq, v.shared, v.is_param)
        return env2

    def compare(self, e, env):
        if len(e.ops) != 1:
            raise Rejected(f"{where(e)}: chained comparison")
        op = e.ops[0]
        if isinstance(op, (ast.Is, ast.IsNot)):
            raise Rejected(f"{where(e)}: `is` / `is not` is accepted only as the whole test `x is None` of an if")
        a, b = self.expr(e.left, env), self.expr(e.comparators[0], env)
        if isinstance(op, (ast.In, ast.NotIn)):
            w = (lambda s: f"(negb {s})") if isinstance(op, ast.NotIn) else (lambda s: s)
            tb = resolve(b.ty)
            if resolve(a.ty) == "name" and tb == NAMELIST:
                s, r = self.lift([a, b], lambda x: w(f"(memb {x[0]} {x[1]})"))
                return Ex("bool", s, r)
            if tb == NATLIST:
                ca = self.conv(a, "nat", e)
                s, r = self.lift([a, b], lambda x: w(f"(memb {ca(x[0])} {x[1]})"))
                return Ex("bool", s, r)
            raise Rejected(f"{where(e)}: `in` on {show(a.ty)}, {show(b.ty)}")
        neg = isinstance(op, ast.NotEq)
        base = ast.Eq if neg else type(op)
        wrap = (lambda s: f"(negb {s})") if neg else (lambda s: s)
        if base not in Z_CMP:
            raise Rejected(f"{where(e)}: comparison {type(op).__name__}")
        if resolve(a.ty) == "bool" and resolve(b.ty) == "bool" and base is ast.Eq:
            s, r = self.lift([a, b], lambda x: wrap(f"(Bool.eqb {x[0]} {x[1]})"))
            return Ex("bool", s, r)
        if resolve(a.ty) == "name" and resolve(b.ty) == "name" and base is ast.Eq:
            s, r = self.lift([a, b], lambda x: wrap(f"(Nat.eqb {x[0]} {x[1]})"))
            return Ex("bool", s, r)
        ty = self.num_join(a, b, e)
        ca, cb = self.conv(a, ty, e), self.conv(b, ty, e)
        if ty == "Z":
            s, r = self.lift([a, b], lambda x: wrap(f"({ca(x[0])} {Z_CMP[base]} {cb(x[1])})"))
            return Ex("bool", s, r)
        if ty == "nat":
            if base in NAT_CMP:
                s, r = self.lift([a, b], lambda x: wrap(f"({NAT_CMP[base]} {ca(x[0])} {cb(x[1])})"))
            else:       # a > b  is  b < a;  a >= b  is  b <= a
                f = NAT_CMP[ast.Lt if base is ast.Gt else ast.LtE]
                s, r = self.lift([a, b], lambda x: wrap(f"({f} {cb(x[1])} {ca(x[0])})"))
            return Ex("bool", s, r)
        raise Rejected(f"{where(e)}: comparison of floating-point expressions")

    def ifexp(self, e, env):
        nt = self.is_none_test(e.test, env)
        if nt is not None:
            name, is_none = nt
            env_some = self.narrow(env, name, True)
            a = self.expr(e.body, env if is_none else env_some)
            b = self.expr(e.orelse, env_some if is_none else env)
            none_ex, some_ex = (a, b) if is_none else (b, a)
        else:
            c = self.expr(e.test, env)
            if resolve(c.ty) != "bool" or c.raising:
                raise Rejected(f"{where(e)}: test of a conditional expression must be a bool that cannot raise")
            a, b = self.expr(e.body, env), self.expr(e.orelse, env)
        if a.mut or b.mut:
            raise Rejected(f"{where(e)}: a call that modifies self inside a conditional expression")
        ta, tb = resolve(a.ty), resolve(b.ty)
        if ta in ("lit", "flit", "nat", "Z", "fx") and tb in ("lit", "flit", "nat", "Z", "fx"):
            ty = self.num_join(a, b, e)
        else:
            ty = ta
        ca, cb = self.conv(a, ty, e), self.conv(b, ty, e)
        raising = a.raising or b.raising
        res = lambda o, c: (f"(rbind {o.term} (fun y => Ok {c('y')}))" if o.raising else f"(Ok {c(o.term)})") if raising else c(o.term)
        if nt is not None:
            cn, cs = (ca, cb) if is_none else (cb, ca)
            term = f"match {env[name].coq} with None => {res(none_ex, cn)} | Some {env[name].coq} => {res(some_ex, cs)} end"
        else:
            term = f"if {c.term} then {res(a, ca)} else {res(b, cb)}"
        return Ex(ty, f"({term})", raising)

    def fstring(self, e, env):
        parts, ops = [], []
        for v in e.values:
            if isinstance(v, ast.Constant) and isinstance(v.value, str):
                s = v.value
                if not s.isascii() or '"' in s or not s.isprintable():
                    raise Rejected(f"{where(e)}: f-string text {s!r}")
                parts.append(("S", s))
            elif isinstance(v, ast.FormattedValue) and v.conversion == -1 and v.format_spec is None:
                o = self.expr(v.value, env)
                t = self.default_ty(o)
                if t not in ("nat", "Z"):
                    raise Rejected(f"{where(e)}: f-string field of type {show(t)}")
                parts.append(("N" if t == "nat" else "Z", self.conv(o, t, e)))
                ops.append(o)
            else:
                raise Rejected(f"{where(e)}: f-string field with conversion / format specification")
        self.use_oracle("fstr")

        def build(xs):
            xs, out = list(xs), []
            for kind, p in parts:
                out.append(f'FS "{p}"' if kind == "S" else f"F{kind} {p(xs.pop(0))}")
            return "(fstr [" + "; ".join(out) + "])"
        s, r = self.lift(ops, build)
        return Ex("name", s, r)

    def subscript(self, e, env):
        if isinstance(e.slice, (ast.Slice, ast.Tuple)) and not (
                isinstance(e.value, ast.Attribute) and is_self(e.value.value) and e.value.attr == "arcs"):
            raise Rejected(f"{where(e)}: slice / tuple subscript")
        if isinstance(e.value, ast.Attribute) and is_self(e.value.value) and e.value.attr == "arcs":
            k = self.expr(e.slice, env)
            if resolve(k.ty) != "natpair":
                raise Rejected(f"{where(e)}: self.arcs[{show(k.ty)}]")
            s, r = self.lift([k], lambda a: f"(py_arcs_getitem st (py_key {a[0]}))", True)
            return Ex("arc", s, r, fresh=False)
        v, i = self.expr(e.value, env), self.expr(e.slice, env)
        tv = resolve(v.ty)
        ci = self.conv(i, "nat", e)
        if tv == "kvdict":
            s, r = self.lift([v, i], lambda a: f"(py_kv_getitem {a[0]} {ci(a[1])})", True)
            return Ex("Z", s, r)
        if is_list(tv):
            s, r = self.lift([v, i], lambda a: f"(py_nth {a[0]} {ci(a[1])})", True)
            return Ex(tv[1], s, r, fresh=False)
        raise Rejected(f"{where(e)}: subscript on {show(tv)}")

    def kwargs(self, e):
        kw = {k.arg: k.value for k in e.keywords}
        if None in kw:
            raise Rejected(f"{where(e)}: **kwargs")
        return kw

    def call(self, e, env):
        f = e.func
        kw = self.kwargs(e)
        args = e.args
        if any(isinstance(a, ast.Starred) for a in args):
            raise Rejected(f"{where(e)}: *args")
        if isinstance(f, ast.Name):
            if f.id in env:                                        # a local function value (lambda / parameter)
                if resolve(env[f.id].ty) != "fn" or kw or len(args) != 1:
                    raise Rejected(f"{where(e)}: call of the local {f.id}")
                a = self.expr(args[0], env)
                ca = self.conv(a, "Z", e)
                s, r = self.lift([a], lambda x: f"({env[f.id].coq} {ca(x[0])})")
                return Ex("Z", s, r)
            if f.id == "len" and len(args) == 1 and not kw:
                a = self.expr(args[0], env)
                if is_list(a.ty) or resolve(a.ty) == "kvdict":
                    s, r = self.lift([a], lambda x: f"(length {x[0]})")
                    return Ex("nat", s, r)
                raise Rejected(f"{where(e)}: len of {show(a.ty)}")
            if f.id == "dict" and not args and not kw:
                return Ex("kvdict", "(@nil (nat * Z))")
            if f.id == "range" and len(args) == 1 and not kw:
                a = self.expr(args[0], env)
                ca = self.conv(a, "nat", e)
                s, r = self.lift([a], lambda x: f"(py_nat_range {ca(x[0])})")
                return Ex(NATLIST, s, r)
            if f.id == "list" and len(args) == 1 and not kw:
                m = args[0]
                if (isinstance(m, ast.Call) and isinstance(m.func, ast.Name) and m.func.id == "map" and "map" not in env
                        and len(m.args) == 2 and not m.keywords and isinstance(m.args[0], ast.Lambda)):
                    return self.map_lambda(m, env)
                a = self.expr(m, env)
                if is_list(a.ty):
                    return Ex(a.ty, a.term, a.raising, fresh=True)
                raise Rejected(f"{where(e)}: list() of {show(a.ty)}")
            if f.id in ("max", "min") and len(args) == 2 and not kw:
                ops = [self.expr(a, env) for a in args]
                cs = [self.conv(o, "Z", e) for o in ops]
                fn = "Z.max" if f.id == "max" else "Z.min"
                s, r = self.lift(ops, lambda x: f"({fn} {cs[0](x[0])} {cs[1](x[1])})")
                return Ex("Z", s, r)
            if f.id == "max" and len(args) == 1 and set(kw) == {"default"}:
                a, d = self.expr(args[0], env), self.expr(kw["default"], env)
                if resolve(a.ty) != ZLIST:
                    raise Rejected(f"{where(e)}: max of {show(a.ty)}")
                cd = self.conv(d, "Z", e)
                s, r = self.lift([a, d], lambda x: f"(py_max_default {x[0]} {cd(x[1])})")
                return Ex("Z", s, r)
            if f.id == "min" and len(args) == 1 and set(kw) == {"key"}:
                a, k = self.expr(args[0], env), kw["key"]
                if not (resolve(a.ty) == "kvdict" and isinstance(args[0], ast.Name) and isinstance(k, ast.Attribute)
                        and k.attr == "get" and isinstance(k.value, ast.Name) and k.value.id == args[0].id):
                    raise Rejected(f"{where(e)}: min(..., key=...) is accepted only as min(d, key=d.get) for a dict d")
                return Ex("nat", f"(py_min_key {a.term})", True)
            if f.id == "softmax" and len(args) == 1 and not kw:
                a = self.expr(args[0], env)
                ca = self.conv(a, "fx", e)
                s, r = self.lift([a], lambda x: f"(FSoftmax {ca(x[0])})")
                return Ex("fx", s, r)
            if f.id in self.done and self.done[f.id].kind == "function":
                return self.call_own(self.done[f.id], e, env)
            raise Rejected(f"{where(e)}: call of {f.id}")
        if not isinstance(f, ast.Attribute):
            raise Rejected(f"{where(e)}: call of {type(f).__name__}")
        # np.random.choice(keys, p=pmf)
        if (isinstance(f.value, ast.Attribute) and isinstance(f.value.value, ast.Name) and f.value.value.id == "np"
                and f.value.attr == "random" and f.attr == "choice" and len(args) == 1 and set(kw) == {"p"}):
            a, p = self.expr(args[0], env), self.expr(kw["p"], env)
            if resolve(a.ty) != NATLIST:
                raise Rejected(f"{where(e)}: np.random.choice over {show(a.ty)}")
            cp = self.conv(p, "fx", e)
            self.use_oracle("choose")
            s, r = self.lift([a, p], lambda x: f"(py_random_choice choose {x[0]} {cp(x[1])})", True)
            return Ex("nat", s, r)
        # np.*
        if isinstance(f.value, ast.Name) and f.value.id == "np" and "np" not in env:
            if f.attr == "fromiter" and len(args) == 1 and set(kw) == {"dtype"} and isinstance(kw["dtype"], ast.Name) \
                    and kw["dtype"].id == "float":
                a = self.expr(args[0], env)
                if resolve(a.ty) == ZLIST:
                    s, r = self.lift([a], lambda x: f"(FVec {x[0]})")
                    return Ex("fx", s, r)
            if f.attr == "sum" and len(args) == 1 and not kw:
                a = self.expr(args[0], env)
                if resolve(a.ty) == "fx":
                    s, r = self.lift([a], lambda x: f"(FSum {x[0]})")
                    return Ex("fx", s, r)
            if f.attr == "zeros" and len(args) == 1 and not kw:
                a = self.expr(args[0], env)
                ca = self.conv(a, "nat", e)
                s, r = self.lift([a], lambda x: f"(py_repeat 0 {ca(x[0])})")
                return Ex(ZLIST, s, r)
            if f.attr == "flatnonzero" and len(args) == 1 and not kw:
                a = self.expr(args[0], env)
                if resolve(a.ty) == ZLIST:
                    s, r = self.lift([a], lambda x: f"(flatnonzero {x[0]})")
                    return Ex(NATLIST, s, r)
            raise Rejected(f"{where(e)}: np.{f.attr}(...) in this form is outside the accepted fragment")
        # self.<list>.index(x)
        if isinstance(f.value, ast.Attribute) and is_self(f.value.value) and f.attr == "index" and len(args) == 1 and not kw:
            a = self.expr(args[0], env)
            if f.value.attr == "node_names" and resolve(a.ty) == "name":
                s, r = self.lift([a], lambda x: f"(py_names_index st {x[0]})", True)
                return Ex("nat", s, r)
            if f.value.attr == "routes" and resolve(a.ty) == NATLIST:
                s, r = self.lift([a], lambda x: f"(py_routes_index st {x[0]})", True)
                return Ex("nat", s, r)
            raise Rejected(f"{where(e)}: self.{f.value.attr}.index({show(a.ty)})")
        # self.method(...)
        if is_self(f.value):
            if kw:
                raise Rejected(f"{where(e)}: keyword arguments to self.{f.attr}")
            if f.attr in SELF_PRIMS:
                ptys, ret, mut, comb = SELF_PRIMS[f.attr]
                if len(args) != len(ptys):
                    raise Rejected(f"{where(e)}: self.{f.attr} is accepted with exactly {len(ptys)} positional arguments")
                ops = [self.expr(a, env) for a in args]
                cs = [self.conv(o, t, e) for o, t in zip(ops, ptys)]
                build = lambda x: f"({comb} st" + "".join(" " + c(y) for c, y in zip(cs, x)) + ")"
                if not mut:
                    s, r = self.lift(ops, build)
                    return Ex(ret, s, r)
                if any(o.raising for o in ops):
                    # evaluate the arguments first (they read the old self), then the call
                    s, _ = self.lift(ops, build, True)
                    return Ex(ret, s, True, mut=True)
                return Ex(ret, build([o.term for o in ops]), True, mut=True)
            if f.attr == "check_arc":
                if len(args) != 3:
                    raise Rejected(f"{where(e)}: check_arc takes 3 arguments")
                ops = [self.expr(a, env) for a in args]
                cs = [self.conv(ops[0], "Z", e), self.conv(ops[1], "Z", e), self.conv(ops[2], "natpair", e)]
                s, r = self.lift(ops, lambda x: f"(gen_check_arc st {cs[0](x[0])} {cs[1](x[1])} (py_key {cs[2](x[2])}))", True)
                return Ex(("tuple", ["bool", "Z", "Z"]), s, r)
            if f.attr == "add_route":
                raise Rejected(f"{where(e)}: self.add_route(...) is accepted only as `x, y = self.add_route(<name>)`")
            if f.attr in self.done and self.done[f.attr].kind == "method":
                return self.call_own(self.done[f.attr], e, env)
            raise Rejected(f"{where(e)}: self.{f.attr}(...) is not a translated method")
        # methods of values
        recv = self.expr(f.value, env)
        tr = resolve(recv.ty)
        if (tr, f.attr) in ACCESSORS and not args and not kw:
            cls = "Arc" if tr == "arc" else "Node"
            s, r = self.lift([recv], lambda x: f"(gen_{cls}_{f.attr} st {x[0]})")
            return Ex(ACCESSORS[(tr, f.attr)], s, r)
        if tr == "kvdict" and f.attr in ("keys", "values") and not args and not kw:
            s, r = self.lift([recv], lambda x: f"(kv_{f.attr} {x[0]})")
            return Ex(NATLIST if f.attr == "keys" else ZLIST, s, r, fresh=False)
        raise Rejected(f"{where(e)}: method .{f.attr} on {show(tr)}")

    def map_lambda(self, m, env):
        """list(map(lambda x: e, l))"""
        lam, l = m.args[0], self.expr(m.args[1], env)
        a = lam.args
        if len(a.args) != 1 or a.vararg or a.kwarg or a.kwonlyargs or a.posonlyargs or a.defaults:
            raise Rejected(f"{where(m)}: lambda with other than one plain parameter")
        if not is_list(l.ty):
            raise Rejected(f"{where(m)}: map over {show(l.ty)}")
        x = a.args[0].arg
        if x in env or x == "self":
            raise Rejected(f"{where(m)}: lambda parameter {x} re-uses an existing name")
        env2 = OrderedDict(env)
        env2[x] = Var(resolve(l.ty)[1], "v_" + x)
        b = self.expr(lam.body, env2)
        if b.mut:
            raise Rejected(f"{where(m)}: the lambda modifies self")
        body = b.term if b.raising else f"(Ok {b.term})"
        s, r = self.lift([l], lambda y: f"(py_map_list (fun v_{x} => {body}) {y[0]})", True)
        return Ex(("list", self.default_ty(b)), s, r)

    def call_own(self, info, e, env):
        if e.keywords:
            raise Rejected(f"{where(e)}: keyword arguments to {info.name}")
        if len(e.args) != len(info.params):
            raise Rejected(f"{where(e)}: {info.name} must be called with all {len(info.params)} arguments positionally")
        if info.ret[0] == "attrs":
            raise Rejected(f"{where(e)}: call of {info.name}")
        ops = [self.expr(a, env) for a in e.args]
        cs = []
        for o, a, (p, ty) in zip(ops, e.args, info.params):
            if p in info.mut_params and not (resolve(o.ty) == "none" or (o.fresh and o.var is None)):
                raise Rejected(f"{where(e)}: {info.name} modifies (and returns) its argument {p}; only None or a fresh object may be passed")
            cs.append(self.conv(o, ty, e))
        for o in info.oracles:
            self.use_oracle(o)
        head = info.gen + info.oracle_args() + (" st" if info.kind == "method" else "")
        build = lambda x: f"({head}" + "".join(" " + c(y) for c, y in zip(cs, x)) + ")"
        ret = info.ret if info.ret[0] == "tuple" else info.ret
        if info.mut_self:
            if any(o.raising for o in ops):
                raise Rejected(f"{where(e)}: arguments of {info.name} may raise")
            return Ex(ret, build([o.term for o in ops]), True, mut=True)
        s, r = self.lift(ops, build, True)
        return Ex(ret, s, r)

    # ------------------------------------------------------------------ statements
    def log_ok(self, node, env):
        """Arguments of a logger call are evaluated by Python; they are not printed (exceptions raised while
        formatting a log message are not modelled), but they must be expressions of the accepted fragment."""
        if isinstance(node, ast.Constant):
            return
        if isinstance(node, ast.JoinedStr):
            for v in node.values:
                self.log_ok(v.value if isinstance(v, ast.FormattedValue) else v, env)
            return
        if isinstance(node, ast.BinOp) and isinstance(node.op, ast.Add):
            self.log_ok(node.left, env)
            self.log_ok(node.right, env)
            return
        saved = (self.n, list(self.fn.oracles))
        ex = self.expr(node, env)
        self.n, self.fn.oracles = saved[0], saved[1]
        if ex.mut:
            raise Rejected(f"{where(node)}: a logger argument modifies self")

    def pat_of(self, names):
        return names[0] if len(names) == 1 else "(" + ", ".join(names) + ")"

    def bind(self, ex, pats, ctx, env, rest):
        """Evaluate ex, bind its value to the pattern names `pats` (one name, or one per tuple component; "_" to
        discard), continue with rest (a thunk)."""
        if ex.mut:
            if not ctx.fn.mut_self:
                raise Rejected("internal: self is modified in a function not marked so")
            err = self.fresh("e")
            handler = ctx.raise_var(err, env)
            okpat = "st" if resolve(ex.ty) == "unit" else self.pat_of(["st"] + list(pats))
            return f"match {ex.term} with\n| Err {err} => {handler}\n| Ok {okpat} =>\n{rest()}\nend"
        if ex.raising:
            err = self.fresh("e")
            handler = ctx.raise_var(err, env)
            return f"match {ex.term} with\n| Err {err} => {handler}\n| Ok {self.pat_of(list(pats))} =>\n{rest()}\nend"
        if len(pats) == 1:
            return f"let {pats[0]} := {ex.term} in\n{rest()}"
        return f"let '{self.pat_of(list(pats))} := {ex.term} in\n{rest()}"

    def define(self, env, name, ty, node, shared=False):
        env2 = OrderedDict(env)
        if name in env:
            old = env[name]
            told = resolve(old.ty)
            if told == "none":
                pass
            elif isinstance(told, tuple) and told[0] == "opt":
                raise Rejected(f"{where(node)}: the optional parameter {name} is re-bound outside `if {name} is None:`")
            elif not unify(old.ty, ty):
                raise Rejected(f"{where(node)}: {name} changes its type from {show(old.ty)} to {show(ty)}")
            env2[name] = Var(ty, old.coq, shared, False)
        else:
            env2[name] = Var(ty, ("a_" + name[5:]) if name.startswith("self.") else "v_" + name, shared, False)
        return env2

    def modifiable(self, env, name, node):
        """The local list `name` is about to be modified in place."""
        v = env[name]
        if v.shared:
            raise Rejected(f"{where(node)}: {name} is modified in place after it was stored in another list "
                           "(the stored element would change as well; a value cannot express that)")
        if v.is_param and name not in self.fn.mut_params:
            raise Rejected(f"internal: parameter {name} is modified but not marked so")

    def block(self, stmts, env, ctx, k):
        """Term for: run stmts in env, then k(env') (the rest of the enclosing block)."""
        if not stmts:
            return k(env)
        st, rest = stmts[0], stmts[1:]
        cont = lambda env2: self.block(rest, env2, ctx, k)

        if is_docstring(st) or isinstance(st, ast.Pass):
            return cont(env)
        if is_logger_stmt(st):
            for a in list(st.value.args) + [x.value for x in st.value.keywords]:
                self.log_ok(a, env)
            return cont(env)
        if isinstance(st, (ast.Return, ast.Break, ast.Continue)) and rest:
            raise Rejected(f"{where(rest[0])}: unreachable statement")
        if isinstance(st, ast.Break):
            return ctx.brk(st)
        if isinstance(st, ast.Continue):
            return ctx.nxt(st)
        if isinstance(st, ast.Return):
            return self.return_stmt(st, env, ctx)
        if isinstance(st, ast.Assert):
            if st.msg is not None and not isinstance(st.msg, ast.Constant):
                raise Rejected(f"{where(st)}: assert message is not a constant")
            t = self.expr(st.test, env)
            if resolve(t.ty) == "kvdict":
                s, r = self.lift([t], lambda a: f"(py_dict_truth {a[0]})")
                t = Ex("bool", s, r)
            if resolve(t.ty) != "bool":
                raise Rejected(f"{where(st)}: assert on {show(t.ty)}")
            c = self.fresh("c")
            return self.bind(t, [c], ctx, env,
                             lambda: f"if {c} then\n{cont(env)}\nelse\n{ctx.raise_const('AssertionError', env)}")
        if isinstance(st, ast.Assign):
            return self.assign(st, env, ctx, cont)
        if isinstance(st, ast.AugAssign):
            return self.augassign(st, env, ctx, cont)
        if isinstance(st, ast.Expr):
            return self.expr_stmt(st, env, ctx, cont)
        if isinstance(st, ast.If):
            return self.if_stmt(st, env, ctx, cont, rest)
        if isinstance(st, ast.For):
            return self.for_loop(st, env, ctx, cont)
        if isinstance(st, ast.While):
            return self.while_loop(st, env, ctx, cont)
        if isinstance(st, ast.Try):
            return self.try_stmt(st, env, ctx, cont, rest)
        raise Rejected(f"{where(st)}: statement {type(st).__name__} is outside the accepted fragment")

    def return_stmt(self, st, env, ctx):
        fn = ctx.fn
        if fn.ret[0] == "attrs":
            if st.value is not None:
                raise Rejected(f"{where(st)}: {fn.name} returns a value")
            return self.end_of_attrs_fn(st, env, ctx)
        if st.value is None:
            raise Rejected(f"{where(st)}: bare return")
        want = fn.ret_types()
        vals = st.value.elts if fn.ret[0] == "tuple" and isinstance(st.value, ast.Tuple) else [st.value]
        if len(vals) != len(want):
            raise Rejected(f"{where(st)}: returns {len(vals)} values, declared {len(want)}")
        ops = [self.expr(v, env) for v in vals]
        for o in ops:
            if is_list(o.ty) and o.var is None and not o.fresh:
                raise Rejected(f"{where(st)}: returns a list that self holds")
            if is_list(o.ty) and o.var is not None and o.var.is_param and o.var.coq[2:] not in fn.mut_params:
                raise Rejected(f"{where(st)}: returns the caller's own list object")
        cs = [self.conv(o, t, st) for o, t in zip(ops, want)]
        if any(o.raising for o in ops):
            xs = [self.fresh("x") for _ in ops]
            t, _ = self.lift(ops, lambda x: "(" + ", ".join(c(y) for c, y in zip(cs, x)) + ")" if len(x) > 1 else cs[0](x[0]))
            err = self.fresh("e")
            return (f"match {t} with\n| Err {err} => {ctx.raise_var(err, env)}\n| Ok {self.pat_of(xs)} => "
                    f"{ctx.ret(xs, st)}\nend")
        return ctx.ret([c(o.term) for c, o in zip(cs, ops)], st)

    def end_of_attrs_fn(self, node, env, ctx):
        outs = []
        for a in ctx.fn.ret[1]:
            if "self." + a not in env:
                raise Rejected(f"{where(node)}: {ctx.fn.name} can return without having set self.{a}")
            outs.append(env["self." + a].coq)
        return ctx.ret(outs, node)

    def assign(self, st, env, ctx, cont):
        if len(st.targets) != 1:
            raise Rejected(f"{where(st)}: chained assignment")
        tgt, v = st.targets[0], st.value
        if isinstance(tgt, ast.Tuple):
            return self.assign_unpack(st, tgt, env, ctx, cont)
        if isinstance(tgt, ast.Subscript):
            return self.assign_subscript(st, tgt, env, ctx, cont)
        if isinstance(tgt, ast.Attribute):
            if not (is_self(tgt.value) and tgt.attr in SELF_OUT_ATTRS):
                raise Rejected(f"{where(st)}: assignment to attribute .{tgt.attr}")
            if ctx.fn.ret[0] != "attrs" or tgt.attr not in ctx.fn.ret[1]:
                raise Rejected(f"{where(st)}: {ctx.fn.name} is not declared to set self.{tgt.attr}")
            if ctx.loop is not None:
                raise Rejected(f"{where(st)}: self.{tgt.attr} is assigned inside a loop")
            ex = self.expr(v, env)
            c = self.conv(ex, SELF_OUT_ATTRS[tgt.attr], st)
            if ex.raising or ex.mut:
                raise Rejected(f"{where(st)}: the value stored in self.{tgt.attr} may raise")
            if ex.var is not None:
                ex.var.shared = True
            env2 = self.define(env, "self." + tgt.attr, SELF_OUT_ATTRS[tgt.attr], st)
            return f"let {env2['self.' + tgt.attr].coq} := {c(ex.term)} in\n{cont(env2)}"
        if not isinstance(tgt, ast.Name):
            raise Rejected(f"{where(st)}: assignment target {type(tgt).__name__}")
        name = tgt.id
        if name == "self":
            raise Rejected(f"{where(st)}: assignment to self")
        if name == "_":
            ex = self.expr(v, env)
            return self.bind(ex, ["_"], ctx, env, lambda: cont(env))
        if isinstance(v, ast.Lambda):
            a = v.args
            if len(a.args) != 1 or a.vararg or a.kwarg or a.kwonlyargs or a.posonlyargs or a.defaults:
                raise Rejected(f"{where(st)}: lambda with other than one plain parameter")
            x = a.args[0].arg
            if x in env or x == "self":
                raise Rejected(f"{where(st)}: lambda parameter {x} re-uses an existing name")
            envl = OrderedDict(env)
            envl[x] = Var("Z", "v_" + x)
            # a closure sees later re-bindings of the variables it mentions; a `let` does not
            for node in ast.walk(v.body):
                if isinstance(node, ast.Name) and node.id != x and self.bind_count.get(node.id, 0) != 1:
                    raise Rejected(f"{where(st)}: the lambda mentions {node.id}, which is bound more than once in the function")
            b = self.expr(v.body, envl)
            cb = self.conv(b, "Z", st)
            if b.raising or b.mut:
                raise Rejected(f"{where(st)}: the body of the lambda may raise")
            env2 = self.define(env, name, "fn", st)
            return f"let {env2[name].coq} := (fun v_{x} => {cb(b.term)}) in\n{cont(env2)}"
        if isinstance(v, ast.Name) and v.id in env and (is_list(env[v.id].ty) or resolve(env[v.id].ty) == "kvdict"):
            raise Rejected(f"{where(st)}: a second name for the list / dict {v.id}")
        ex = self.expr(v, env)
        ty = self.default_ty(ex)
        if ty in ("none", "unit") or (isinstance(ty, tuple) and ty[0] in ("tuple", "opt")):
            raise Rejected(f"{where(st)}: a local name for a value of type {show(ty)}")
        if (is_list(ty) or ty in ("node", "arc")) and not ex.fresh and ex.var is None and is_list(ty):
            raise Rejected(f"{where(st)}: a local name for a list that self holds")
        c = self.conv(ex, ty, st)
        env2 = self.define(env, name, ty, st)
        ex2 = Ex(ty, ex.term if not (ex.raising or ex.mut) else ex.term, ex.raising, ex.mut)
        if ex.raising or ex.mut:
            return self.bind(ex2, [env2[name].coq], ctx, env, lambda: cont(env2))
        return f"let {env2[name].coq} := {c(ex.term)} in\n{cont(env2)}"

    def assign_unpack(self, st, tgt, env, ctx, cont):
        v = st.value
        names = []
        for t in tgt.elts:
            if not isinstance(t, ast.Name) or t.id == "self":
                raise Rejected(f"{where(st)}: unpacking target {type(t).__name__}")
            names.append(t.id)
        real = [n for n in names if n != "_"]
        if len(set(real)) != len(real):
            raise Rejected(f"{where(st)}: a name occurs twice in the unpacking target")
        # x, y = self.add_route(<name>)
        if isinstance(v, ast.Call) and isinstance(v.func, ast.Attribute) and is_self(v.func.value) and v.func.attr == "add_route":
            if len(v.args) != 1 or v.keywords or not isinstance(v.args[0], ast.Name) or len(names) != 2:
                raise Rejected(f"{where(st)}: self.add_route(...) is accepted only as `x, y = self.add_route(<name>)`")
            a = self.expr(v.args[0], env)
            if resolve(a.ty) != NATLIST:
                raise Rejected(f"{where(st)}: add_route of {show(a.ty)}")
            if not ctx.fn.mut_self:
                raise Rejected("internal: self is modified in a function not marked so")
            env2 = env
            pats = []
            for n in names:
                if n == "_":
                    pats.append("_")
                else:
                    env2 = self.define(env2, n, "bool", st)
                    pats.append(env2[n].coq)
            r, res, err = self.fresh("r"), self.fresh("res"), self.fresh("e")
            return (f"let '(st, {r}, {res}) := gen_add_route st (py_elems {a.term}) in\n"
                    f"match py_call_frozen (py_elems {a.term}) {r} {res} with\n| Err {err} => {ctx.raise_var(err, env)}\n"
                    f"| Ok ({pats[0]}, {pats[1]}) =>\n{cont(env2)}\nend")
        ex = self.expr(v, env)
        ty = resolve(ex.ty)
        if not (isinstance(ty, tuple) and ty[0] == "tuple" and len(ty[1]) == len(names)):
            raise Rejected(f"{where(st)}: {show(ty)} is unpacked into {len(names)} names")
        env2, pats = env, []
        for n, t in zip(names, ty[1]):
            if n == "_":
                pats.append("_")
            else:
                env2 = self.define(env2, n, t, st)
                pats.append(env2[n].coq)
        return self.bind(ex, pats, ctx, env, lambda: cont(env2))

    def assign_subscript(self, st, tgt, env, ctx, cont):
        if not (isinstance(tgt.value, ast.Name) and tgt.value.id in env) or isinstance(tgt.slice, (ast.Slice, ast.Tuple)):
            raise Rejected(f"{where(st)}: subscript assignment to something that is not a local list / dict")
        name = tgt.value.id
        var = env[name]
        tv = resolve(var.ty)
        rhs, ix = self.expr(st.value, env), self.expr(tgt.slice, env)
        ci = self.conv(ix, "nat", st)
        self.modifiable(env, name, st)
        if tv == "kvdict":
            cv = self.conv(rhs, "Z", st)
            t, r = self.lift([rhs, ix], lambda x: f"(kv_set {ci(x[1])} {cv(x[0])} {var.coq})")
            return self.bind(Ex("kvdict", t, r), [var.coq], ctx, env, lambda: cont(env))
        if not is_list(tv):
            raise Rejected(f"{where(st)}: subscript assignment on {show(tv)}")
        cv = self.conv(rhs, tv[1], st)
        # Python evaluates the right-hand side first, then the subscript, then stores
        t, _ = self.lift([rhs, ix], lambda x: f"(py_set_nth {var.coq} {ci(x[1])} {cv(x[0])})", True)
        return self.bind(Ex(tv, t, True), [var.coq], ctx, env, lambda: cont(env))

    def augassign(self, st, env, ctx, cont):
        if not (isinstance(st.target, ast.Name) and st.target.id in env):
            raise Rejected(f"{where(st)}: augmented assignment to something that is not a local variable")
        var = env[st.target.id]
        tv = resolve(var.ty)
        if tv not in ("Z", "nat", "fx") or type(st.op) not in BIN:
            raise Rejected(f"{where(st)}: augmented assignment {type(st.op).__name__} on {show(tv)}")
        sym, fsym = BIN[type(st.op)]
        rhs = self.expr(st.value, env)
        c = self.conv(rhs, tv, st)
        if tv == "fx":
            build = lambda x: f"({fsym} {var.coq} {c(x[0])})"
        elif sym is None or (tv == "nat" and sym == "-"):
            raise Rejected(f"{where(st)}: augmented assignment {type(st.op).__name__} on {show(tv)}")
        else:
            build = lambda x: f"({var.coq} {sym} {c(x[0])})" + ("%nat" if tv == "nat" else "")
        t, r = self.lift([rhs], build)
        return self.bind(Ex(tv, t, r), [var.coq], ctx, env, lambda: cont(env))

    def expr_stmt(self, st, env, ctx, cont):
        v = st.value
        if isinstance(v, ast.Call) and isinstance(v.func, ast.Attribute) and isinstance(v.func.value, ast.Name) \
                and v.func.value.id in env and v.func.attr in ("append", "remove") and len(v.args) == 1 and not v.keywords:
            name = v.func.value.id
            var = env[name]
            tv = resolve(var.ty)
            if not is_list(tv):
                raise Rejected(f"{where(st)}: .{v.func.attr} on {show(tv)}")
            self.modifiable(env, name, st)
            a = self.expr(v.args[0], env)
            if v.func.attr == "append":
                ety = tv[1] if not isinstance(tv[1], Cell) else self.default_ty(a)
                c = self.conv(a, ety, st)
                if not unify(tv[1], ety):
                    raise Rejected(f"{where(st)}: appends {show(a.ty)} to {show(tv)}")
                env2 = env
                if is_list(a.ty):
                    if a.var is None and not a.fresh:
                        raise Rejected(f"{where(st)}: a list that self holds is stored in another list")
                    if a.var is not None:
                        an = v.args[0].id
                        if a.var.is_param or any(a.var.coq in carried for carried in self.loop_stack):
                            raise Rejected(f"{where(st)}: {an} is stored in another list but lives longer than this loop "
                                           "iteration / belongs to the caller (later changes would show in both)")
                        env2 = OrderedDict(env)
                        env2[an] = Var(a.var.ty, a.var.coq, True, False)
                t, r = self.lift([a], lambda x: f"({var.coq} ++ [{c(x[0])}])")
                return self.bind(Ex(tv, t, r), [var.coq], ctx, env, lambda: cont(env2))
            if resolve(tv) != NATLIST:
                raise Rejected(f"{where(st)}: .remove on {show(tv)}")
            c = self.conv(a, "nat", st)
            t, _ = self.lift([a], lambda x: f"(py_list_remove {var.coq} {c(x[0])})", True)
            return self.bind(Ex(tv, t, True), [var.coq], ctx, env, lambda: cont(env))
        if isinstance(v, (ast.Call, ast.Subscript)):
            ex = self.expr(v, env)
            if ex.mut:
                n = len(resolve(ex.ty)[1]) if isinstance(resolve(ex.ty), tuple) and resolve(ex.ty)[0] == "tuple" else 1
                return self.bind(ex, ["_"] * n, ctx, env, lambda: cont(env))
            if ex.raising:
                return self.bind(ex, ["_"], ctx, env, lambda: cont(env))
            return cont(env)
        raise Rejected(f"{where(st)}: expression statement outside the accepted fragment")

    def carried_of(self, names, env, node):
        """Order: self, then the variables that exist already (in env order), then new ones."""
        out = []
        if "self" in names:
            out.append(("self", "st"))
        for n in env:
            if n in names:
                out.append((n, env[n].coq))
        for n in names:
            if n != "self" and n not in env:
                if n.startswith("self."):
                    raise Rejected(f"{where(node)}: {n} is first assigned inside a branch / loop")
                out.append((n, "v_" + n))
        return out

    def join_env(self, env, live, ends, node):
        env2 = OrderedDict(env)
        for n, _ in live:
            if n == "self":
                continue
            first = ends[0][n]
            shared = False
            for e2 in ends:
                if n not in e2 or not unify(e2[n].ty, first.ty):
                    raise Rejected(f"{where(node)}: {n} has different types on the paths that meet here")
                shared = shared or e2[n].shared
            env2[n] = Var(first.ty, first.coq, shared, False)
        return env2

    def k_binder(self, live):
        coqs = [c for _, c in live]
        if not coqs:
            return "fun (_ : unit) =>", "tt"
        if len(coqs) == 1:
            return f"fun {coqs[0]} =>", coqs[0]
        pack = "(" + ", ".join(coqs) + ")"
        return f"fun '{pack} =>", pack

    def if_stmt(self, st, env, ctx, cont, rest):
        nt = self.is_none_test(st.test, env)
        if nt is not None:
            name, is_none = nt
            env_b = self.narrow(env, name, not is_none)
            env_e = self.narrow(env, name, is_none)
            v = env[name].coq

            def shape(body, orelse):
                none_t, some_t = (body, orelse) if is_none else (orelse, body)
                return f"match {v} with\n| None =>\n{none_t}\n| Some {v} =>\n{some_t}\nend"
            wrap = lambda f: f()
        else:
            test = self.expr(st.test, env)
            if resolve(test.ty) != "bool" or test.mut:
                raise Rejected(f"{where(st)}: if on {show(test.ty)}")
            env_b = env_e = env
            c = self.fresh("c")
            shape = lambda body, orelse: f"if {c} then\n{body}\nelse\n{orelse}"
            wrap = lambda f: self.bind(test, [c], ctx, env, f)
        fb, fe = falls_through(st.body), falls_through(st.orelse)
        if fb and fe:
            names = self.assigned(st.body + st.orelse)
            mb, me = must_assign(st.body), must_assign(st.orelse)
            names = [n for n in names if n == "self" or n in env or (n in mb and n in me)]
            live = self.carried_of(names, env, st)
            binder, pack = self.k_binder(live)
            kn = self.fresh("k")
            ends = []

            def after(env_end):
                ends.append(env_end)
                return f"{kn} {pack}"

            def inner():
                body = self.block(st.body, env_b, ctx, after)
                orelse = self.block(st.orelse, env_e, ctx, after)
                rest_term = cont(self.join_env(env, live, ends, st))
                return f"let {kn} := {binder}\n{rest_term}\nin\n{shape(body, orelse)}"
            return wrap(inner)
        if not fb and not fe and rest:
            raise Rejected(f"{where(rest[0])}: unreachable statement")

        def inner2():
            # at most one branch reaches the code after the if; it is printed inside that branch
            body = self.block(st.body, env_b, ctx, cont)
            orelse = self.block(st.orelse, env_e, ctx, cont)
            return shape(body, orelse)
        return wrap(inner2)

    def try_stmt(self, st, env, ctx, cont, rest):
        if st.orelse or st.finalbody or len(st.handlers) != 1:
            raise Rejected(f"{where(st)}: try with else / finally / several handlers")
        h = st.handlers[0]
        if not (isinstance(h.type, ast.Name) and h.type.id in ERR_CLASSES) or h.name:
            raise Rejected(f"{where(h)}: except clause is not `except <{'|'.join(ERR_CLASSES)}>:`")
        cls = h.type.id
        fb, fh = falls_through(st.body), falls_through(h.body)
        if not fb and not fh and rest:
            raise Rejected(f"{where(rest[0])}: unreachable statement")
        if fb and fh:
            names = self.assigned(st.body + h.body)
            mb, mh = must_assign(st.body), must_assign(h.body)
            names = [n for n in names if n == "self" or n in env or (n in mb and n in mh)]
            live = self.carried_of(names, env, st)
            binder, pack = self.k_binder(live)
            kn = self.fresh("k")
            ends = []

            def after(env_end):
                ends.append(env_end)
                return f"{kn} {pack}"
            handler = lambda env_h: "(" + self.block(h.body, env_h, ctx, after) + ")"
            tctx = Ctx(ctx.fn, loop=ctx.loop, handler=(cls, handler), outer=ctx)
            body = self.block(st.body, env, tctx, after)
            rest_term = cont(self.join_env(env, live, ends, st))
            return f"let {kn} := {binder}\n{rest_term}\nin\n{body}"
        handler = lambda env_h: "(" + self.block(h.body, env_h, ctx, cont) + ")"
        tctx = Ctx(ctx.fn, loop=ctx.loop, handler=(cls, handler), outer=ctx)
        return self.block(st.body, env, tctx, cont)

    def loop_parts(self, st, body, env, env_body, ctx, skip):
        """Common part of for / while: carried variables, free variables, the body definition.
        Returns (name of the definition, carried [(python name, coq name)], call prefix)."""
        names = self.assigned(body)
        names = [n for n in names if n == "self" or n in env or n.startswith("self.")]
        for n in names:
            if n.startswith("self."):
                raise Rejected(f"{where(st)}: {n} is assigned inside a loop")
        carried = self.carried_of(names, env, st)
        cnames = [n for n, _ in carried]
        read = []
        for node in ast.walk(ast.Module(body=body + skip, type_ignores=[])):
            if isinstance(node, ast.Name) and node.id in env and node.id not in cnames and node.id not in read:
                read.append(node.id)
        free = [n for n in env if n in read]
        self.loopn += 1
        lname = f"{ctx.fn.gen}_loop{self.loopn}"
        tys = ["pstate" if n == "self" else coq_ty(env[n].ty) for n in cnames]
        state_ty = "unit" if not tys else (tys[0] if len(tys) == 1 else "(" + " * ".join(tys) + ")")
        coqs = [c for _, c in carried]
        lctx = Ctx(ctx.fn, loop=coqs)
        self.loop_stack.append(coqs)
        try:
            def end(env2):
                for n in cnames:
                    if n != "self" and not unify(env2[n].ty, env[n].ty):
                        raise Rejected(f"{where(st)}: {n} changes its type in the loop")
                return lctx.nxt(st)
            term = self.block(body, env_body, lctx, end)
        finally:
            self.loop_stack.pop()
        st_param = " (st : pstate)" if ctx.fn.kind == "method" and "self" not in cnames else ""
        st_arg = " st" if st_param else ""
        params = "".join(f" ({env[n].coq} : {coq_ty(env[n].ty)})" for n in free)
        pre = ""
        if len(coqs) > 1:
            pre = f"let '{lctx.pack()} := s in\n"
        elif len(coqs) == 1:
            pre = f"let {coqs[0]} := s in\n"
        return lname, carried, state_ty, st_param, st_arg, params, free, pre, term, lctx

    def for_loop(self, st, env, ctx, cont):
        if st.orelse:
            raise Rejected(f"{where(st)}: for ... else")
        if not isinstance(st.target, ast.Name):
            raise Rejected(f"{where(st)}: loop target {type(st.target).__name__}")
        tname = st.target.id
        if tname != "_" and (tname in env or tname == "self"):
            raise Rejected(f"{where(st)}: loop variable {tname} re-uses an existing name")
        it = self.expr(st.iter, env)
        if not is_list(it.ty) or it.mut:
            raise Rejected(f"{where(st)}: for loop over {show(it.ty)}")
        ety = resolve(it.ty)[1]
        assigned = self.assigned(st.body)
        if tname in assigned:
            raise Rejected(f"{where(st)}: the loop variable {tname} is assigned in the loop")
        for node in ast.walk(st.iter):
            if isinstance(node, ast.Name) and node.id in assigned:
                raise Rejected(f"{where(st)}: {node.id} is iterated over and modified in the loop")
            if is_self(node) and "self" in assigned:
                raise Rejected(f"{where(st)}: a list of self is iterated over while the loop modifies self")
        env_body = OrderedDict(env)
        item = "v_" + tname
        if tname != "_":
            env_body[tname] = Var(ety, item)
        lname, carried, state_ty, st_param, st_arg, params, free, pre, term, lctx = \
            self.loop_parts(st, st.body, env, env_body, ctx, [])
        head = (f"Definition {lname}@@OP@@{st_param}{params} ({item} : {coq_ty(ety)}) (s : {state_ty})\n"
                f"  : lctl {state_ty} :=\n")
        self.texts.append(f"(* body of the for loop at {where(st)} *)\n" + head + indent(pre + term) + ".\n")
        pack = lctx.pack()
        fn_term = f"({lname}@@OA@@{st_arg}" + "".join(" " + env[n].coq for n in free) + ")"
        err = self.fresh("e")

        def loop(xs):
            return (f"match py_for {xs} {fn_term} {pack} with\n| Err {err} => {ctx.raise_var(err, env)}\n"
                    f"| Ok {pack if carried else '_'} =>\n{cont(env)}\nend")
        if it.raising:
            xs = self.fresh("x")
            return self.bind(it, [xs], ctx, env, lambda: loop(xs))
        return loop(it.term)

    def while_loop(self, st, env, ctx, cont):
        if st.orelse:
            raise Rejected(f"{where(st)}: while ... else")
        if ctx.fn.kind != "method":
            raise Rejected(f"{where(st)}: while loop outside a method (no fuel)")
        test = self.expr(st.test, env)
        if resolve(test.ty) != "bool" or test.raising or test.mut:
            raise Rejected(f"{where(st)}: the test of a while loop must be a bool that cannot raise")
        lname, carried, state_ty, st_param, st_arg, params, free, pre, term, lctx = \
            self.loop_parts(st, st.body, env, OrderedDict(env), ctx, [ast.Expr(value=st.test)])
        if "self" in [n for n, _ in carried]:
            raise Rejected(f"{where(st)}: self is modified inside a while loop")
        head = f"Definition {lname}@@OP@@{st_param}{params} (s : {state_ty})\n  : lctl {state_ty} :=\n"
        self.texts.append(f"(* body of the while loop at {where(st)} *)\n" + head + indent(pre + term) + ".\n")
        pack = lctx.pack()
        fn_term = f"({lname}@@OA@@{st_arg}" + "".join(" " + env[n].coq for n in free) + ")"
        cond = f"(fun s => {pre.replace(chr(10), ' ')}{test.term})"
        err = self.fresh("e")
        return (f"match py_while (while_fuel st) {cond} {fn_term} {pack} with\n| Err {err} => {ctx.raise_var(err, env)}\n"
                f"| Ok {pack if carried else '_'} =>\n{cont(env)}\nend")

    # ------------------------------------------------------------------ functions
    def inplace(self, fn):
        """Names modified in place somewhere in the function (subscript store, .append, .remove)."""
        out = set()
        for n in ast.walk(fn):
            if isinstance(n, (ast.Assign, ast.AugAssign)):
                for t in (n.targets if isinstance(n, ast.Assign) else [n.target]):
                    if isinstance(t, ast.Subscript) and isinstance(t.value, ast.Name):
                        out.add(t.value.id)
            if isinstance(n, ast.Call) and isinstance(n.func, ast.Attribute) and isinstance(n.func.value, ast.Name) \
                    and n.func.attr in ("append", "remove", "insert", "pop", "extend", "sort", "clear", "reverse", "update"):
                out.add(n.func.value.id)
        return out

    def function(self, name):
        if name not in self.defs:
            raise Rejected(f"{name} not found")
        fn = self.defs[name]
        kind, ptys, ret = FUNCS[name]
        a = fn.args
        if a.vararg or a.kwarg or a.kwonlyargs or a.posonlyargs or fn.decorator_list:
            raise Rejected(f"{where(fn)}: {name}: decorators / *args / keyword-only parameters are outside the accepted fragment")
        for d in a.defaults:
            if not (isinstance(d, ast.Constant) or (isinstance(d, ast.UnaryOp) and isinstance(d.operand, ast.Constant))):
                raise Rejected(f"{where(fn)}: {name}: a default value that is not a constant")
        pnames = [x.arg for x in a.args]
        if kind == "method":
            if not pnames or pnames[0] != "self":
                raise Rejected(f"{where(fn)}: {name} is not a method of self")
            pnames = pnames[1:]
        if len(pnames) != len(ptys) or len(set(pnames)) != len(pnames) or "self" in pnames or "_" in pnames:
            raise Rejected(f"{where(fn)}: {name} takes parameters {pnames}")
        for n in ast.walk(fn):
            if isinstance(n, (ast.Global, ast.Nonlocal, ast.FunctionDef, ast.AsyncFunctionDef, ast.ClassDef, ast.With,
                              ast.Delete, ast.Import, ast.ImportFrom, ast.Yield, ast.YieldFrom, ast.Await, ast.NamedExpr,
                              ast.Starred, ast.ListComp, ast.SetComp, ast.DictComp, ast.GeneratorExp, ast.Raise)) and n is not fn:
                raise Rejected(f"{where(n)}: {type(n).__name__} is outside the accepted fragment")
        info = FnInfo(name, kind, list(zip(pnames, ptys)), ret)
        self.fn = info
        env = OrderedDict()
        for p, ty in info.params:
            env[p] = Var(ty, "v_" + p, False, True)
        eff = self.assigned(fn.body)
        info.mut_self = "self" in eff
        if info.mut_self and kind != "method":
            raise Rejected(f"{where(fn)}: {name} modifies self")
        inpl = self.inplace(fn)
        info.mut_params = [p for p in pnames if p in inpl]
        for p in info.mut_params:
            for r in [n for n in ast.walk(fn) if isinstance(n, ast.Return)]:
                elts = r.value.elts if isinstance(r.value, ast.Tuple) else [r.value]
                if not any(isinstance(x, ast.Name) and x.id == p for x in elts):
                    raise Rejected(f"{where(r)}: {name} modifies its parameter {p} in place but does not return it")
        self.loopn = 0
        self.loop_stack = []
        self.bind_count = {}
        for n in ast.walk(fn):
            tg = n.targets if isinstance(n, ast.Assign) else [n.target] if isinstance(n, (ast.AugAssign, ast.For)) else []
            for t in tg:
                for m in ast.walk(t):
                    if isinstance(m, ast.Name) and isinstance(m.ctx, ast.Store):
                        self.bind_count[m.id] = self.bind_count.get(m.id, 0) + 1
        for p_ in pnames:
            self.bind_count[p_] = self.bind_count.get(p_, 0) + 1
        first = len(self.texts)
        cells0 = Cell.count
        ctx = Ctx(info)

        def end(env_end):
            if ret[0] != "attrs":
                raise Rejected(f"{where(fn)}: {name} can reach its end without return")
            return self.end_of_attrs_fn(fn, env_end, ctx)
        body = self.block(list(fn.body), env, ctx, end)
        sig = "".join(f" (v_{p} : {coq_ty(ty)})" for p, ty in info.params)
        st_param = " (st : pstate)" if kind == "method" else ""
        owner = CLASS + "." if kind == "method" else ""
        self.texts.append(f"(* {owner}{name}, {where(fn)} *)\n"
                          f"Definition {info.gen}@@OP@@{st_param}{sig} : {info.out_type()} :=\n" + indent(body) + ".\n")
        for i in range(first, len(self.texts)):
            t = self.texts[i].replace("@@OP@@", info.oracle_params()).replace("@@OA@@", info.oracle_args())
            for m in set(re.findall(r"@@T(\d+)@@", t)):
                rt = resolve(Cell.registry[int(m)])
                if isinstance(rt, Cell):
                    raise Rejected(f"{where(fn)}: the element type of an empty list `[]` in {name} is never determined")
                t = t.replace(f"@@T{m}@@", coq_ty(rt))
            self.texts[i] = t
        self.done[name] = info
        self.fn = None


def check_module(tree):
    ok_sm = any(isinstance(n, ast.ImportFrom) and n.module == "scipy.special" and n.level == 0
                and any(a.name == "softmax" and a.asname is None for a in n.names) for n in tree.body)
    if not ok_sm:
        raise Rejected("`from scipy.special import softmax` not found")
    extra = ("dict", "map", "softmax", "AssertionError", "KeyError")
    for n in ast.walk(tree):
        tg = []
        if isinstance(n, ast.Assign):
            tg = n.targets
        elif isinstance(n, (ast.AugAssign, ast.AnnAssign, ast.For)):
            tg = [n.target]
        elif isinstance(n, (ast.Import, ast.ImportFrom)):
            for a in n.names:
                bound = (a.asname or a.name).split(".")[0]
                if bound in extra and not (bound == "softmax" and isinstance(n, ast.ImportFrom) and n.module == "scipy.special"):
                    raise Rejected(f"{where(n)}: {bound} is re-bound by an import")
        elif isinstance(n, (ast.FunctionDef, ast.ClassDef)) and n.name in extra:
            raise Rejected(f"{where(n)}: {n.name} is re-defined")
        elif isinstance(n, ast.arg) and n.arg in extra:
            raise Rejected(f"{where(n)}: parameter named {n.arg}")
        for t in tg:
            for m in ast.walk(t):
                if isinstance(m, ast.Name) and m.id in extra:
                    raise Rejected(f"{where(n)}: {m.id} is re-bound")


def translate_source(src, origin=REL):
    try:
        tree = ast.parse(src)
    except SyntaxError as ex:
        raise Rejected(f"syntax error: {ex}")
    check_module(tree)
    tr = Translator(tree)
    for name in FUNCS:
        tr.function(name)
    head = [
        f"(* GENERATED by harness/translate_heurpath.py from {origin} -- do not edit.",
        "   One definition per translated function of the path-based feasibility heuristic (and one per loop body);",
        "   the combinators are defined in theories/PyHeurPath.v; check_arc / add_route come from PathGen.v;",
        "   coq/genprops/C09_path_gen.v proves these definitions equal to the hand model Heur.v. *)",
        "From Coq Require Import String.",
        "From VQ Require Import Base Vrptw Path Heur PyPath PyHeurPath.",
        "From VQG Require Import PathGen.",
        "",
    ]
    return "\n".join(head) + "\n" + "\n".join(tr.texts)


def translate():
    """Entry point for ctx.gen_step: {"PathGen.v": ..., "HeurPathGen.v": ...}.  Reads the tree under test."""
    from vq import core
    files = OrderedDict(TP.translate())            # also checks that np / sparse / logger / builtins are not re-bound
    with open(os.path.join(core.REPO, REL)) as fh:
        src = fh.read()
    files["HeurPathGen.v"] = translate_source(src, origin=REL)
    return files


if __name__ == "__main__":
    import sys
    print(translate_source(open(os.path.join(sys.argv[1], REL)).read()))
