"""translate_report.py -- fail-closed translator of QUBOContainer.report (tools/qubo_tools.py) into Gallina.

Package `report` (property C20).  Public entry: translate() -> {"ReportGen.v": text}; raises Rejected for
anything outside the whitelist.  The source is read from the tree under test (core.REPO).

The translator is a printer.  It walks the `ast` of the method and prints

  * straight-line assignments as `let v_<name> := <expr> in` (re-assignment shadows),
  * `if / elif / else` as a Gallina `if` returning the tuple of the variables the branches assign
    (`if X is not None:` / `X is None or ...` become a `match` on the option, which is exactly what the
    short-circuit evaluation / the guarded block means),
  * `for v in range(a, b):` as `range_fold a b (<body definition>) (<loop-carried variables>)`, the body
    being emitted as a separate top-level Definition `gen_<fn>_for<k>` whose parameters are the enclosing
    variables the body reads, then the tuple of loop-carried variables (= the variables the body assigns that
    exist before the loop, in order of first assignment), then the loop variable,
  * `for (a, b, c) in zip(l1, l2, l3):` / `for x in l:` as `for_each (zip3 l1 l2 l3) ...` with a generated body,
    `l.append(e)` as `l ++ [e]`, `a, b = e1, e2`, `(a, b, c) = <call returning a tuple>`, `continue` as the last action
    of a loop body, `if X is None: X = <default>`, f-strings as concatenations (these forms are used by
    translate_export.py, which shares this engine),
  * `d[k] = e` as `dict_set`, `x += e`, `abs`, `**`, `/` (exact fraction `mkquot`), `format(v, '0{}b'.format(n))`
    as `format_0b n v`, `[int(s) for s in D]` as `map (fun s => int_of_digit s) D`, `matrix.nnz`,
    `matrix.diagonal()`, `np.unique(l).size`, `to_upper_triangular(M)`

into combinators defined in coq/theories/PyReport.v and Report.v.  Operators, constants and argument order
are printed from the ast nodes; there is no comparison with the expected source text.  Types (nat for sizes /
counters / loop indices, Z for values, option for a variable initialised with None) are inferred from the
declared types of the attributes and arguments (tables below) and the operators.

Ignored: docstrings, comments, `pass`, `logger.*(...)` / `logging.*(...)` / `print(...)` statements,
annotations.  Everything else -> Rejected with the line number.
"""
import ast
import os
from fractions import Fraction


class Rejected(Exception):
    pass


def where(node):
    return f"line {getattr(node, 'lineno', '?')}"


# ------------------------------------------------------------------------------------------
# types
# ------------------------------------------------------------------------------------------
class Opt:
    """option type whose element type is fixed by the first non-None assignment"""

    def __init__(self, elem=None):
        self.elem = elem

    def __repr__(self):
        return f"Opt({self.elem!r})"


NAT, ZT, BOOL, MAT, OBJFUN, QUOT, DICT, LIT, STR = "nat", "Z", "bool", "mat", "objfun", "quot", "dict", "lit", "str"
DIGIT, BIT = "digit", "bit"


class Lst:
    """list type; the element type of a list created as `[]` is fixed by the first append"""

    def __init__(self, elem=None):
        self.elem = elem

    def __eq__(self, other):
        return isinstance(other, Lst) and self.elem is not None and self.elem == other.elem

    def __ne__(self, other):
        return not self.__eq__(other)

    def __hash__(self):
        return hash(("list", self.elem if isinstance(self.elem, str) else None))

    def __repr__(self):
        return f"Lst({self.elem!r})"


def LIST(t):
    return Lst(t)


def TUP(ts):
    return ("tuple", tuple(ts))


def is_tup(t):
    return isinstance(t, tuple) and len(t) == 2 and t[0] == "tuple"


TYTEXT = {NAT: "nat", ZT: "Z", BOOL: "bool", MAT: "zmat", OBJFUN: "(list bool -> Z)", QUOT: "quot", DICT: "rdict",
          DIGIT: "bool", BIT: "bool", STR: "string"}


def tytext(t, table=None):
    table = table or TYTEXT
    if isinstance(t, Opt):
        if t.elem is None:
            raise Rejected("a variable is only ever None: its type cannot be determined")
        return f"(option {tytext(t.elem, table)})"
    if isinstance(t, Lst):
        if t.elem is None:
            raise Rejected("a list stays empty: its element type cannot be determined")
        return f"(list {tytext(t.elem, table)})"
    if is_tup(t):
        return "(" + " * ".join(tytext(x, table) for x in t[1]) + ")"
    if t == LIT:
        return "nat"
    if t in table:
        return table[t]
    raise Rejected(f"internal: no Coq type for {t!r}")


class Var:
    def __init__(self, coq, ty):
        self.coq = coq
        self.ty = ty


def is_docstring(st):
    return isinstance(st, ast.Expr) and isinstance(st.value, ast.Constant) and isinstance(st.value.value, str)


def is_ignorable(st):
    """docstring, pass, logger.x(...), logging.x(...), print(...)"""
    if is_docstring(st) or isinstance(st, ast.Pass):
        return True
    if isinstance(st, ast.Expr) and isinstance(st.value, ast.Call):
        f = st.value.func
        if isinstance(f, ast.Attribute) and isinstance(f.value, ast.Name) and f.value.id in ("logger", "logging"):
            return True
        if isinstance(f, ast.Name) and f.id == "print":
            return True
    return False


def coq_string(s):
    """a Coq string expression for a text of printable ASCII characters and newlines (NL = the one-newline string
    of PyReport.v; Coq string literals have no escapes)"""
    parts = s.split("\n")
    out = []
    for k, part in enumerate(parts):
        for ch in part:
            if not (32 <= ord(ch) < 127):
                raise Rejected(f"string constant {s!r} has a character outside printable ASCII / newline")
        if k > 0:
            out.append("NL")
        if part or len(parts) == 1:
            out.append('"' + part.replace('"', '""') + '"')
    if len(out) == 1:
        return out[0] + "%string" if out[0] != "NL" else "NL"
    return "(" + " ++ ".join(out) + ")%string"


# ------------------------------------------------------------------------------------------
# the engine
# ------------------------------------------------------------------------------------------
class Engine:
    """Translates one method.  Subclasses give the tables (attributes, arguments, calls)."""

    PREFIX = "gen_fn"
    TYTABLE = TYTEXT
    ATTRS = []          # [(attribute name, type)]  -> parameters self_<name>, in this order
    METHODS0 = []       # [(zero-argument method of self, type of its result)] -> parameters self_<name>
    ORACLES = []        # [(env key, coq parameter name, type)] values the function obtains from outside (clock ...)
    DIM_ATTR = None     # attribute holding the dimension of the container's matrices
    NUMBER_TYPES = (ZT,)   # Z-represented number types a literal-initialised variable may turn out to have
    LOOP_RANGE = "range_fold"
    LOOP_EACH = "for_each"

    def __init__(self):
        self.defs = []          # loop bodies: (name, params, (state name, state types), loop variables, body text)
        self.uses = []          # stack of sets of env keys read
        self.nloops = 0
        self.nfresh = 0
        self.force = {}         # variable -> number type it must have although it is initialised with an integer literal
        self.lenient = False    # first pass of translate_twice: collect `force` instead of rejecting

    # ---------- bookkeeping ----------
    def use(self, key):
        for s in self.uses:
            s.add(key)

    def lookup(self, env, key, node):
        if key not in env:
            raise Rejected(f"{where(node)}: name {key!r} is not defined at this point (or not supported)")
        self.use(key)
        return env[key]

    def dim(self, env, node):
        if self.DIM_ATTR is None:
            raise Rejected(f"{where(node)}: no dimension attribute")
        return self.lookup(env, "self." + self.DIM_ATTR, node).coq

    # ---------- coercions ----------
    def lit_text(self, text, ty, want):
        if ty != LIT:
            return text
        return f"{text}%nat" if want == NAT else f"({text})%Z"

    def to_nat(self, text, ty, node):
        if ty == LIT:
            return f"{text}%nat"
        if ty == NAT:
            return text
        raise Rejected(f"{where(node)}: a natural number (size, index, counter) is needed here, found {ty}")

    def to_z(self, text, ty, node):
        if ty == LIT:
            return f"({text})%Z"
        if ty == NAT:
            return f"(Z.of_nat {text})"
        if ty == ZT:
            return text
        raise Rejected(f"{where(node)}: a number is needed here, found {ty}")

    def coerce(self, text, ty, want, node):
        """value of type ty stored into a variable / slot of type want"""
        if isinstance(want, Opt):
            if isinstance(ty, Opt):
                if ty.elem is not None:
                    if want.elem is None:
                        want.elem = ty.elem
                    elif want.elem != ty.elem:
                        raise Rejected(f"{where(node)}: option types differ")
                return text
            if want.elem is None:
                want.elem = NAT if ty == LIT else ty
            return f"(Some {self.coerce(text, ty, want.elem, node)})"
        if isinstance(want, Lst) and isinstance(ty, Lst):
            if want.elem is None:
                want.elem = ty.elem
            elif ty.elem is None:
                ty.elem = want.elem
            if want.elem != ty.elem:
                raise Rejected(f"{where(node)}: list types differ")
            return text
        if want == ZT:
            return self.to_z(text, ty, node)
        if want == NAT:
            return self.to_nat(text, ty, node)
        if ty == want:
            return text
        raise Rejected(f"{where(node)}: a value of type {ty} is assigned to a variable of type {want}")

    # ---------- expressions ----------
    def expr(self, e, env):
        """-> (text, type)"""
        if isinstance(e, ast.Constant):
            v = e.value
            if v is None:
                return "None", Opt()
            if isinstance(v, bool):
                return ("true" if v else "false"), BOOL
            if isinstance(v, int):
                if v < 0:
                    raise Rejected(f"{where(e)}: negative literal")
                return str(v), LIT
            if isinstance(v, float):
                if v != v or v in (float("inf"), float("-inf")) or Fraction(v).denominator != 1:
                    raise Rejected(f"{where(e)}: float constant {v!r} is not an integer value")
                return f"({int(v)})%Z", ZT
            if isinstance(v, str):
                return coq_string(v), STR
            raise Rejected(f"{where(e)}: constant {e.value!r} not supported")
        if isinstance(e, ast.Name):
            var = self.lookup(env, e.id, e)
            return var.coq, var.ty
        if isinstance(e, ast.Attribute):
            return self.attribute(e, env)
        if isinstance(e, ast.BinOp):
            return self.binop(e, env)
        if isinstance(e, ast.UnaryOp):
            a, ta = self.expr(e.operand, env)
            if isinstance(e.op, ast.Not):
                if ta != BOOL:
                    raise Rejected(f"{where(e)}: `not` of a non-boolean")
                return f"(negb {a})", BOOL
            if isinstance(e.op, ast.USub):
                return f"(- {self.to_z(a, ta, e)})%Z", ZT
            raise Rejected(f"{where(e)}: unary operator {type(e.op).__name__}")
        if isinstance(e, ast.Compare):
            return self.compare(e, env)
        if isinstance(e, ast.BoolOp):
            return self.boolop(e.op, list(e.values), env, e)
        if isinstance(e, ast.Call):
            return self.call(e, env)
        if isinstance(e, ast.ListComp):
            return self.listcomp(e, env)
        if isinstance(e, ast.Dict) and not e.keys:
            return "[]", DICT
        if isinstance(e, ast.List) and not e.elts:
            return "[]", Lst(None)
        if isinstance(e, ast.JoinedStr):
            return self.fstring(e, env)
        return self.expr_hook(e, env)

    def expr_hook(self, e, env):
        raise Rejected(f"{where(e)}: expression {type(e).__name__} not supported")

    def fstring(self, e, env):
        """f"...{x:spec}..." : the pieces, concatenated"""
        parts = []
        for v in e.values:
            if isinstance(v, ast.Constant) and isinstance(v.value, str):
                parts.append(coq_string(v.value))
            elif isinstance(v, ast.FormattedValue):
                if v.conversion != -1:
                    raise Rejected(f"{where(v)}: conversion flag in an f-string")
                a, ta = self.expr(v.value, env)
                spec = None
                if v.format_spec is not None:
                    fs = v.format_spec
                    if not (isinstance(fs, ast.JoinedStr) and len(fs.values) == 1 and isinstance(fs.values[0], ast.Constant)
                            and isinstance(fs.values[0].value, str)):
                        raise Rejected(f"{where(v)}: computed format specification")
                    spec = fs.values[0].value
                parts.append(self.format_value(a, ta, spec, v))
            else:
                raise Rejected(f"{where(e)}: f-string part {type(v).__name__}")
        if not parts:
            return '""%string', STR
        if len(parts) == 1:
            return parts[0], STR
        return "(" + " ++ ".join(parts) + ")%string", STR

    def format_value(self, a, ta, spec, node):
        if spec is None and ta == STR:
            return a
        return self.format_hook(a, ta, spec, node)

    def format_hook(self, a, ta, spec, node):
        raise Rejected(f"{where(node)}: format specification {spec!r} for a value of type {ta}")

    def attribute(self, e, env):
        if isinstance(e.value, ast.Name) and e.value.id == "self":
            key = "self." + e.attr
            if key not in env:
                raise Rejected(f"{where(e)}: attribute self.{e.attr} is not in the translator's table")
            var = self.lookup(env, key, e)
            return var.coq, var.ty
        a, ta = self.expr(e.value, env)
        return self.attr_hook(e, a, ta, env)

    def attr_hook(self, e, a, ta, env):
        raise Rejected(f"{where(e)}: attribute .{e.attr} of a value of type {ta}")

    def binop(self, e, env):
        a, ta = self.expr(e.left, env)
        b, tb = self.expr(e.right, env)
        op = e.op
        if isinstance(op, ast.Add) and ta == STR and tb == STR:
            return f"({a} ++ {b})%string", STR
        if isinstance(op, (ast.Add, ast.Sub, ast.Mult)):
            sym = {ast.Add: "+", ast.Sub: "-", ast.Mult: "*"}[type(op)]
            if ta == QUOT or tb == QUOT:
                if isinstance(op, ast.Add) and ta == QUOT and tb == QUOT:
                    return f"(quot_add {a} {b})", QUOT
                raise Rejected(f"{where(e)}: arithmetic {sym} on a quotient")
            if ta in (NAT, LIT) and tb in (NAT, LIT) and not isinstance(op, ast.Sub):
                return f"({self.to_nat(a, ta, e)} {sym} {self.to_nat(b, tb, e)})%nat", NAT
            return f"({self.to_z(a, ta, e)} {sym} {self.to_z(b, tb, e)})%Z", ZT
        if isinstance(op, ast.Pow):
            if ta in (NAT, LIT) and tb in (NAT, LIT):
                return f"(Nat.pow {self.to_nat(a, ta, e)} {self.to_nat(b, tb, e)})", NAT
            raise Rejected(f"{where(e)}: ** on non-integers")
        if isinstance(op, ast.Div):
            return f"(mkquot {self.to_z(a, ta, e)} {self.to_z(b, tb, e)})", QUOT
        raise Rejected(f"{where(e)}: operator {type(op).__name__}")

    def none_test(self, e, env):
        """(variable key, True for `is None` / False for `is not None`) or None"""
        if isinstance(e, ast.Compare) and len(e.ops) == 1 and isinstance(e.ops[0], (ast.Is, ast.IsNot)) \
                and isinstance(e.left, ast.Name) and isinstance(e.comparators[0], ast.Constant) \
                and e.comparators[0].value is None:
            var = self.lookup(env, e.left.id, e)
            if not isinstance(var.ty, Opt):
                raise Rejected(f"{where(e)}: `is None` test of {e.left.id}, which is never None")
            return e.left.id, isinstance(e.ops[0], ast.Is)
        return None

    def compare(self, e, env):
        if len(e.ops) != 1:
            raise Rejected(f"{where(e)}: chained comparison")
        nt = self.none_test(e, env)
        if nt is not None:
            key, is_none = nt
            t = f"(is_none {env[key].coq})"
            return (t if is_none else f"(negb {t})"), BOOL
        op = e.ops[0]
        a, ta = self.expr(e.left, env)
        b, tb = self.expr(e.comparators[0], env)
        return self.compare_values(op, a, ta, b, tb, e)

    def compare_values(self, op, a, ta, b, tb, e):
        if ta in (NAT, LIT) and tb in (NAT, LIT):
            a, b, sc = self.to_nat(a, ta, e), self.to_nat(b, tb, e), "%nat"
        else:
            a, b, sc = self.to_z(a, ta, e), self.to_z(b, tb, e), "%Z"
        return self.compare_text(op, a, b, sc, e)

    def compare_text(self, op, a, b, sc, e):
        if isinstance(op, ast.LtE):
            return f"({a} <=? {b}){sc}", BOOL
        if isinstance(op, ast.Lt):
            return f"({a} <? {b}){sc}", BOOL
        if isinstance(op, ast.GtE):
            return f"({b} <=? {a}){sc}", BOOL
        if isinstance(op, ast.Gt):
            return f"({b} <? {a}){sc}", BOOL
        if isinstance(op, ast.Eq):
            return f"({a} =? {b}){sc}", BOOL
        if isinstance(op, ast.NotEq):
            return f"(negb ({a} =? {b}){sc})", BOOL
        raise Rejected(f"{where(e)}: comparison {type(op).__name__}")

    def narrowed(self, env, key):
        """env in which the option variable `key` is known to hold a value"""
        var = env[key]
        self.nfresh += 1
        nm = f"{var.coq}_some{self.nfresh}"
        env2 = dict(env)
        env2[key] = Var(nm, var.ty.elem if var.ty.elem is not None else var.ty)
        return env2, nm

    def boolop(self, op, values, env, node):
        if len(values) == 1:
            t, ty = self.expr(values[0], env)
            if ty != BOOL:
                raise Rejected(f"{where(node)}: operand of and/or is not a boolean")
            return t, BOOL
        first, rest = values[0], values[1:]
        nt = self.none_test(first, env)
        if nt is not None:
            key, is_none = nt
            var = env[key]
            if (isinstance(op, ast.Or) and is_none) or (isinstance(op, ast.And) and not is_none):
                # `X is None or <rest>` / `X is not None and <rest>`: <rest> is evaluated only when X holds a value
                if var.ty.elem is None:
                    raise Rejected(f"{where(node)}: {key} is only ever None (no assignment of a value precedes this test)")
                env2, nm = self.narrowed(env, key)
                r, _ = self.boolop(op, rest, env2, node)
                dflt = "true" if isinstance(op, ast.Or) else "false"
                return f"(match {var.coq} with None => {dflt} | Some {nm} => {r} end)", BOOL
        a, ta = self.expr(first, env)
        if ta != BOOL:
            raise Rejected(f"{where(node)}: operand of and/or is not a boolean")
        r, _ = self.boolop(op, rest, env, node)
        fn = "orb" if isinstance(op, ast.Or) else "andb"
        return f"({fn} {a} {r})", BOOL

    def call(self, e, env):
        if e.keywords:
            return self.call_hook(e, env)
        f = e.func
        # self.<zero-argument method>()
        if isinstance(f, ast.Attribute) and isinstance(f.value, ast.Name) and f.value.id == "self":
            key = "self." + f.attr + "()"
            if key in env and not e.args:
                var = self.lookup(env, key, e)
                return var.coq, var.ty
            raise Rejected(f"{where(e)}: call of self.{f.attr} is not in the translator's table")
        if isinstance(f, ast.Name) and f.id in env:
            var = self.lookup(env, f.id, e)
            if var.ty == OBJFUN and len(e.args) == 1:
                a, ta = self.expr(e.args[0], env)
                if ta != LIST(BIT):
                    raise Rejected(f"{where(e)}: the objective function is applied to a value of type {ta}")
                return f"({var.coq} {a})", ZT
            raise Rejected(f"{where(e)}: call of the variable {f.id}")
        return self.call_hook(e, env)

    def call_hook(self, e, env):
        raise Rejected(f"{where(e)}: call not supported: {ast.unparse(e.func)}")

    def listcomp(self, e, env):
        if len(e.generators) != 1:
            raise Rejected(f"{where(e)}: nested comprehension")
        g = e.generators[0]
        if g.ifs or g.is_async or not isinstance(g.target, ast.Name):
            raise Rejected(f"{where(e)}: comprehension with a filter / pattern target")
        it, tit = self.expr(g.iter, env)
        if not (isinstance(tit, Lst) and tit.elem is not None):
            raise Rejected(f"{where(e)}: comprehension over a value of type {tit}")
        env2 = dict(env)
        nm = "c_" + g.target.id
        env2[g.target.id] = Var(nm, tit.elem)
        body, tb = self.expr(e.elt, env2)
        if tb == LIT:
            body, tb = f"{body}%nat", NAT
        return f"(map (fun {nm} => {body}) {it})", LIST(tb)

    # ---------- statements ----------
    def assigned(self, stmts):
        """names assigned (also through d[k] = e, l.append(e)) by the statements, in order of first occurrence"""
        out = []

        def add(n):
            if n not in out:
                out.append(n)

        def walk(sts):
            for st in sts:
                if isinstance(st, ast.Assign):
                    for t in st.targets:
                        tgt(t)
                elif isinstance(st, ast.AugAssign):
                    tgt(st.target)
                elif isinstance(st, ast.If):
                    walk(st.body)
                    walk(st.orelse)
                elif isinstance(st, ast.For):
                    tgt(st.target)
                    walk(st.body)
                    walk(st.orelse)
                elif isinstance(st, ast.Expr) and isinstance(st.value, ast.Call) and isinstance(st.value.func, ast.Attribute) \
                        and isinstance(st.value.func.value, ast.Name) and st.value.func.attr == "append":
                    add(st.value.func.value.id)

        def tgt(t):
            if isinstance(t, ast.Name):
                add(t.id)
            elif isinstance(t, ast.Subscript) and isinstance(t.value, ast.Name):
                add(t.value.id)
            elif isinstance(t, (ast.Tuple, ast.List)):
                for x in t.elts:
                    tgt(x)

        walk(stmts)
        return out

    def check_name(self, name, node):
        import re
        if re.search(r"_some\d+$", name):
            raise Rejected(f"{where(node)}: variable name {name} collides with the translator's naming scheme")

    def bind(self, env, name, text, ty, node):
        """`name = <text : ty>` -> the let line; updates env"""
        self.check_name(name, node)
        coq = "v_" + name
        if name in env:
            want = env[name].ty
            if self.lenient and want == NAT and ty in self.NUMBER_TYPES:
                # a counter-like variable (initialised with an integer literal) receives a value: remember, retranslate
                self.force[name] = ty
                want = ty
            text = self.coerce(text, ty, want, node)
            env[name] = Var(coq, want)
        else:
            if ty == LIT and name in self.force:
                text, ty = f"({text})%Z", self.force[name]
            elif ty == LIT:
                text, ty = f"{text}%nat", NAT
            env[name] = Var(coq, ty)
        return f"let {coq} := {text} in"

    def tuple_of(self, env, outs, node=None):
        for o in outs:
            if o not in env:
                raise Rejected(f"{where(node)}: {o} is not assigned on every path")
        if not outs:
            return "tt"
        if len(outs) == 1:
            return env[outs[0]].coq
        return "(" + ", ".join(env[o].coq for o in outs) + ")"

    def pattern_of(self, outs):
        if len(outs) == 1:
            return "v_" + outs[0]
        return "'(" + ", ".join("v_" + o for o in outs) + ")"

    def block_lines(self, stmts, env, tail, in_loop):
        """the statements as a chain of lets; -> (lines, environment after the block)"""
        env = dict(env)
        lines = []
        real = [st for st in stmts if not is_ignorable(st)]
        for k, st in enumerate(real):
            lines += self.stmt(st, env, tail and k == len(real) - 1, in_loop)
        return lines, env

    def stmt(self, st, env, tail, in_loop):
        if isinstance(st, ast.Assign):
            if len(st.targets) != 1:
                raise Rejected(f"{where(st)}: chained assignment")
            t = st.targets[0]
            if isinstance(t, ast.Name):
                text, ty = self.expr(st.value, env)
                return [self.bind(env, t.id, text, ty, st)]
            if isinstance(t, ast.Subscript) and isinstance(t.value, ast.Name):
                d = self.lookup(env, t.value.id, st)
                if d.ty == DICT and isinstance(t.slice, ast.Constant) and isinstance(t.slice.value, str):
                    text, ty = self.expr(st.value, env)
                    wrap = {NAT: "VNat", LIT: "VNat", ZT: "VInt", QUOT: "VQuot"}.get(ty if isinstance(ty, str) else None)
                    if wrap is None:
                        raise Rejected(f"{where(st)}: a value of type {ty} is stored in the result dictionary")
                    text = self.lit_text(text, ty, NAT)
                    return [self.bind(env, t.value.id, f"(dict_set {d.coq} {coq_string(t.slice.value)} ({wrap} {text}))", DICT, st)]
            if isinstance(t, ast.Tuple) and all(isinstance(x, ast.Name) for x in t.elts) \
                    and len({x.id for x in t.elts}) == len(t.elts):
                if isinstance(st.value, ast.Tuple) and len(t.elts) == len(st.value.elts):
                    # a, b = e1, e2 : the right-hand sides are evaluated first, then bound left to right
                    vals = [self.expr(v, env) for v in st.value.elts]
                    self.nfresh += 1
                    tmp = [f"t{self.nfresh}_{k}" for k in range(len(vals))]
                    lines = [f"let {nm} := {text} in" for nm, (text, ty) in zip(tmp, vals)]
                    for x, nm, (text, ty) in zip(t.elts, tmp, vals):
                        lines.append(self.bind(env, x.id, nm, ty, st))
                    return lines
                text, ty = self.expr(st.value, env)
                if is_tup(ty) and len(ty[1]) == len(t.elts):
                    # (a, b, c) = <call returning a tuple>
                    self.nfresh += 1
                    tmp = [f"t{self.nfresh}_{k}" for k in range(len(t.elts))]
                    lines = [f"let '({', '.join(tmp)}) := {text} in"]
                    for x, nm, tx in zip(t.elts, tmp, ty[1]):
                        lines.append(self.bind(env, x.id, nm, tx, st))
                    return lines
            return self.assign_hook(st, env)
        if isinstance(st, ast.AugAssign):
            if not isinstance(st.target, ast.Name):
                raise Rejected(f"{where(st)}: augmented assignment to a non-variable")
            fake = ast.BinOp(left=ast.Name(id=st.target.id, ctx=ast.Load(), lineno=st.lineno, col_offset=0), op=st.op, right=st.value,
                             lineno=st.lineno, col_offset=0)
            if st.target.id not in env:
                raise Rejected(f"{where(st)}: {st.target.id} is not defined before `{ast.unparse(st)}`")
            text, ty = self.binop(fake, env)
            return [self.bind(env, st.target.id, text, ty, st)]
        if isinstance(st, ast.Expr) and isinstance(st.value, ast.Call) and isinstance(st.value.func, ast.Attribute) \
                and isinstance(st.value.func.value, ast.Name) and st.value.func.attr == "append" \
                and len(st.value.args) == 1 and not st.value.keywords:
            # l.append(e)
            name = st.value.func.value.id
            lv = self.lookup(env, name, st)
            if not isinstance(lv.ty, Lst):
                raise Rejected(f"{where(st)}: .append on {name}, which is not a list")
            text, ty = self.expr(st.value.args[0], env)
            if ty == LIT:
                text, ty = f"{text}%nat", NAT
            if lv.ty.elem is None:
                lv.ty.elem = ty
            text = self.coerce(text, ty, lv.ty.elem, st)
            return [self.bind(env, name, f"({lv.coq} ++ [{text}])", lv.ty, st)]
        if isinstance(st, ast.If):
            return self.if_stmt(st, env, tail, in_loop)
        if isinstance(st, ast.For):
            return self.for_stmt(st, env)
        if isinstance(st, ast.Continue):
            if not (tail and in_loop):
                raise Rejected(f"{where(st)}: `continue` that is not the last action of the loop body")
            return []
        return self.stmt_hook(st, env, tail, in_loop)

    def assign_hook(self, st, env):
        raise Rejected(f"{where(st)}: assignment not supported: {ast.unparse(st)}")

    def stmt_hook(self, st, env, tail, in_loop):
        raise Rejected(f"{where(st)}: statement {type(st).__name__} not supported")

    def if_stmt(self, st, env, tail, in_loop):
        nt = self.none_test(st.test, env)
        # `if X is None: X = <default>` : afterwards X holds a value
        if nt is not None and nt[1] and not st.orelse:
            real = [x for x in st.body if not is_ignorable(x)]
            if len(real) == 1 and isinstance(real[0], ast.Assign) and len(real[0].targets) == 1 \
                    and isinstance(real[0].targets[0], ast.Name) and real[0].targets[0].id == nt[0]:
                key = nt[0]
                var = env[key]
                text, ty = self.expr(real[0].value, env)
                if isinstance(ty, Opt):
                    raise Rejected(f"{where(st)}: the default assigned to {key} may itself be None")
                if ty == LIT:
                    text, ty = f"{text}%nat", NAT
                if var.ty.elem is None:
                    var.ty.elem = ty
                text = self.coerce(text, ty, var.ty.elem, st)
                self.nfresh += 1
                nm = f"{var.coq}_some{self.nfresh}"
                line = f"let v_{key} := match {var.coq} with None => {text} | Some {nm} => {nm} end in"
                env[key] = Var("v_" + key, var.ty.elem)
                return [line]
        a_body, a_else = self.assigned(st.body), self.assigned(st.orelse)
        old = [n for n in env if n in a_body + a_else and not n.startswith("self.") and not n.endswith("()")]
        if nt is not None and env[nt[0]].ty.elem is not None:
            key, is_none = nt
            if key in old:
                raise Rejected(f"{where(st)}: {key} is assigned in a branch of its own `is None` test")
            env2, nm = self.narrowed(env, key)
            some_b, none_b = (st.orelse, st.body) if is_none else (st.body, st.orelse)
            l1, e1 = self.block_lines(some_b, env2, tail, in_loop)
            l2, e2 = self.block_lines(none_b, env, tail, in_loop)
            head = env[key].coq
            fmt = lambda x, y: f"match {head} with\n| Some {nm} =>\n{x}\n| None =>\n{y}\nend"
        else:
            c, tc = self.expr(st.test, env)
            if tc != BOOL:
                raise Rejected(f"{where(st)}: the test of `if` is not a boolean expression (type {tc})")
            l1, e1 = self.block_lines(st.body, env, tail, in_loop)
            l2, e2 = self.block_lines(st.orelse, env, tail, in_loop)
            fmt = lambda x, y: f"if {c}\nthen (\n{x})\nelse (\n{y})"
        # variables created in BOTH branches exist afterwards
        new = [n for n in e1 if n not in env and n in e2]
        for n in new:
            t1, t2 = e1[n].ty, e2[n].ty
            if isinstance(t1, Opt) or isinstance(t2, Opt) or t1 != t2:
                raise Rejected(f"{where(st)}: {n} gets the types {t1} / {t2} in the two branches")
        outs = old + new
        if not outs:
            return []
        t1 = "\n".join(l1 + [self.tuple_of(e1, outs, st)])
        t2 = "\n".join(l2 + [self.tuple_of(e2, outs, st)])
        for n in new:
            env[n] = Var("v_" + n, e1[n].ty)
        for n in old:
            env[n] = Var("v_" + n, env[n].ty)
        return [f"let {self.pattern_of(outs)} :=\n{fmt(t1, t2)} in"]

    def for_stmt(self, st, env):
        if st.orelse:
            raise Rejected(f"{where(st)}: for/else")
        it = st.iter
        if isinstance(st.target, ast.Name) and isinstance(it, ast.Call) and isinstance(it.func, ast.Name) and it.func.id == "range" \
                and not it.keywords and len(it.args) in (1, 2) and "range" not in env:
            if len(it.args) == 1:
                lo, (hi, thi) = "0%nat", self.expr(it.args[0], env)
            else:
                (lo, tlo), (hi, thi) = self.expr(it.args[0], env), self.expr(it.args[1], env)
                lo = self.to_nat(lo, tlo, st)
            hi = self.to_nat(hi, thi, st)
            return self.emit_loop(st, env, [(st.target.id, NAT)], lambda f, s: f"({self.LOOP_RANGE} {lo} {hi} {f} {s})")
        if isinstance(it, ast.Call) and isinstance(it.func, ast.Name) and it.func.id == "zip" and not it.keywords \
                and len(it.args) in (2, 3) and "zip" not in env and isinstance(st.target, ast.Tuple) \
                and len(st.target.elts) == len(it.args) and all(isinstance(x, ast.Name) for x in st.target.elts) \
                and len({x.id for x in st.target.elts}) == len(it.args):
            args = [self.expr(a, env) for a in it.args]
            for (a, ta), node in zip(args, it.args):
                if not (isinstance(ta, Lst) and ta.elem is not None):
                    raise Rejected(f"{where(st)}: zip of a value of type {ta}")
            zname = "zip2" if len(args) == 2 else "zip3"
            ztext = "(" + " ".join([zname] + [a for a, _ in args]) + ")"
            lvs = [(x.id, ta.elem) for x, (_, ta) in zip(st.target.elts, args)]
            return self.emit_loop(st, env, lvs, lambda f, s: f"({self.LOOP_EACH} {ztext} {f} {s})")
        if isinstance(st.target, ast.Name):
            a, ta = self.expr(it, env)
            if isinstance(ta, Lst) and ta.elem is not None:
                return self.emit_loop(st, env, [(st.target.id, ta.elem)], lambda f, s: f"({self.LOOP_EACH} {a} {f} {s})")
        return self.for_hook(st, env)

    def for_hook(self, st, env):
        raise Rejected(f"{where(st)}: loop header not supported: for {ast.unparse(st.target)} in {ast.unparse(st.iter)}")

    def emit_loop(self, st, env, loopvars, combinator):
        """body definition + the let that runs the loop.  loopvars: [(python name, type)] bound per iteration."""
        carried = [n for n in env if n in self.assigned(st.body) and not n.startswith("self.") and not n.endswith("()")]
        names = [n for n, _ in loopvars]
        if any(n in carried for n in names):
            raise Rejected(f"{where(st)}: the loop variable is assigned in the body")
        if not carried:
            raise Rejected(f"{where(st)}: the loop assigns no variable that exists before it")
        self.nloops += 1
        fname = f"{self.PREFIX}_for{self.nloops}"
        benv = dict(env)
        for n, ty in loopvars:
            self.check_name(n, st)
            benv[n] = Var("v_" + n, ty)
        for n in carried:
            benv[n] = Var("v_" + n, env[n].ty)
        self.uses.append(set())
        lines, eafter = self.block_lines(st.body, benv, True, True)
        body = "\n".join(lines + [self.tuple_of(eafter, carried, st)])
        used = self.uses.pop()
        free = [k for k in env if k in used and k not in carried and k not in names]
        for k in free:
            self.use(k)
        params = [(env[k].coq, env[k].ty) for k in free]
        sttys = [env[n].ty for n in carried]
        lv = [("v_" + n, ty) for n, ty in loopvars]
        destruct = "" if len(carried) == 1 else f"let {self.pattern_of(carried)} := st in\n"
        stname = ("v_" + carried[0]) if len(carried) == 1 else "st"
        self.defs.append((fname, params, (stname, sttys), lv, destruct + body))
        fapp = "(" + " ".join([fname] + [p for p, _ in params]) + ")"
        for n in carried:
            self.use(n)
        return [f"let {self.pattern_of(carried)} := {combinator(fapp, self.tuple_of(env, carried, st))} in"]

    # ---------- rendering ----------
    def render_defs(self):
        out = []
        for fname, params, (stname, sttys), lv, body in self.defs:
            sty = " * ".join(tytext(t, self.TYTABLE) for t in sttys)
            ps = " ".join(f"({p} : {tytext(t, self.TYTABLE)})" for p, t in params)
            if len(lv) == 1:
                lvs = f"({lv[0][0]} : {tytext(lv[0][1], self.TYTABLE)})"
            else:
                lvs = "(it : " + " * ".join(tytext(t, self.TYTABLE) for _, t in lv) + ")"
                body = "let '(" + ", ".join(p for p, _ in lv) + ") := it in\n" + body
            out.append(f"Definition {fname} {ps} ({stname} : {sty}) {lvs} : {sty} :=\n{body}.\n")
        return out

    def param_text(self, env0):
        return " ".join(f"({v.coq} : {tytext(v.ty, self.TYTABLE)})" for k, v in env0.items())


# ------------------------------------------------------------------------------------------
# QUBOContainer.report
# ------------------------------------------------------------------------------------------
class ReportEngine(Engine):
    PREFIX = "gen_report"
    ATTRS = [("Q", MAT), ("n_vars", NAT), ("const_qubo", ZT)]
    METHODS0 = [("get_objective_function_QUBO", OBJFUN)]
    DIM_ATTR = "n_vars"
    ARGS = [("obj_stats", BOOL), ("tol", ZT)]

    def __init__(self, module_names):
        super().__init__()
        self.module_names = module_names     # {"np": "numpy", "sp": "scipy.sparse", functions ...}

    def attr_hook(self, e, a, ta, env):
        if e.attr == "nnz" and ta == MAT:
            return f"(nnz {self.dim(env, e)} {a})", ZT
        if e.attr == "size" and isinstance(ta, Lst):
            return f"(length {a})", NAT
        return super().attr_hook(e, a, ta, env)

    def call_hook(self, e, env):
        f = e.func
        if e.keywords:
            raise Rejected(f"{where(e)}: keyword arguments")
        if isinstance(f, ast.Name) and f.id == "abs" and len(e.args) == 1 and "abs" not in env:
            a, ta = self.expr(e.args[0], env)
            return f"(Z.abs {self.to_z(a, ta, e)})", ZT
        if isinstance(f, ast.Name) and f.id == "to_upper_triangular" and len(e.args) == 1 \
                and self.module_names.get("to_upper_triangular") == "def":
            a, ta = self.expr(e.args[0], env)
            if ta != MAT:
                raise Rejected(f"{where(e)}: to_upper_triangular of a value of type {ta}")
            return f"(to_upper {a})", MAT
        if isinstance(f, ast.Attribute) and f.attr == "diagonal" and not e.args:
            a, ta = self.expr(f.value, env)
            if ta != MAT:
                raise Rejected(f"{where(e)}: .diagonal() of a value of type {ta}")
            return f"(py_diagonal {self.dim(env, e)} {a})", LIST(ZT)
        if isinstance(f, ast.Attribute) and isinstance(f.value, ast.Name) and f.value.id == "np" and f.attr == "unique" \
                and len(e.args) == 1 and self.module_names.get("np") == "numpy" and "np" not in env:
            a, ta = self.expr(e.args[0], env)
            if ta != LIST(ZT):
                raise Rejected(f"{where(e)}: np.unique of a value of type {ta}")
            return f"(py_unique {a})", LIST(ZT)
        if isinstance(f, ast.Name) and f.id == "format" and len(e.args) == 2 and "format" not in env:
            spec = e.args[1]
            ok = (isinstance(spec, ast.Call) and isinstance(spec.func, ast.Attribute) and spec.func.attr == "format"
                  and isinstance(spec.func.value, ast.Constant) and spec.func.value.value == "0{}b"
                  and len(spec.args) == 1 and not spec.keywords)
            if not ok:
                raise Rejected(f"{where(e)}: format specification is not '0{{}}b'.format(<width>)")
            w, tw = self.expr(spec.args[0], env)
            v, tv = self.expr(e.args[0], env)
            return f"(format_0b {self.to_nat(w, tw, e)} {self.to_nat(v, tv, e)})", LIST(DIGIT)
        if isinstance(f, ast.Name) and f.id == "int" and len(e.args) == 1 and "int" not in env:
            a, ta = self.expr(e.args[0], env)
            if ta != DIGIT:
                raise Rejected(f"{where(e)}: int() of a value of type {ta}")
            return f"(int_of_digit {a})", BIT
        return super().call_hook(e, env)


def module_table(tree):
    """what the module-level names used by the method are bound to; rebinding -> Rejected"""
    names = {}

    def put(k, v, node):
        if k in names:
            raise Rejected(f"{where(node)}: module-level name {k} is bound twice")
        names[k] = v

    for n in tree.body:
        if isinstance(n, ast.Import):
            for a in n.names:
                put(a.asname or a.name.split(".")[0], a.name, n)
        elif isinstance(n, ast.ImportFrom):
            for a in n.names:
                put(a.asname or a.name, f"{n.module}.{a.name}", n)
        elif isinstance(n, (ast.FunctionDef, ast.ClassDef)):
            put(n.name, "def" if isinstance(n, ast.FunctionDef) else "class", n)
        elif isinstance(n, ast.Assign):
            for t in n.targets:
                for x in ast.walk(t):
                    if isinstance(x, ast.Name):
                        put(x.id, "assigned", n)
        elif is_docstring(n):
            pass
        else:
            raise Rejected(f"{where(n)}: module-level statement {type(n).__name__}")
    return names


def find_method(tree, cls, name):
    cs = [n for n in tree.body if isinstance(n, ast.ClassDef) and n.name == cls]
    if len(cs) != 1:
        raise Rejected(f"class {cls} not found exactly once")
    fs = [n for n in cs[0].body if isinstance(n, ast.FunctionDef) and n.name == name]
    if len(fs) != 1:
        raise Rejected(f"{cls}.{name} not found exactly once")
    fn = fs[0]
    if fn.decorator_list:
        raise Rejected(f"{cls}.{name} is decorated")
    return fn


def check_signature(fn, names):
    a = fn.args
    got = [x.arg for x in a.args]
    if got != ["self"] + names or a.vararg or a.kwarg or a.kwonlyargs or a.posonlyargs:
        raise Rejected(f"{where(fn)}: signature of {fn.name} is {got}, expected {['self'] + names}")
    if len(a.defaults) != len(names):
        raise Rejected(f"{where(fn)}: every argument of {fn.name} is expected to have a default")
    return a.defaults


def initial_env(eng, args):
    env = {}
    for nm, ty in eng.ATTRS:
        env["self." + nm] = Var("self_" + nm, ty)
    for nm, ty in eng.METHODS0:
        env["self." + nm + "()"] = Var("self_" + nm, ty)
    for key, coq, ty in eng.ORACLES:
        env[key] = Var(coq, ty)
    for nm, ty in args:
        env[nm] = Var("v_" + nm, ty)
    return env


def translate_source(src, origin="tools/qubo_tools.py"):
    """-> text of ReportGen.v"""
    try:
        tree = ast.parse(src)
    except SyntaxError as ex:
        raise Rejected(f"syntax error: {ex}")
    names = module_table(tree)
    fn = find_method(tree, "QUBOContainer", "report")
    eng = ReportEngine(names)
    defaults = check_signature(fn, [a for a, _ in eng.ARGS])
    d_os, d_tol = defaults
    if not (isinstance(d_os, ast.Constant) and isinstance(d_os.value, bool)):
        raise Rejected(f"{where(fn)}: default of obj_stats is not a boolean constant")
    if not (isinstance(d_tol, ast.Constant) and isinstance(d_tol.value, (int, float)) and not isinstance(d_tol.value, bool)
            and d_tol.value == d_tol.value and abs(d_tol.value) != float("inf")):
        raise Rejected(f"{where(fn)}: default of tol is not a finite numeric constant")
    tolq = Fraction(d_tol.value)
    env = initial_env(eng, eng.ARGS)
    body = [st for st in fn.body if not is_ignorable(st)]
    if not body or not isinstance(body[-1], ast.Return) or body[-1].value is None:
        raise Rejected(f"{where(fn)}: report does not end with `return <expr>`")
    for st in body[:-1]:
        for x in ast.walk(st):
            if isinstance(x, (ast.Return, ast.Yield, ast.YieldFrom, ast.Raise, ast.Try, ast.While, ast.With, ast.Break,
                              ast.Global, ast.Nonlocal, ast.Lambda, ast.FunctionDef, ast.Delete, ast.Import, ast.ImportFrom,
                              ast.NamedExpr, ast.Await)):
                raise Rejected(f"{where(x)}: {type(x).__name__} inside report")
    lines = []
    for st in body[:-1]:
        lines += eng.stmt(st, env, False, False)
    rt, rty = eng.expr(body[-1].value, env)
    if rty != DICT:
        raise Rejected(f"{where(body[-1])}: report returns a value of type {rty}, not the dictionary")
    lines.append(rt)
    params = " ".join(f"({v.coq} : {tytext(v.ty)})" for k, v in initial_env(eng, eng.ARGS).items())
    out = [f"(* GENERATED by harness/translate_report.py from {origin} (QUBOContainer.report, line {fn.lineno}).  Do not edit. *)",
           "From Coq Require Import ZArith List Bool String PeanoNat.",
           "From VQ Require Import Base LinAlg Report PyReport.",
           "Import ListNotations.",
           "Open Scope Z_scope.",
           ""]
    out += eng.render_defs()
    out.append(f"Definition gen_report {params} : rdict :=\n" + "\n".join(lines) + ".\n")
    out.append("(* default arguments: obj_stats, and tol as the exact rational value of the float constant *)")
    out.append(f"Definition gen_report_default_obj_stats : bool := {'true' if d_os.value else 'false'}.")
    out.append(f"Definition gen_report_default_tol : Z * Z := (({tolq.numerator})%Z, ({tolq.denominator})%Z).")
    return "\n".join(out) + "\n"


def source_path():
    from vq import core
    return os.path.join(core.REPO, "src/vrpqubo/tools/qubo_tools.py")


def translate():
    path = source_path()
    with open(path) as fh:
        src = fh.read()
    return {"ReportGen.v": translate_source(src, origin=path)}


if __name__ == "__main__":
    import sys
    p = sys.argv[1] if len(sys.argv) > 1 else os.path.join(os.environ.get("VQ_REPO", "/repo"), "src/vrpqubo/tools/qubo_tools.py")
    print(translate_source(open(p).read(), origin=p))
