"""
Shared machinery of the checks: Coq build, proof-obligation accounting, evaluation of
correspondence case files inside Coq, violation / known-finding reporting, evidence files.

Every check is `bin/check <ID> [--tier quick|thorough]` -> harness/main.py -> props/<id>.py:run(ctx).
"""
import fcntl
import hashlib
import json
import os
import random
import re
import subprocess
import sys
import time
import traceback
from concurrent.futures import ThreadPoolExecutor

VERIF = os.path.dirname(os.path.dirname(os.path.dirname(os.path.abspath(__file__))))
COQ = os.path.join(VERIF, "coq")
GEN = os.path.join(COQ, "gen")
# VQ_OUT redirects replays/evidence (used by the mutant tools so that a run against a scratch
# worktree never touches the committed evidence); the registered commands never set it.
_OUT = os.environ.get("VQ_OUT")
REPLAYS = os.path.join(_OUT, "replays") if _OUT else os.path.join(VERIF, "replays")
EVIDENCE = os.path.join(_OUT, "evidence") if _OUT else os.path.join(VERIF, "evidence")
REPO = os.environ.get("VQ_REPO", "/repo")
COQ_FLAGS = ["-Q", "theories", "VQ", "-Q", "props", "VQP", "-Q", "gen", "VQG"]

HYGIENE_RE = re.compile(
    r"\b(Admitted|admit|Axiom|Axioms|Parameter|Parameters|Conjecture|Conjectures|Hypothesis|Hypotheses|Variable|Variables)\b"
    r"|Unset\s+Guard|bypass_check|type-in-type|impredicative-set|Admit\s+Obligations")


def sh(cmd, timeout, cwd=None):
    """Run a command, return (returncode, combined output). Timeout -> rc 124."""
    try:
        p = subprocess.run(cmd, cwd=cwd, stdout=subprocess.PIPE, stderr=subprocess.STDOUT,
                           timeout=timeout, text=True)
        return p.returncode, p.stdout
    except subprocess.TimeoutExpired as e:
        out = e.stdout if isinstance(e.stdout, str) else (e.stdout or b"").decode("utf-8", "replace")
        return 124, out + "\n[timeout]"


def write_coqproject():
    lines = ["-Q theories VQ", "-Q props VQP", ""]
    for d in ("theories", "props"):
        for f in sorted(os.listdir(os.path.join(COQ, d))):
            if f.endswith(".v"):
                lines.append(f"{d}/{f}")
    txt = "\n".join(lines) + "\n"
    p = os.path.join(COQ, "_CoqProject")
    if not os.path.exists(p) or open(p).read() != txt:
        with open(p, "w") as fh:
            fh.write(txt)
        return True
    return False


def build_coq(targets=None, timeout=2400):
    """Full .vo build of theories/ and props/ (make -k so one broken file does not hide the
    others).  Serialised through a lock file because several checks may run at once."""
    os.makedirs(GEN, exist_ok=True)
    with open(os.path.join(COQ, ".build.lock"), "w") as lock:
        fcntl.flock(lock, fcntl.LOCK_EX)
        changed = write_coqproject()
        if changed or not os.path.exists(os.path.join(COQ, "Makefile")):
            rc, out = sh(["coq_makefile", "-f", "_CoqProject", "-o", "Makefile"], 120, cwd=COQ)
            if rc != 0:
                return rc, out
        cmd = ["make", "-k", "-j16", "COQC=timeout 900 coqc"]
        if targets:
            cmd += targets
        rc, out = sh(cmd, timeout, cwd=COQ)
        return rc, out


def deps_of(files):
    """Transitive closure of `From VQ/VQP Require Import ...` over coq/theories and coq/props."""
    seen = []
    todo = list(files)
    while todo:
        f = todo.pop()
        if f in seen or not os.path.exists(os.path.join(COQ, f)):
            continue
        seen.append(f)
        src = strip_comments(open(os.path.join(COQ, f)).read())
        for m in re.finditer(r"From\s+(VQP?)\s+Require\s+(?:Import|Export)?\s*([^.]*)\.", src):
            d = "theories" if m.group(1) == "VQ" else "props"
            for name in m.group(2).split():
                todo.append(f"{d}/{name}.v")
    return sorted(seen)


def hygiene(files=None):
    """No Admitted/admit/Axiom/Parameter/... in the given files and everything they import
    (comments are stripped first).  Variables/Hypotheses are allowed only inside a Section."""
    bad = []
    if files is None:
        files = [f"{d}/{f}" for d in ("theories", "props") for f in sorted(os.listdir(os.path.join(COQ, d))) if f.endswith(".v")]
    else:
        files = deps_of(files)
    for rel in files:
        src = strip_comments(open(os.path.join(COQ, rel)).read())
        depth = 0
        for ln, line in enumerate(src.split("\n"), 1):
            if re.match(r"\s*Section\b", line):
                depth += 1
            if re.match(r"\s*End\b", line) and depth > 0:
                depth -= 1
            for m in HYGIENE_RE.finditer(line):
                w = m.group(0)
                if w in ("Hypothesis", "Hypotheses", "Variable", "Variables") and depth > 0:
                    continue
                bad.append(f"{rel}:{ln}: {w}")
    return bad


def hygiene_files(rels):
    """hygiene() for files that are not part of the import graph walk (generated files)."""
    bad = []
    for rel in rels:
        src = strip_comments(open(os.path.join(COQ, rel)).read())
        depth = 0
        for ln, line in enumerate(src.split("\n"), 1):
            if re.match(r"\s*Section\b", line):
                depth += 1
            if re.match(r"\s*End\b", line) and depth > 0:
                depth -= 1
            for m in HYGIENE_RE.finditer(line):
                w = m.group(0)
                if w in ("Hypothesis", "Hypotheses", "Variable", "Variables") and depth > 0:
                    continue
                bad.append(f"{rel}:{ln}: {w}")
    return bad


def strip_comments(src):
    out = []
    depth = 0
    i = 0
    while i < len(src):
        if src.startswith("(*", i):
            depth += 1
            i += 2
        elif src.startswith("*)", i) and depth > 0:
            depth -= 1
            i += 2
        else:
            if depth == 0:
                out.append(src[i])
            elif src[i] == "\n":
                out.append("\n")
            i += 1
    return "".join(out)


def parse_assumptions(out):
    """Split coqc output of a props file into one block per `Print Assumptions`."""
    blocks = []
    cur = None
    for line in out.split("\n"):
        if line.startswith("Closed under the global context"):
            blocks.append([])
            cur = None
        elif line.startswith("Axioms:"):
            cur = []
            blocks.append(cur)
        elif cur is not None:
            m = re.match(r"^([A-Za-z_][\w.']*)\s*:", line)
            if m:
                cur.append(m.group(1))
            elif line.strip() == "" or not line.startswith(" "):
                if line.strip() and not line.startswith(" "):
                    cur = None
    return blocks


class Ctx:
    def __init__(self, pid, tier, seed):
        self.pid = pid
        self.tier = tier
        self.seed = seed
        self.rng = random.Random(seed * 1000003 + sum(ord(c) for c in pid))
        self.t0 = time.time()
        self.violations = []      # (signature, replay_path, found_input)
        self.known = []
        self.cov = {"evaluations": 0, "distinct_nontrivial": 0, "samples": [], "rule": "",
                    "obligations": 0, "discharged": 0, "checker_cmd": "", "trusted_base": [],
                    "traces_validated_against_impl": 0}
        self.assumptions = []
        self.level = "proof"
        self.findings = load_findings()
        self._shard = 0
        self.quick = (tier == "quick")
        self.deferred = []

    # ---------------- reporting ----------------
    def log(self, *a):
        print(f"[{self.pid}]", *a, flush=True)

    def violation(self, signature, what, replay, found_input):
        """Report a failure of the property.  `signature` identifies the failing input shape;
        a signature listed as open in known_findings.json is printed as KNOWN-FINDING."""
        for f in self.findings:
            if f.get("property") == self.pid and f.get("status") == "open" and f.get("signature") == signature:
                if signature not in self.known:
                    self.known.append(signature)
                    print(f"KNOWN-FINDING: property={self.pid} {f.get('what', what)}", flush=True)
                return
        if not found_input and signature.startswith("correspondence/") and self.has_concrete():
            # the search already produced a concrete failing input for this breakage: one VIOLATION line suffices
            self.log("(correspondence also disagrees:", what[:160], ")")
            return
        os.makedirs(REPLAYS, exist_ok=True)
        body = {"property": self.pid, "signature": signature, "what": what,
                "found_failing_input": bool(found_input), "tier": self.tier, "seed": self.seed,
                "replay": replay}
        blob = json.dumps(body, indent=1, sort_keys=True, default=str)
        h = hashlib.sha1(blob.encode()).hexdigest()[:12]
        path = os.path.join(REPLAYS, f"{self.pid}-{h}.json")
        with open(path, "w") as fh:
            fh.write(blob + "\n")
        if any(v[0] == signature for v in self.violations):
            return
        self.violations.append((signature, path, found_input))
        suffix = "" if found_input else " no-failing-input-found"
        print(f"VIOLATION property={self.pid} replay={path}{suffix}", flush=True)
        self.log("violation:", what)

    def has_concrete(self):
        """True when this run already reported a violation with a concrete failing input."""
        return any(v[2] for v in self.violations)

    def tooling_failure(self, step, detail):
        self.violation(f"tooling/{step}", f"check step '{step}' did not complete: {detail[-2000:]}",
                       {"step": step, "detail": detail[-6000:]}, False)

    # ---------------- proofs ----------------
    def prove(self, props=None):
        """Build the development and account the obligations of props/<ID>.v (or of the
        listed props files, e.g. props=["C18_arc", "C18_seq"])."""
        files = [f"props/{p}.v" for p in (props or [self.pid])]
        bad = hygiene(files)
        if bad:
            self.tooling_failure("hygiene", "forbidden vernacular: " + "; ".join(bad[:10]))
        rc, out = build_coq()
        n_thm = 0
        n_ok = 0
        axioms = set()
        for f in files:
            src = strip_comments(open(os.path.join(COQ, f)).read())
            thms = re.findall(r"^\s*(?:Theorem|Example)\s+([\w']+)", src, re.M)
            n_thm += len(thms)
            vo = os.path.join(COQ, f[:-2] + ".vo")
            fresh = os.path.exists(vo) and os.path.getmtime(vo) >= os.path.getmtime(os.path.join(COQ, f))
            if not fresh:
                self.violation(f"proof/{f}", f"{f} does not compile: theorems {thms} are not established",
                               {"file": f, "theorems": thms, "make_output": out[-4000:]}, False)
                continue
            rc2, out2 = sh(["coqc"] + COQ_FLAGS[:6] + [f], 900, cwd=COQ)
            if rc2 != 0:
                self.violation(f"proof/{f}", f"{f} does not compile",
                               {"file": f, "theorems": thms, "coqc_output": out2[-4000:]}, False)
                continue
            n_ok += len(thms)
            for b in parse_assumptions(out2):
                axioms.update(b)
        self.cov["obligations"] = n_thm
        self.cov["discharged"] = n_ok
        self.cov["checker_cmd"] = ("cd /verif/coq && coq_makefile -f _CoqProject -o Makefile && make -k -j16 && "
                                   + " && ".join("coqc -Q theories VQ -Q props VQP " + f for f in files))
        tb = ["Coq 8.16.1 kernel + vm_compute (no native_compute)"]
        if axioms:
            tb.append("axioms reported by Print Assumptions: " + ", ".join(sorted(axioms)))
        else:
            tb.append("Print Assumptions: closed under the global context (no axioms)")
        self.cov["trusted_base"] = tb
        self.axioms = sorted(axioms)
        return n_ok == n_thm

    def coqchk(self, lib):
        rc, out = sh(["coqchk", "-silent", "-o"] + COQ_FLAGS[:6] + [lib], 1500, cwd=COQ)
        ok = (rc == 0)
        self.cov["coqchk"] = {"lib": lib, "ok": ok, "tail": out[-1500:]}
        if not ok:
            self.tooling_failure("coqchk", out[-3000:])
        return ok


    # ---------------- models generated from the source (translators) ----------------
    def gen_step(self, key, translate, genprops, trusted, timeout=600):
        """A model regenerated from /repo's source on this run, plus the proofs that tie it to the hand model.

        translate()  -> {"<Module>.v": text, ...} (files for coq/gen, compiled in the given order); raises any
                        exception whose class name is Rejected/Abort when the source is outside the accepted fragment.
        genprops     -> name (without .v) of a file in coq/genprops that imports the generated modules (From VQG) and
                        contains only Theorems (each followed by Print Assumptions); every Theorem is one obligation.
        Nothing is reported here: a failure is DEFERRED (see defer_violation) so that the property's own search can
        first look for a concrete failing input; finish() reports it, with `no-failing-input-found`, only if the
        run produced no violation with a concrete input.  Returns a dict {status, failed: [theorem names], ...}."""
        flags = COQ_FLAGS + ["-Q", "genprops", "VQGP"]
        gp = f"genprops/{genprops}.v"
        src = strip_comments(open(os.path.join(COQ, gp)).read())
        spans = [(m.group(1), src.count("\n", 0, m.start()) + 1) for m in re.finditer(r"^\s*(?:Theorem|Example)\s+([\w']+)", src, re.M)]
        thms = [n for n, _ in spans]
        self.cov["obligations"] += len(thms)
        res = {"key": key, "genprops": gp, "theorems": thms, "failed": list(thms), "status": "ok", "axioms": []}
        try:
            files = translate()
        except Exception as ex:  # noqa: fail closed -- anything the translator does not accept
            res["status"] = "rejected"
            res["message"] = f"{type(ex).__name__}: {ex}"
            self.defer_violation(f"translator/{key}/rejected",
                                 f"the translator for {key} rejects the current source (outside the accepted fragment): {res['message'][:400]}; "
                                 f"theorems {thms} of {gp} are not established for the code as it is now", res)
            return res
        os.makedirs(GEN, exist_ok=True)
        # ONE lock for all generated files: different packages may write the same module (e.g. ArcGen.v is produced by
        # the arcenum and by the arccons package) and different checks compile the same genprops file
        with open(os.path.join(GEN, ".gen.lock"), "w") as lock:
            fcntl.flock(lock, fcntl.LOCK_EX)
            for name, text in files.items():
                with open(os.path.join(GEN, name), "w") as fh:
                    fh.write(text if text.endswith("\n") else text + "\n")
            bad = hygiene_files(["gen/" + n for n in files]) + hygiene([gp])
            if bad:
                res["status"] = "hygiene"
                res["message"] = "; ".join(bad[:10])
                self.defer_violation(f"translator/{key}/hygiene", "forbidden vernacular in generated or genprops files: " + res["message"], res)
                return res
            for name in files:
                rc, out = sh(["coqc"] + flags + ["gen/" + name], timeout, cwd=COQ)
                if rc != 0:
                    res["status"] = "generated-file-rejected"
                    res["message"] = out[-3000:]
                    res["generated"] = {n: t for n, t in files.items()}
                    self.defer_violation(f"translator/{key}/generated-file-rejected",
                                         f"coqc rejects the model generated from the source ({name}); theorems {thms} are not established", res)
                    return res
            rc, out = sh(["coqc"] + flags + [gp], timeout, cwd=COQ)
        if rc != 0:
            res["status"] = "proof-fails"
            res["coqc_output"] = out[-3000:]
            res["generated"] = {n: t for n, t in files.items()}
            m = re.search(r"line (\d+), characters", out)
            culprit = None
            if m:
                ln = int(m.group(1))
                for n, start in spans:
                    if start <= ln:
                        culprit = n
            res["first_failing_theorem"] = culprit
            self.defer_violation(f"genproof/{key}",
                                 f"the model generated from the current source is no longer provably equal to the hand model: "
                                 f"{gp} fails at theorem {culprit}", res)
            return res
        res["failed"] = []
        for b in parse_assumptions(out):
            res["axioms"] += b
        self.cov["discharged"] += len(thms)
        self.cov["checker_cmd"] += f" && (translator {key}: regenerate coq/gen/{{{','.join(files)}}} from $VQ_REPO/src, coqc them, coqc -Q genprops VQGP {gp})"
        self.cov["trusted_base"].append(trusted)
        if res["axioms"]:
            self.cov["trusted_base"].append(f"axioms reported for {gp}: " + ", ".join(sorted(set(res["axioms"]))))
        self.cov.setdefault("generated_models", []).append({"key": key, "files": sorted(files), "theorems": thms})
        if self.tier == "thorough":
            # independent re-check of the genprops library (and of everything it depends on, generated files included)
            with open(os.path.join(GEN, ".gen.lock"), "w") as lock:
                fcntl.flock(lock, fcntl.LOCK_EX)
                rc, out = sh(["coqchk", "-silent", "-o"] + flags + [f"VQGP.{genprops}"], 1800, cwd=COQ)
            self.cov.setdefault("coqchk_generated", []).append({"lib": f"VQGP.{genprops}", "ok": rc == 0, "tail": out[-600:]})
            if rc != 0:
                self.defer_violation(f"genproof/{key}/coqchk", f"coqchk rejects VQGP.{genprops}: {out[-600:]}", {"coqchk_output": out[-3000:]})
        return res

    def defer_violation(self, signature, what, replay):
        """A broken proof / translator obligation: reported by finish() unless a concrete failing input was found."""
        self.deferred.append((signature, what, replay))
        self.log("deferred:", what[:300])

    # ---------------- correspondence inside Coq ----------------
    def coq_mismatches(self, tag, header, ctype, checker, terms, shard=300, timeout=900):
        """Evaluate `mismatches checker cases` under vm_compute, sharded, in parallel.
        Returns (list of (case index, [failing field tags]), error or None)."""
        os.makedirs(GEN, exist_ok=True)
        shards = [terms[i:i + shard] for i in range(0, len(terms), shard)]
        jobs = []
        for k, sh_terms in enumerate(shards):
            name = f"cases_{self.pid}_{os.getpid()}_{tag}_{k}"
            body = [header, "", f"Definition cases : list ({ctype}) := ["]
            body.append(";\n".join("  " + t for t in sh_terms))
            body.append("].")
            body.append("Set Printing Width 1000000.")
            body.append(f"Eval vm_compute in (mismatches ({checker}) cases).")
            path = os.path.join(GEN, name + ".v")
            with open(path, "w") as fh:
                fh.write("\n".join(body) + "\n")
            jobs.append((k, path))

        def one(job):
            k, path = job
            rc, out = sh(["coqc"] + COQ_FLAGS + [path], timeout, cwd=COQ)
            return k, rc, out

        res = []
        err = None
        with ThreadPoolExecutor(max_workers=8) as ex:
            for k, rc, out in ex.map(one, jobs):
                if rc != 0:
                    err = f"coqc failed on shard {k}: {out[-1500:]}"
                    continue
                flat = " ".join(out.split()).replace("%nat", "")
                m = re.search(r"= (\[.*\]) : list \(nat \* list nat\)", flat)
                if not m:
                    err = f"unparsable coqc output on shard {k}: {flat[-500:]}"
                    continue
                found = 0
                for mm in re.finditer(r"\(\s*(\d+)\s*,\s*\[([\d; ]*)\]\s*\)", m.group(1)):
                    idx = int(mm.group(1)) + k * shard
                    tags = [int(x) for x in mm.group(2).split(";") if x.strip()]
                    res.append((idx, tags))
                    found += 1
                # fail closed: a non-empty answer must parse completely
                if found != m.group(1).count("("):
                    err = f"could not parse the mismatch list of shard {k}: {m.group(1)[:500]}"
        for k, path in jobs:
            for ext in (".v", ".vo", ".vok", ".vos", ".glob"):
                try:
                    os.remove(path[:-2] + ext)
                except OSError:
                    pass
            try:
                os.remove(os.path.join(GEN, "." + os.path.basename(path)[:-2] + ".aux"))
            except OSError:
                pass
        if err:
            self.tooling_failure(f"correspondence/{tag}", err)
        return res, err

    def coq_eval(self, header, term, timeout=300):
        """vm_compute one term; returns the printed text (for replay files)."""
        os.makedirs(GEN, exist_ok=True)
        name = f"eval_{self.pid}_{os.getpid()}_{self._shard}"
        self._shard += 1
        path = os.path.join(GEN, name + ".v")
        with open(path, "w") as fh:
            fh.write(header + "\nSet Printing Width 200.\nEval vm_compute in (" + term + ").\n")
        rc, out = sh(["coqc"] + COQ_FLAGS + [path], timeout, cwd=COQ)
        for ext in (".v", ".vo", ".vok", ".vos", ".glob"):
            try:
                os.remove(path[:-2] + ext)
            except OSError:
                pass
        try:
            os.remove(os.path.join(GEN, "." + name + ".aux"))
        except OSError:
            pass
        return out.strip()

    # ---------------- evidence ----------------
    def count(self, evaluations=0, nontrivial=0, traces=0):
        self.cov["evaluations"] += evaluations
        self.cov["distinct_nontrivial"] += nontrivial
        self.cov["traces_validated_against_impl"] += traces

    def sample(self, s, limit=6):
        if len(self.cov["samples"]) < limit:
            self.cov["samples"].append(s)

    def flush_deferred(self):
        for sig, what, replay in self.deferred:
            if self.has_concrete():
                self.log("(also:", what[:200], ")")
            else:
                self.violation(sig, what, replay, False)
        self.deferred = []

    def finish(self):
        self.flush_deferred()
        os.makedirs(EVIDENCE, exist_ok=True)
        # keep the evidence file inside EVIDENCE.schema.json whatever a property module put in
        levels = ("exploration", "fault_enumeration", "model_checking", "proof", "translation_validation", "other")
        if self.level not in levels:
            self.cov["level_detail"] = self.level
            self.level = "proof"
        if "exhaustive" in self.cov and not isinstance(self.cov["exhaustive"], bool):
            self.cov["exhaustive_detail"] = self.cov.pop("exhaustive")
        for key in ("evaluations", "distinct_nontrivial", "obligations", "discharged", "traces_validated_against_impl",
                    "states", "transitions", "programs", "disagreements_checked"):
            if key in self.cov and not isinstance(self.cov[key], int):
                self.cov[key] = int(self.cov[key])
        if not isinstance(self.cov.get("samples"), list):
            self.cov["samples"] = [self.cov.get("samples")]
        self.cov["trusted_base"] = [str(x) for x in self.cov.get("trusted_base", [])]
        self.assumptions = [str(x) for x in self.assumptions]
        ev = {
            "property_id": self.pid,
            "tier": self.tier,
            "seed": self.seed,
            "level": self.level,
            "coverage": self.cov,
            "assumptions": self.assumptions,
            "wall_s": round(time.time() - self.t0, 2),
            "violations": len(self.violations),
        }
        if self.known:
            ev["coverage"]["known_findings_seen"] = self.known
        with open(os.path.join(EVIDENCE, f"{self.pid}.json"), "w") as fh:
            json.dump(ev, fh, indent=1, default=str)
            fh.write("\n")
        if self.violations:
            return 1
        self.log(f"OK tier={self.tier} obligations={self.cov['discharged']}/{self.cov['obligations']} "
                 f"evaluations={self.cov['evaluations']} wall={ev['wall_s']}s")
        return 0


def load_findings():
    p = os.path.join(VERIF, "known_findings.json")
    if not os.path.exists(p):
        return []
    try:
        return json.load(open(p)).get("findings", [])
    except Exception:
        return []


def exc_cls(e):
    """Canonical exception class, as in the model's `errcls`."""
    for c, n in ((ValueError, "ValueError"), (IndexError, "IndexError"), (KeyError, "KeyError"),
                 (AssertionError, "AssertionError"), (AttributeError, "AttributeError"),
                 (TypeError, "TypeError")):
        if isinstance(e, c):
            return n
    return "OtherError"


def main(argv):
    import argparse
    import importlib
    import signal
    ap = argparse.ArgumentParser()
    ap.add_argument("pid")
    ap.add_argument("--tier", default=os.environ.get("VERIF_TIER", "quick"))
    ap.add_argument("--replay", default=None)
    a = ap.parse_args(argv)
    tier = a.tier if a.tier in ("quick", "thorough") else "quick"
    seed = int(os.environ.get("VERIF_SEED", "0") or 0)
    pid = a.pid.upper()
    ctx = Ctx(pid, tier, seed)
    limit = 1500 if tier == "quick" else 7200

    def on_alarm(signum, frame):
        raise TimeoutError(f"check exceeded its {limit}s budget")
    import logging
    logging.disable(logging.CRITICAL)
    signal.signal(signal.SIGALRM, on_alarm)
    signal.alarm(limit)
    try:
        mod = importlib.import_module(f"props.{pid.lower()}")
        if a.replay:
            mod.replay(ctx, json.load(open(a.replay)))
        else:
            mod.run(ctx)
    except BaseException as e:  # noqa: a check that did not run shows nothing
        if isinstance(e, KeyboardInterrupt):
            raise
        ctx.tooling_failure("harness", "".join(traceback.format_exception(type(e), e, e.__traceback__)))
    signal.alarm(0)
    if a.replay:
        ctx.flush_deferred()
        return 1 if ctx.violations else 0      # a replay never rewrites the evidence file
    return ctx.finish()
