"""Gallina literal printers used by the generated correspondence files."""
import math
from fractions import Fraction


def z(x):
    x = int(x)
    return f"({x})%Z" if x < 0 else f"{x}%Z"


def nat(x):
    x = int(x)
    assert 0 <= x < 5000, x
    return f"{x}%nat"


def boolean(b):
    return "true" if b else "false"


def ext(x):
    if isinstance(x, float) and math.isinf(x):
        assert x > 0
        return "PInf"
    return f"(Fin {z(x)})"


def lst(items):
    return "[" + "; ".join(items) + "]"


def opt(x, f):
    return "None" if x is None else f"(Some {f(x)})"


def pair(a, b):
    return f"({a}, {b})"


def tup(*xs):
    return "(" + ", ".join(xs) + ")"


def q(x):
    """Rational literal for Q (Qmake num den)."""
    fr = Fraction(x)
    return f"(Qmake {z(fr.numerator)} {int(fr.denominator)}%positive)"


def qc(x):
    """Rational literal for Qc (canonical rationals)."""
    return f"(Q2Qc {q(x)})"


def err(cls):
    return f"(Err {cls})"


def ok(x):
    return f"(Ok {x})"


def exact_int(x):
    """Convert a float/np number that must be integral to int, else raise."""
    fr = Fraction(float(x)) if not isinstance(x, (int, Fraction)) else Fraction(x)
    if fr.denominator != 1:
        raise ValueError(f"not integral: {x!r}")
    return int(fr.numerator)
