"""translate_window.py -- fail-closed translator of MIRP.get_time_window into Gallina.

Walks the Python `ast` of `get_time_window` in the working tree under test and accepts
exactly the statement shapes used there:

    size = self.cargo_size
    if inventory_rate > 0:
        <name> = <expr>          (one or more)
        return (<expr>, <expr>)
    else:
        <name> = <expr>
        return (<expr>, <expr>)

with <expr> built from + - * / , unary minus, parentheses, the five names
(size, num_prior_visits, inventory_init, inventory_rate, inventory_cap), names assigned
earlier in the same branch, and integer constants.  Anything else raises `Rejected`.

Output: coq/gen/WindowGen.v defining `gen_supply`, `gen_demand` and `gen_window` over Q, and
coq/gen/WindowGen_eq.v, which proves that the generated definitions equal the hand model
`Mirp.window` (so an edit of a formula in the source breaks a proof obligation directly).
"""
import ast
import os

PARAMS = ["num_prior_visits", "inventory_init", "inventory_rate", "inventory_cap"]
BASE_NAMES = ["size"] + PARAMS


class Rejected(Exception):
    pass


def _expr(e, env):
    if isinstance(e, ast.BinOp):
        ops = {ast.Add: "+", ast.Sub: "-", ast.Mult: "*", ast.Div: "/"}
        for cls, sym in ops.items():
            if isinstance(e.op, cls):
                return f"({_expr(e.left, env)} {sym} {_expr(e.right, env)})"
        raise Rejected(f"line {e.lineno}: operator {type(e.op).__name__} is not one of + - * /")
    if isinstance(e, ast.UnaryOp):
        if isinstance(e.op, ast.USub):
            return f"(- {_expr(e.operand, env)})"
        raise Rejected(f"line {e.lineno}: unary operator {type(e.op).__name__}")
    if isinstance(e, ast.Name):
        if e.id in env:
            return e.id
        raise Rejected(f"line {e.lineno}: unknown name {e.id!r}")
    if isinstance(e, ast.Constant):
        if isinstance(e.value, int) and not isinstance(e.value, bool):
            return f"(inject_Z ({e.value}))"
        raise Rejected(f"line {e.lineno}: constant {e.value!r} is not an integer")
    raise Rejected(f"line {getattr(e, 'lineno', '?')}: expression {type(e).__name__} not supported")


def _branch(stmts, what):
    env = list(BASE_NAMES)
    lets = []
    for k, st in enumerate(stmts):
        if isinstance(st, ast.Assign):
            if len(st.targets) != 1 or not isinstance(st.targets[0], ast.Name):
                raise Rejected(f"line {st.lineno}: assignment target in {what} branch")
            name = st.targets[0].id
            if name in BASE_NAMES:
                raise Rejected(f"line {st.lineno}: {what} branch re-assigns {name}")
            lets.append((name, _expr(st.value, env)))
            if name not in env:
                env.append(name)
        elif isinstance(st, ast.Return):
            if k != len(stmts) - 1:
                raise Rejected(f"line {st.lineno}: statements after return")
            v = st.value
            if not (isinstance(v, ast.Tuple) and len(v.elts) == 2):
                raise Rejected(f"line {st.lineno}: {what} branch does not return a pair")
            body = f"({_expr(v.elts[0], env)}, {_expr(v.elts[1], env)})"
            for name, ex in reversed(lets):
                body = f"let {name} := {ex} in\n  {body}"
            return body
        else:
            raise Rejected(f"line {st.lineno}: statement {type(st).__name__} in {what} branch")
    raise Rejected(f"{what} branch does not end with a return")


def translate_source(src):
    """Return the text of WindowGen.v for the given source of mirp.py, or raise Rejected."""
    try:
        tree = ast.parse(src)
    except SyntaxError as e:
        raise Rejected(f"syntax error: {e}")
    cls = [n for n in tree.body if isinstance(n, ast.ClassDef) and n.name == "MIRP"]
    if len(cls) != 1:
        raise Rejected("class MIRP not found")
    fns = [n for n in cls[0].body if isinstance(n, ast.FunctionDef) and n.name == "get_time_window"]
    if len(fns) != 1:
        raise Rejected("MIRP.get_time_window not found")
    fn = fns[0]
    a = fn.args
    names = [x.arg for x in a.args]
    if names != ["self"] + PARAMS or a.vararg or a.kwarg or a.kwonlyargs or a.defaults or a.posonlyargs:
        raise Rejected(f"unexpected signature {names}")
    if fn.decorator_list:
        raise Rejected("decorated")
    body = list(fn.body)
    if body and isinstance(body[0], ast.Expr) and isinstance(body[0].value, ast.Constant) \
            and isinstance(body[0].value.value, str):
        body = body[1:]                      # docstring
    if len(body) != 2:
        raise Rejected(f"expected `size = self.cargo_size` followed by one if/else, found {len(body)} statements")
    st0, st1 = body
    ok0 = (isinstance(st0, ast.Assign) and len(st0.targets) == 1 and isinstance(st0.targets[0], ast.Name)
           and st0.targets[0].id == "size" and isinstance(st0.value, ast.Attribute)
           and isinstance(st0.value.value, ast.Name) and st0.value.value.id == "self"
           and st0.value.attr == "cargo_size")
    if not ok0:
        raise Rejected(f"line {st0.lineno}: expected `size = self.cargo_size`")
    if not isinstance(st1, ast.If):
        raise Rejected(f"line {st1.lineno}: expected the if/else on the rate sign")
    t = st1.test
    ok1 = (isinstance(t, ast.Compare) and isinstance(t.left, ast.Name) and t.left.id == "inventory_rate"
           and len(t.ops) == 1 and isinstance(t.ops[0], ast.Gt) and len(t.comparators) == 1
           and isinstance(t.comparators[0], ast.Constant) and t.comparators[0].value == 0
           and not isinstance(t.comparators[0].value, bool))
    if not ok1:
        raise Rejected(f"line {st1.lineno}: branch test is not `inventory_rate > 0`")
    if not st1.orelse:
        raise Rejected("no else branch")
    sup = _branch(st1.body, "supply")
    dem = _branch(st1.orelse, "demand")
    args = " ".join(BASE_NAMES)
    out = [
        "(* generated by harness/translate_window.py from MIRP.get_time_window -- do not edit *)",
        "From Coq Require Import QArith.",
        "From VQ Require Import Base Mirp.",
        "Local Open Scope Q_scope.",
        "",
        f"Definition gen_supply ({args} : Q) : Q * Q :=\n  {sup}.",
        "",
        f"Definition gen_demand ({args} : Q) : Q * Q :=\n  {dem}.",
        "",
        "(* if inventory_rate > 0: supply branch, else demand branch *)",
        f"Definition gen_window ({args} : Q) : Q * Q :=",
        f"  if Qltb 0 inventory_rate then gen_supply {args} else gen_demand {args}.",
        "",
    ]
    return "\n".join(out)


EQ_FILE = """(* written by harness/translate_window.py: the formulas generated from the source of
   MIRP.get_time_window are the hand model Mirp.window *)
From Coq Require Import QArith.
From VQ Require Import Base Mirp.
From VQG Require Import WindowGen.
Local Open Scope Q_scope.

Theorem gen_supply_is_model : forall size k init rate cap,
  fst (gen_supply size (Qn k) init rate cap) == tw0_s size k init rate cap /\\
  snd (gen_supply size (Qn k) init rate cap) == tw1_s size k init rate cap.
Proof.
  intros. unfold gen_supply, tw0_s, tw1_s. cbn [fst snd]. unfold Qdiv.
  change (inject_Z 1) with 1. change (inject_Z 0) with 0. split; ring.
Qed.

Theorem gen_demand_is_model : forall size k init rate cap,
  fst (gen_demand size (Qn k) init rate cap) == tw0_d size k init rate cap /\\
  snd (gen_demand size (Qn k) init rate cap) == tw1_d size k init rate cap.
Proof.
  intros. unfold gen_demand, tw0_d, tw1_d. cbn [fst snd]. unfold Qdiv.
  change (inject_Z 1) with 1. change (inject_Z 0) with 0. split; ring.
Qed.

Theorem gen_window_is_model : forall size k init rate cap,
  fst (gen_window size (Qn k) init rate cap) == fst (window size k init rate cap) /\\
  snd (gen_window size (Qn k) init rate cap) == snd (window size k init rate cap).
Proof.
  intros. unfold gen_window, window. destruct (Qltb 0 rate).
  - apply gen_supply_is_model.
  - apply gen_demand_is_model.
Qed.
Print Assumptions gen_window_is_model.
"""


def source_path():
    import vrpqubo.applications.mirp as m
    return m.__file__


def write_files(gen_dir):
    """Translate the working tree's mirp.py; returns (path of WindowGen.v, path of WindowGen_eq.v).
    Raises Rejected when the source is outside the accepted fragment."""
    with open(source_path()) as fh:
        src = fh.read()
    txt = translate_source(src)
    os.makedirs(gen_dir, exist_ok=True)
    p1 = os.path.join(gen_dir, "WindowGen.v")
    p2 = os.path.join(gen_dir, "WindowGen_eq.v")
    with open(p1, "w") as fh:
        fh.write(txt)
    with open(p2, "w") as fh:
        fh.write(EQ_FILE)
    return p1, p2


if __name__ == "__main__":
    import sys
    print(translate_source(open(sys.argv[1]).read()))
