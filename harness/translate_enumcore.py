"""translate_enumcore.py -- shared, fail-closed printer from Python method bodies to Gallina.

Used by translate_arcenum.py (ArcBasedRoutingProblem -> coq/gen/ArcGen.v) and translate_seqenum.py
(SequenceBasedRoutingProblem -> coq/gen/SeqGen.v).  It is a PRINTER: the statement structure of the
source is emitted 1:1 in state-passing style into combinators whose meaning is defined in Coq
(coq/theories/PyEnumCore.v and the class file PyArc.v / PySeq.v).  It does no reasoning, never
compares source text, and raises `Rejected` for every ast node shape outside the whitelist below.

Shape of the output
-------------------
* the object is a record (ClassSpec.state_type); `self.a` -> `(<getter> self)`, `self.a = e` ->
  `let self := <setter> e self in ...`; a method that assigns nothing (directly or through a callee)
  is emitted as a function returning its value, every other method returns `(self, value)`;
* locals are `let`s (re-assignment shadows); `x += e` is `x = x + e`;
* `for t in it: body` -> `let '(self, x, ...) := py_for (gen_<fn>_body<k> <free vars>) it (self, x, ...) in`
  where (self, x, ...) is self plus the locals assigned in the body that exist before the loop, and
  the body is emitted as its own definition `... (t) (st) : ctl * S` (lambda lifting over the
  variables of the enclosing scope it reads); `continue` -> (CNext, st), `break` -> (CBreak, st),
  falling off the end -> (CNext, st);
* `if c: <block that always exits>` followed by REST -> `if c then <block> else <REST>`;
  an `if` without exits joins the assigned state: `let '(self, x) := if c then ... else ... in REST`;
  any other mixture duplicates REST into both branches (still 1:1 semantics);
* `try: return <l.index(x) | l[k]>  except C: <block>` -> py_try, a raising `return` outside a try ->
  py_raising; such methods return `result _` (an uncaught class propagates as `Err`);
* return type: unit (only bare returns), T, or `option T` when both `return None`/fall-through and
  `return <value>` occur (`Some` wraps the values);
* wall-clock values (`time.time()` and arithmetic on it) are opaque: they may only be assigned to
  locals and passed to logger calls, which are dropped together with docstrings and `pass`.

Operators and constants are printed from the ast node (table CMP below), with the operand types
deciding between nat / Z / ext versions; a natural is coerced to Z by Z.of_nat and subtraction of
naturals is done in Z (Python integers), a finite number is coerced to `ext` by `Fin`.
"""
import ast

# --------------------------------------------------------------------------------------------- types
NAT, ZT, EXT, BOOL, UNIT, OPAQUE, NODE, ARC, NONE, LIT, EMPTYLIST, REPEATLIT = (
    "nat", "Z", "ext", "bool", "unit", "opaque", "node", "arc", "none", "lit", "emptylist", "repeatlit")


def T_tuple(*ts):
    return ("tuple", tuple(ts))


def T_list(t):
    return ("list", t)


def T_ndarray(t):
    return ("ndarray", t)


def T_dict(v):
    return ("dict", v)          # keys are pairs of naturals (Base.dict)


def T_custom(name):
    return ("custom", name)     # a class-specific container, printed as its Coq type name


class Rejected(Exception):
    pass


def rej(node, msg):
    raise Rejected(f"line {getattr(node, 'lineno', '?')}: {msg}")


def is_seq(t):
    return isinstance(t, tuple) and t[0] in ("list", "ndarray")


def coq_type(t):
    if t in (NAT, ZT, EXT, BOOL, UNIT, NODE, ARC):
        return t
    if isinstance(t, tuple):
        if t[0] == "tuple":
            return "(" + " * ".join(coq_type(x) for x in t[1]) + ")"
        if t[0] in ("list", "ndarray"):
            return f"(list {coq_type(t[1])})"
        if t[0] == "dict":
            return f"(dict {coq_type(t[1])})"
        if t[0] == "option":
            return f"(option {coq_type(t[1])})"
        if t[0] == "result":
            return f"(result {coq_type(t[1])})"
        if t[0] == "custom":
            return t[1]
    raise Rejected(f"no Coq type for {t!r}")


def eqb_of(t, node=None):
    if t == NAT:
        return "Nat.eqb"
    if t == ZT:
        return "Z.eqb"
    if t == EXT:
        return "ext_eqb"
    if t == BOOL:
        return "Bool.eqb"
    if isinstance(t, tuple) and t[0] == "tuple" and len(t[1]) >= 2:
        ts = t[1]
        cur = eqb_of(ts[0], node)
        for x in ts[1:]:
            cur = f"(py_pair_eqb {cur} {eqb_of(x, node)})"
        return cur
    rej(node, f"no equality test for values of type {t!r}")


COQ_RESERVED = {
    "at", "in", "fun", "let", "match", "end", "with", "as", "if", "then", "else", "fix", "cofix", "forall",
    "exists", "return", "Type", "Set", "Prop", "where", "for", "using", "struct", "IF", "mod", "by",
    # constants / constructors that occur in the emitted text
    "tt", "O", "S", "None", "Some", "Ok", "Err", "CNext", "CBreak", "Fin", "PInf", "nil", "cons", "true", "false",
    "pair", "fst", "snd", "st", "negb", "length", "repeat", "seq", "map", "nat", "Z", "bool", "list", "unit",
    "ValueError", "IndexError", "KeyError", "AssertionError", "AttributeError", "TypeError", "OtherError",
    "r_", "e_", "k_", "a_", "b_", "self",
    # type names of the models
    "arc", "node", "graph", "dict", "result", "option", "ext", "ctl", "var", "inst", "tuple", "prod", "sum",
    "errcls", "estate", "astate", "sstate",
}
ERRCLS = {"ValueError", "IndexError", "KeyError", "AssertionError", "AttributeError", "TypeError"}


def ident(name):
    return name + "_" if name in COQ_RESERVED or name.startswith("gen_") or name.startswith("py_") else name


class Val:
    def __init__(self, ty, term=None, lit=None, elts=None, raising=False):
        self.ty, self.term, self.lit, self.elts, self.raising = ty, term, lit, elts, raising


class Field:
    """An attribute of `self`.  item = ("total", fn, key type, value type) | ("raising", key type, value type) | None;
    setitem = (fn, key type, value type) | None."""
    def __init__(self, ty, getter, setter=None, item=None, setitem=None):
        self.ty, self.getter, self.setter, self.item, self.setitem = ty, getter, setter, item, setitem


class ClassSpec:
    def __init__(self, class_name, state_type, fields, obj_methods, signatures, extra_calls=None, neg=None, empty_ok=()):
        self.class_name = class_name
        self.state_type = state_type
        self.fields = fields                  # attr -> Field
        self.obj_methods = obj_methods        # (receiver type, method name) -> (return type, template with {r} and {self})
        self.signatures = signatures          # method name -> list of parameter types (after self), in the order to translate
        self.extra_calls = extra_calls or {}      # np.<name> / <name>(...) hooks: name -> f(translator, call node, args)
        self.neg = neg or {}                      # type -> template for unary minus on a class-specific container
        self.empty_ok = tuple(empty_ok)           # custom container types that `[]` / `dict()` may initialise


# ------------------------------------------------------------------------------------- ast predicates
def is_name(n, name=None):
    return isinstance(n, ast.Name) and (name is None or n.id == name)


def is_self_attr(n):
    return isinstance(n, ast.Attribute) and is_name(n.value, "self")


def is_docstring(st):
    return isinstance(st, ast.Expr) and isinstance(st.value, ast.Constant) and isinstance(st.value.value, str)


def is_logger_call(st):
    return (isinstance(st, ast.Expr) and isinstance(st.value, ast.Call) and isinstance(st.value.func, ast.Attribute)
            and is_name(st.value.func.value, "logger"))


def is_none(e):
    return e is None or (isinstance(e, ast.Constant) and e.value is None)


def ignorable(st):
    return is_docstring(st) or isinstance(st, ast.Pass) or is_logger_call(st)


def always_exits(stmts):
    body = [s for s in stmts if not ignorable(s)]
    if not body:
        return False
    last = body[-1]
    if isinstance(last, (ast.Return, ast.Continue, ast.Break, ast.Raise)):
        return True
    if isinstance(last, ast.If) and last.orelse:
        return always_exits(last.body) and always_exits(last.orelse)
    if isinstance(last, ast.Try):
        return always_exits(last.body) and all(always_exits(h.body) for h in last.handlers)
    return False


def contains_exit(stmts):
    """Does the block contain a return/continue/break that belongs to the enclosing loop or function?"""
    for st in stmts:
        if isinstance(st, (ast.Return, ast.Continue, ast.Break, ast.Raise)):
            return True
        if isinstance(st, ast.If) and (contains_exit(st.body) or contains_exit(st.orelse)):
            return True
        if isinstance(st, ast.Try):
            return True
        if isinstance(st, ast.For):
            for sub in ast.walk(st):
                if isinstance(sub, (ast.Return, ast.Raise)):
                    return True
    return False


def assigned_names(stmts):
    """Locals assigned anywhere in the block (including nested loops and ifs), in order of first occurrence;
    loop targets are not included."""
    out = []

    def add(n):
        if n not in out:
            out.append(n)

    def walk(block):
        for st in block:
            if isinstance(st, ast.Assign):
                for t in st.targets:
                    for sub in ast.walk(t):
                        if isinstance(sub, ast.Name) and isinstance(sub.ctx, ast.Store):
                            add(sub.id)
            elif isinstance(st, ast.AugAssign):
                if isinstance(st.target, ast.Name):
                    add(st.target.id)
            elif isinstance(st, ast.If):
                walk(st.body)
                walk(st.orelse)
            elif isinstance(st, ast.For):
                walk(st.body)
            elif isinstance(st, ast.Try):
                walk(st.body)
                for h in st.handlers:
                    walk(h.body)
    walk(stmts)
    return out


def loaded_names(stmts):
    out = []
    for st in stmts:
        for sub in ast.walk(st):
            if isinstance(sub, ast.Name) and sub.id not in out:
                out.append(sub.id)
    return out


# ----------------------------------------------------------------------------------------- comparisons
# printed from the ast node class: (nat version, Z version, ext version); {a} {b} are the operands
CMP = {
    ast.Eq:    ("(Nat.eqb {a} {b})",        "({a} =? {b})%Z",         "(ext_eqb {a} {b})"),
    ast.NotEq: ("(negb (Nat.eqb {a} {b}))", "(negb ({a} =? {b})%Z)",  "(ext_neb {a} {b})"),
    ast.Lt:    ("(Nat.ltb {a} {b})",        "({a} <? {b})%Z",         "(ext_ltb {a} {b})"),
    ast.LtE:   ("(Nat.leb {a} {b})",        "({a} <=? {b})%Z",        "(ext_leb {a} {b})"),
    ast.Gt:    ("(Nat.ltb {b} {a})",        "({a} >? {b})%Z",         "(ext_gtb {a} {b})"),
    ast.GtE:   ("(Nat.leb {b} {a})",        "({a} >=? {b})%Z",        "(ext_geb {a} {b})"),
}
ARITH = {ast.Add: "+", ast.Sub: "-", ast.Mult: "*"}
NUM_RANK = {LIT: 0, NAT: 1, ZT: 2, EXT: 3}


class FnInfo:
    def __init__(self, name, node, param_types):
        self.name, self.node, self.param_types = name, node, param_types
        self.pure = None
        self.raising = None
        self.has_none = None
        self.has_value = None
        self.ret_type = None      # python-side type of the value (before option/result wrapping)
        self.coq_ret = None


class Translator:
    def __init__(self, spec, class_node):
        self.spec = spec
        self.cls = class_node
        self.fns = {}
        self.out = []             # emitted definitions (text), in order
        self.cur = None
        self.body_counter = 0

    # ------------------------------------------------------------------ set-up
    def collect(self):
        seen = {}
        for n in self.cls.body:
            if isinstance(n, ast.FunctionDef):
                if n.name in seen:
                    rej(n, f"method {n.name} is defined twice")
                seen[n.name] = n
        for name, ptypes in self.spec.signatures.items():
            if name not in seen:
                raise Rejected(f"{self.spec.class_name}.{name} not found")
            fn = seen[name]
            a = fn.args
            if fn.decorator_list or a.vararg or a.kwarg or a.kwonlyargs or a.posonlyargs:
                rej(fn, f"{name}: decorators / star / keyword-only parameters are not accepted")
            names = [x.arg for x in a.args]
            if not names or names[0] != "self" or len(names) != len(ptypes) + 1:
                rej(fn, f"{name}: parameters {names}, expected self + {len(ptypes)}")
            if len(set(names)) != len(names):
                rej(fn, f"{name}: repeated parameter name")
            self.fns[name] = FnInfo(name, fn, ptypes)
        # call graph among the translated methods
        calls = {}
        for name, info in self.fns.items():
            cs = []
            for sub in ast.walk(info.node):
                if isinstance(sub, ast.Call) and is_self_attr(sub.func):
                    cs.append((sub.func.attr, sub))
            calls[name] = cs
        order, state = [], {}

        def visit(n, via):
            if state.get(n) == "done":
                return
            if state.get(n) == "open":
                rej(via, f"recursive call cycle through {n}")
            state[n] = "open"
            for callee, node in calls[n]:
                if callee not in self.fns:
                    rej(node, f"{n} calls self.{callee}(), which is not a translated method")
                visit(callee, node)
            state[n] = "done"
            order.append(n)
        for n in self.fns:
            visit(n, self.fns[n].node)
        # purity / raising / return shape, callee first
        for n in order:
            info = self.fns[n]
            info.pure = not self.mutates(info.node) and all(self.fns[c].pure for c, _ in calls[n])
            info.raising = self.syntactically_raising(info.node) or any(self.fns[c].raising for c, _ in calls[n])
            rets = [s for s in ast.walk(info.node) if isinstance(s, ast.Return)]
            info.has_value = any(not is_none(r.value) for r in rets)
            info.has_none = any(is_none(r.value) for r in rets) or not always_exits(info.node.body)
        return order

    def mutates(self, fn):
        for sub in ast.walk(fn):
            if isinstance(sub, (ast.Assign, ast.AugAssign)):
                targets = sub.targets if isinstance(sub, ast.Assign) else [sub.target]
                for t in targets:
                    for x in ast.walk(t):
                        if is_self_attr(x):
                            return True
            if isinstance(sub, ast.Call) and isinstance(sub.func, ast.Attribute) and is_self_attr(sub.func.value) \
                    and sub.func.attr in ("append", "insert", "pop", "remove", "clear", "extend", "update", "sort", "reverse"):
                return True
        return False

    def syntactically_raising(self, fn):
        for sub in ast.walk(fn):
            if isinstance(sub, (ast.Try, ast.Raise)):
                return True
            if isinstance(sub, ast.Subscript) and is_self_attr(sub.value):
                f = self.spec.fields.get(sub.value.attr)
                if f is not None and f.item is not None and f.item[0] == "raising" and isinstance(sub.ctx, ast.Load):
                    return True
            if isinstance(sub, ast.Call) and isinstance(sub.func, ast.Attribute) and sub.func.attr == "index":
                return True
        return False

    # ------------------------------------------------------------------ numbers
    def coerce(self, v, ty, node):
        if v.ty == OPAQUE:
            rej(node, "a wall-clock value is used in a computation")
        if v.raising:
            rej(node, "an expression that may raise is used inside another expression")
        if v.ty == ty:
            return v.term
        if v.ty == LIT:
            if ty == NAT:
                if v.lit < 0:
                    rej(node, f"negative constant {v.lit} where a natural number is expected")
                return f"{v.lit}%nat"
            if ty == ZT:
                return f"({v.lit})%Z"
            if ty == EXT:
                return f"(Fin ({v.lit})%Z)"
        if v.ty == NAT and ty == ZT:
            return f"(Z.of_nat {v.term})"
        if v.ty == NAT and ty == EXT:
            return f"(Fin (Z.of_nat {v.term}))"
        if v.ty == ZT and ty == EXT:
            return f"(Fin {v.term})"
        if v.ty == EMPTYLIST and is_seq(ty):
            return "[]"
        if v.ty == EMPTYLIST and isinstance(ty, tuple) and ty[0] == "dict":
            return "[]"
        if v.ty == EMPTYLIST and ty in self.spec.empty_ok:
            return "[]"
        if v.ty == REPEATLIT and is_seq(ty):
            return f"(repeat {self.coerce(Val(LIT, lit=v.lit), ty[1], node)} {v.term})"
        if is_seq(v.ty) and is_seq(ty) and v.ty[1] == ty[1]:
            return v.term
        if isinstance(ty, tuple) and ty[0] == "tuple" and isinstance(v.ty, tuple) and v.ty[0] == "tuple" \
                and v.elts is not None and len(v.elts) == len(ty[1]):
            return "(" + ", ".join(self.coerce(x, t, node) for x, t in zip(v.elts, ty[1])) + ")"
        rej(node, f"type mismatch: a value of type {v.ty!r} where {ty!r} is expected")

    def settle(self, v, node):
        """Give an undetermined integer literal its default type (a natural when non-negative)."""
        if v.ty == LIT:
            ty = NAT if v.lit >= 0 else ZT
            return Val(ty, self.coerce(v, ty, node))
        if v.ty == EMPTYLIST:
            rej(node, "an empty list whose element type is not determined by the context")
        if v.ty == REPEATLIT:
            ty = T_list(NAT if v.lit >= 0 else ZT)
            return Val(ty, self.coerce(v, ty, node))
        if isinstance(v.ty, tuple) and v.ty[0] == "tuple" and v.elts is not None:
            elts = [self.settle(x, node) for x in v.elts]
            return Val(T_tuple(*[x.ty for x in elts]), "(" + ", ".join(x.term for x in elts) + ")", elts=elts)
        return v

    def num_join(self, a, b, node):
        for v in (a, b):
            if v.ty not in NUM_RANK:
                rej(node, f"operand of type {v.ty!r} in an arithmetic expression / comparison")
        ty = a.ty if NUM_RANK[a.ty] >= NUM_RANK[b.ty] else b.ty
        return ty

    # ------------------------------------------------------------------ expressions
    def pure(self, e, env):
        v = self.expr(e, env)
        if v.raising:
            rej(e, "an expression that may raise is only accepted as the value of a `return`")
        return v

    def expr(self, e, env):
        spec = self.spec
        if isinstance(e, ast.Name):
            if e.id == "self":
                rej(e, "`self` used as a value")
            if e.id not in env:
                rej(e, f"unknown name {e.id!r}")
            ty = env[e.id]
            if ty == OPAQUE:
                return Val(OPAQUE)
            return Val(ty, ident(e.id))
        if isinstance(e, ast.Constant):
            v = e.value
            if v is None:
                return Val(NONE)
            if isinstance(v, bool):
                return Val(BOOL, "true" if v else "false")
            if isinstance(v, int):
                return Val(LIT, lit=v)
            if isinstance(v, float) and v == int(v):
                return Val(LIT, lit=int(v))
            rej(e, f"constant {v!r} is not accepted")
        if isinstance(e, ast.Attribute):
            if is_self_attr(e):
                f = spec.fields.get(e.attr)
                if f is None:
                    rej(e, f"self.{e.attr} is not a modelled attribute")
                return Val(f.ty, f"({f.getter} self)")
            if is_name(e.value, "np") and e.attr == "inf":
                return Val(EXT, "PInf")
            rej(e, f"attribute .{e.attr} of something that is not self")
        if isinstance(e, ast.Tuple):
            elts = [self.pure(x, env) for x in e.elts]
            if len(elts) < 2:
                rej(e, "tuple with fewer than two components")
            for x in elts:
                if x.ty in (OPAQUE, NONE):
                    rej(e, "tuple component without a value type")
            term = None
            if all(x.ty not in (LIT, EMPTYLIST) for x in elts):
                term = "(" + ", ".join(x.term for x in elts) + ")"
            return Val(T_tuple(*[x.ty for x in elts]), term, elts=elts)
        if isinstance(e, ast.List):
            if not e.elts:
                return Val(EMPTYLIST)
            elts = [self.settle(self.pure(x, env), x) for x in e.elts]
            if any(x.ty != elts[0].ty for x in elts):
                rej(e, "list display with components of different types")
            return Val(T_list(elts[0].ty), "[" + "; ".join(x.term for x in elts) + "]")
        if isinstance(e, ast.Subscript):
            return self.subscript(e, env)
        if isinstance(e, ast.Call):
            return self.call(e, env)
        if isinstance(e, ast.Compare):
            return self.compare(e, env)
        if isinstance(e, ast.BoolOp):
            vals = [self.pure(x, env) for x in e.values]
            for x, n in zip(vals, e.values):
                if x.ty != BOOL:
                    rej(n, f"operand of and/or has type {x.ty!r}, not bool")
            sym = "&&" if isinstance(e.op, ast.And) else "||" if isinstance(e.op, ast.Or) else rej(e, "boolean operator")
            cur = vals[0].term
            for x in vals[1:]:
                cur = f"({cur} {sym} {x.term})"
            return Val(BOOL, cur)
        if isinstance(e, ast.UnaryOp):
            v = self.pure(e.operand, env)
            if isinstance(e.op, ast.Not):
                if v.ty != BOOL:
                    rej(e, f"`not` applied to a value of type {v.ty!r}")
                return Val(BOOL, f"(negb {v.term})")
            if isinstance(e.op, ast.USub):
                if v.ty == LIT:
                    return Val(LIT, lit=-v.lit)
                if v.ty == OPAQUE:
                    return Val(OPAQUE)
                if v.ty in (NAT, ZT):
                    return Val(ZT, f"(- {self.coerce(v, ZT, e)})%Z")
                if v.ty in self.spec.neg:
                    return Val(v.ty, self.spec.neg[v.ty].format(x=v.term))
            rej(e, f"unary operator {type(e.op).__name__} on {v.ty!r}")
        if isinstance(e, ast.BinOp):
            return self.binop(e, env)
        if isinstance(e, ast.IfExp):
            c = self.pure(e.test, env)
            if c.ty != BOOL:
                rej(e, "condition of a conditional expression is not a bool")
            a, b = self.settle(self.pure(e.body, env), e), self.settle(self.pure(e.orelse, env), e)
            if a.ty != b.ty:
                rej(e, "branches of a conditional expression have different types")
            return Val(a.ty, f"(if {c.term} then {a.term} else {b.term})")
        rej(e, f"expression {type(e).__name__} is not accepted")

    def binop(self, e, env):
        a, b = self.pure(e.left, env), self.pure(e.right, env)
        if a.ty == OPAQUE or b.ty == OPAQUE:
            if type(e.op) in ARITH or isinstance(e.op, ast.Div):
                return Val(OPAQUE)
        if type(e.op) not in ARITH:
            rej(e, f"binary operator {type(e.op).__name__} is not accepted")
        sym = ARITH[type(e.op)]
        # [x] * n
        if isinstance(e.op, ast.Mult) and isinstance(a.ty, tuple) and a.ty[0] == "list" and isinstance(e.left, ast.List) \
                and len(e.left.elts) == 1 and b.ty in (NAT, LIT):
            x = self.pure(e.left.elts[0], env)
            if x.ty == LIT:
                return Val(REPEATLIT, self.coerce(b, NAT, e), lit=x.lit)
            x = self.settle(x, e)
            return Val(T_list(x.ty), f"(repeat {x.term} {self.coerce(b, NAT, e)})")
        ty = self.num_join(a, b, e)
        if ty == LIT:
            val = {"+": a.lit + b.lit, "-": a.lit - b.lit, "*": a.lit * b.lit}[sym]
            return Val(LIT, lit=val)
        if ty == EXT:
            rej(e, "arithmetic on a value that may be inf")
        if ty == NAT and sym == "-":
            ty = ZT                     # Python integers: the difference of two naturals may be negative
        return Val(ty, f"({self.coerce(a, ty, e)} {sym} {self.coerce(b, ty, e)})%{ty}")

    def compare(self, e, env):
        operands = [self.pure(x, env) for x in [e.left] + list(e.comparators)]
        parts = []
        for op, a, b in zip(e.ops, operands, operands[1:]):
            parts.append(self.compare1(e, op, a, b))
        cur = parts[0]
        for p in parts[1:]:
            cur = f"({cur} && {p})"
        if len(parts) == 1 and isinstance(cur, Val):
            return cur
        for p in parts:
            if isinstance(p, Val):
                rej(e, "element-wise comparison inside a comparison chain")
        return Val(BOOL, cur)

    def compare1(self, e, op, a, b):
        if isinstance(op, (ast.In, ast.NotIn)):
            if isinstance(b.ty, tuple) and b.ty[0] == "dict":
                t = f"(py_dict_contains {self.coerce(a, T_tuple(NAT, NAT), e)} {b.term})"
            elif is_seq(b.ty):
                t = f"(py_list_contains {eqb_of(b.ty[1], e)} {self.coerce(a, b.ty[1], e)} {b.term})"
            else:
                rej(e, f"`in` on a value of type {b.ty!r}")
            return t if isinstance(op, ast.In) else f"(negb {t})"
        if type(op) not in CMP:
            rej(e, f"comparison operator {type(op).__name__} is not accepted")
        # ndarray <op> scalar: element-wise
        if isinstance(a.ty, tuple) and a.ty[0] == "ndarray" and b.ty in NUM_RANK:
            elt = Val(a.ty[1], "a_")
            bt = self.settle(b, e)
            inner = self.compare1(e, op, elt, Val(bt.ty, "b_"))
            return Val(T_ndarray(BOOL), f"(np_map_scalar (fun a_ b_ => {inner}) {a.term} {bt.term})")
        if a.ty in NUM_RANK and b.ty in NUM_RANK:
            ty = self.num_join(a, b, e)
            if ty == LIT:
                ty = ZT
            k = {NAT: 0, ZT: 1, EXT: 2}[ty]
            return CMP[type(op)][k].format(a=self.coerce(a, ty, e), b=self.coerce(b, ty, e))
        if isinstance(op, (ast.Eq, ast.NotEq)):
            a2, b2 = self.settle(a, e), self.settle(b, e)
            if a2.ty != b2.ty:
                rej(e, f"== between values of types {a2.ty!r} and {b2.ty!r}")
            t = f"({eqb_of(a2.ty, e)} {a2.term} {b2.term})"
            return t if isinstance(op, ast.Eq) else f"(negb {t})"
        rej(e, f"comparison between values of types {a.ty!r} and {b.ty!r}")

    def tuple_proj(self, term, n, k):
        t = term
        if k == 0:
            for _ in range(n - 1):
                t = f"(fst {t})"
            return t
        for _ in range(n - 1 - k):
            t = f"(fst {t})"
        return f"(snd {t})"

    def subscript(self, e, env):
        spec = self.spec
        if is_self_attr(e.value):
            f = spec.fields.get(e.value.attr)
            if f is None or f.item is None:
                rej(e, f"subscript of self.{e.value.attr} is not modelled")
            idx = e.slice
            if isinstance(idx, ast.Slice):
                rej(e, "slices are not accepted")
            k = self.pure(idx, env)
            if f.item[0] == "total":
                _, fn, kty, vty = f.item
                return Val(vty, f"({fn} self {self.coerce(k, kty, e)})")
            kty, vty = f.item[1], f.item[2]
            fn = f.item[3] if len(f.item) > 3 else "py_list_item"
            return Val(vty, f"({fn} ({f.getter} self) {self.coerce(k, kty, e)})", raising=True)
        v = self.pure(e.value, env)
        if isinstance(v.ty, tuple) and v.ty[0] == "tuple":
            idx = e.slice
            if not (isinstance(idx, ast.Constant) and type(idx.value) is int and 0 <= idx.value < len(v.ty[1])):
                rej(e, "a tuple may only be indexed with a constant position")
            if v.term is None:
                rej(e, "index into a tuple display with undetermined constants")
            return Val(v.ty[1][idx.value], self.tuple_proj(v.term, len(v.ty[1]), idx.value))
        rej(e, f"subscript of a value of type {v.ty!r}")

    def call(self, e, env):
        spec = self.spec
        is_np = isinstance(e.func, ast.Attribute) and is_name(e.func.value, "np")
        if e.keywords and not is_np:
            rej(e, "keyword arguments are not accepted")
        for a in e.args:
            if isinstance(a, ast.Starred):
                rej(e, "star arguments are not accepted")
        f = e.func
        if is_self_attr(f):
            info = self.fns.get(f.attr)
            if info is None:
                rej(e, f"self.{f.attr}() is not a translated method")
            if not info.pure:
                rej(e, f"self.{f.attr}() changes the object: it is only accepted as a statement or as the whole right-hand side of an assignment")
            if info.raising:
                rej(e, f"self.{f.attr}() may raise: not accepted inside an expression")
            return Val(info.ret_type, self.call_term(info, e, env), elts=None)
        if isinstance(f, ast.Attribute):
            # time.time()
            if is_name(f.value, "time") and f.attr == "time" and not e.args:
                return Val(OPAQUE)
            if is_name(f.value, "np"):
                return self.np_call(e, env)
            if f.attr == "index" and len(e.args) == 1:
                recv = self.pure(f.value, env)
                if not (isinstance(recv.ty, tuple) and recv.ty[0] == "list"):
                    rej(e, f".index on a value of type {recv.ty!r}")
                x = self.pure(e.args[0], env)
                return Val(NAT, f"(py_list_index {eqb_of(recv.ty[1], e)} {self.coerce(x, recv.ty[1], e)} {recv.term})", raising=True)
            if f.attr in ("keys", "values") and not e.args:
                recv = self.pure(f.value, env)
                if isinstance(recv.ty, tuple) and recv.ty[0] == "dict":
                    if f.attr == "keys":
                        return Val(T_list(T_tuple(NAT, NAT)), f"(py_dict_keys {recv.term})")
                    return Val(T_list(recv.ty[1]), f"(py_dict_values {recv.term})")
                rej(e, f".{f.attr}() on a value of type {recv.ty!r}")
            recv = self.pure(f.value, env)
            key = (recv.ty, f.attr)
            if key in spec.obj_methods and not e.args:
                rty, tmpl = spec.obj_methods[key]
                return Val(rty, tmpl.format(r=recv.term, self="self"))
            rej(e, f"method call .{f.attr}() on a value of type {recv.ty!r} is not accepted")
        if isinstance(f, ast.Name):
            args = [self.pure(a, env) for a in e.args]
            if f.id in env:
                rej(e, f"call of the local {f.id}")
            if f.id == "len" and len(args) == 1:
                t = args[0].ty
                if is_seq(t) or (isinstance(t, tuple) and t[0] == "dict"):
                    return Val(NAT, f"(length {args[0].term})")
            if f.id in ("max", "min") and len(args) == 2:
                ty = self.num_join(args[0], args[1], e)
                if ty == LIT:
                    return Val(LIT, lit=(max if f.id == "max" else min)(args[0].lit, args[1].lit))
                fn = {NAT: "Nat", ZT: "Z"}.get(ty)
                name = f"{fn}.{f.id}" if fn else f"ext_{f.id}"
                return Val(ty, f"({name} {self.coerce(args[0], ty, e)} {self.coerce(args[1], ty, e)})")
            if f.id == "int" and len(args) == 1 and args[0].ty in (NAT, ZT, LIT):
                return args[0]
            if f.id in ("any", "all") and len(args) == 1 and is_seq(args[0].ty) and args[0].ty[1] == BOOL:
                return Val(BOOL, f"(py_{f.id} {args[0].term})")
            if f.id == "range":
                return self.range_call(e, args)
            if f.id == "dict" and not args:
                return Val(EMPTYLIST)
            if f.id in self.spec.extra_calls:
                return self.spec.extra_calls[f.id](self, e, args)
        rej(e, f"call {ast.dump(f)[:80]} is not accepted")

    def range_call(self, e, args):
        if len(args) == 1:
            a = args[0]
            if a.ty in (NAT, LIT):
                return Val(T_list(NAT), f"(py_range {self.coerce(a, NAT, e)})")
            if a.ty == ZT:
                return Val(T_list(NAT), f"(py_range_z {a.term})")
        if len(args) == 2:
            a, b = args
            if a.ty in (NAT, LIT) and b.ty in (NAT, LIT):
                return Val(T_list(NAT), f"(py_range2 {self.coerce(a, NAT, e)} {self.coerce(b, NAT, e)})")
            if a.ty in (NAT, LIT, ZT) and b.ty in (NAT, LIT, ZT):
                if a.ty == LIT and a.lit < 0:
                    rej(e, "range with a negative start")
                return Val(T_list(NAT), f"(py_range2_z {self.coerce(a, ZT, e)} {self.coerce(b, ZT, e)})")
        rej(e, "range() with these arguments is not accepted")

    def np_call(self, e, env):
        name = e.func.attr
        args = [self.pure(a, env) for a in e.args]
        if name in self.spec.extra_calls:
            return self.spec.extra_calls[name](self, e, args)
        if e.keywords:
            rej(e, f"np.{name} with keyword arguments is not accepted")
        if name in ("sort", "unique") and len(args) == 1 and is_seq(args[0].ty) and args[0].ty[1] == ZT:
            return Val(T_ndarray(ZT), f"(np_{name} {args[0].term})")
        if name == "argmax" and len(args) == 1 and is_seq(args[0].ty) and args[0].ty[1] == BOOL:
            return Val(NAT, f"(np_argmax_bool {args[0].term})")
        rej(e, f"np.{name} with these arguments is not accepted")

    def call_term(self, info, e, env):
        if len(e.args) != len(info.param_types):
            rej(e, f"self.{info.name}() called with {len(e.args)} arguments")
        args = [self.coerce(self.pure(a, env), t, e) for a, t in zip(e.args, info.param_types)]
        return "(" + " ".join([f"gen_{info.name}", "self"] + args) + ")"

    # ------------------------------------------------------------------ statements
    def state_pat(self, svars):
        names = ["self" if n == "self" else ident(n) for n in svars]
        return names[0] if len(names) == 1 else "(" + ", ".join(names) + ")"

    def state_type(self, svars, env):
        ts = [self.spec.state_type if n == "self" else coq_type(env[n]) for n in svars]
        return ts[0] if len(ts) == 1 else "(" + " * ".join(ts) + ")"

    def let_state(self, svars, rhs, rest):
        pat = self.state_pat(svars)
        if len(svars) == 1:
            return f"let {pat} := {rhs} in\n{rest}"
        return f"let '{pat} := {rhs} in\n{rest}"

    def finish(self, env, ctx):
        """Falling off the end of the block."""
        kind = ctx["kind"]
        if kind == "fn":
            return self.ret_term(None, env, ctx, None)
        if kind == "loop":
            return f"(CNext, {self.state_pat(ctx['svars'])})"
        if kind == "join":
            return self.state_pat(ctx["svars"])
        raise AssertionError(kind)

    def ret_term(self, val, env, ctx, node):
        info = self.cur
        if val is None or val.ty == NONE:
            if not info.has_value:
                inner = "Datatypes.tt"
            else:
                inner = "None"
        else:
            if val.ty == OPAQUE:
                rej(node, "a wall-clock value is returned")
            v = self.settle(val, node) if info.ret_type is None else val
            if info.ret_type is None:
                info.ret_type = v.ty
            term = self.coerce(v, info.ret_type, node)
            inner = f"(Some {term})" if info.has_none else term
        if info.raising:
            inner = f"(Ok {inner})"
        return inner if info.pure else f"(self, {inner})"

    def err_term(self, var):
        return f"(Err {var})" if self.cur.pure else f"(self, Err {var})"

    def block(self, stmts, env, ctx):
        stmts = [s for s in stmts if not ignorable_checked(s)]
        if not stmts:
            return self.finish(env, ctx)
        st, rest = stmts[0], stmts[1:]
        inloop = ctx["kind"] == "loop" or ctx.get("in_loop")

        if isinstance(st, ast.Return):
            if rest:
                rej(rest[0], "statement after return")
            if inloop or ctx["kind"] == "join":
                rej(st, "return inside a loop or inside a branch that is joined is not accepted")
            if is_none(st.value):
                return self.ret_term(None, env, ctx, st)
            v = self.expr(st.value, env)
            if v.raising:
                if not self.cur.raising:
                    rej(st, "internal: raising return in a method classified as non-raising")
                ok = self.ret_term(Val(v.ty, "r_"), env, ctx, st)
                return f"py_raising {v.term}\n  (fun r_ => {ok})\n  (fun e_ => {self.err_term('e_')})"
            return self.ret_term(v, env, ctx, st)

        if isinstance(st, (ast.Continue, ast.Break)):
            if rest:
                rej(rest[0], "statement after continue/break")
            if ctx["kind"] != "loop":
                rej(st, "continue/break outside a translated loop body (or inside a joined branch)")
            flag = "CNext" if isinstance(st, ast.Continue) else "CBreak"
            return f"({flag}, {self.state_pat(ctx['svars'])})"

        if isinstance(st, ast.Assign):
            if len(st.targets) != 1:
                rej(st, "chained assignment")
            return self.assign(st.targets[0], st.value, st, rest, env, ctx)

        if isinstance(st, ast.AugAssign):
            if type(st.op) not in ARITH:
                rej(st, f"augmented assignment with {type(st.op).__name__}")
            load = ast.copy_location(ast.fix_missing_locations(_as_load(st.target)), st)
            value = ast.copy_location(ast.BinOp(left=load, op=st.op, right=st.value), st)
            ast.fix_missing_locations(value)
            return self.assign(st.target, value, st, rest, env, ctx)

        if isinstance(st, ast.Expr):
            return self.expr_stmt(st, rest, env, ctx)

        if isinstance(st, ast.If):
            return self.if_stmt(st, rest, env, ctx)

        if isinstance(st, ast.For):
            return self.for_stmt(st, rest, env, ctx)

        if isinstance(st, ast.Try):
            return self.try_stmt(st, rest, env, ctx)

        rej(st, f"statement {type(st).__name__} is not accepted")

    def need_mutable_self(self, node):
        if self.cur.pure:
            rej(node, "internal: assignment to self in a method classified as pure")

    def assign(self, target, value, st, rest, env, ctx):
        spec = self.spec
        # x = self.impure_method(...)
        if isinstance(value, ast.Call) and is_self_attr(value.func) and value.func.attr in self.fns \
                and not self.fns[value.func.attr].pure:
            info = self.fns[value.func.attr]
            if info.raising:
                rej(st, f"self.{info.name}() may raise: its result cannot be used here")
            if not is_name(target):
                rej(st, "the result of a method that changes the object must be assigned to a plain local")
            self.need_mutable_self(st)
            if info.has_none and info.has_value:
                rej(st, f"self.{info.name}() may return None: assignment of its result is not accepted")
            env2 = self.bind_local(target.id, info.ret_type, st, env)
            return (f"let '(self, {ident(target.id)}) := {self.call_term(info, value, env)} in\n"
                    + self.block(rest, env2, ctx))
        if is_name(target):
            v = self.expr(value, env)
            if v.raising:
                # x = <l.index(..) | a[k]> outside a try: an exception leaves the method
                if not self.cur.raising:
                    rej(st, "internal: raising assignment in a method classified as non-raising")
                if ctx["kind"] != "fn" or ctx.get("in_loop"):
                    rej(st, "an assignment that may raise inside a loop or a joined branch is not accepted")
                env2 = self.bind_local(target.id, v.ty, st, env)
                return (f"py_raising {v.term}\n  (fun {ident(target.id)} =>\n{indent(self.block(rest, env2, ctx), 4)})\n"
                        f"  (fun e_ => {self.err_term('e_')})")
            if v.ty == OPAQUE:
                env2 = dict(env)
                if target.id in env and env[target.id] != OPAQUE:
                    rej(st, f"{target.id} changes its type")
                env2[target.id] = OPAQUE
                return self.block(rest, env2, ctx)
            if v.ty == NONE:
                rej(st, "assignment of None to a local")
            v = self.settle(v, st)
            env2 = self.bind_local(target.id, v.ty, st, env)
            return f"let {ident(target.id)} := {v.term} in\n" + self.block(rest, env2, ctx)
        if is_self_attr(target):
            f = spec.fields.get(target.attr)
            if f is None or f.setter is None:
                rej(st, f"assignment to self.{target.attr} is not modelled")
            self.need_mutable_self(st)
            v = self.pure(value, env)
            return f"let self := {f.setter} {self.coerce(v, f.ty, st)} self in\n" + self.block(rest, env, ctx)
        if isinstance(target, ast.Subscript) and is_self_attr(target.value):
            f = spec.fields.get(target.value.attr)
            if f is None or f.setitem is None or f.setter is None:
                rej(st, f"item assignment to self.{target.value.attr} is not modelled")
            self.need_mutable_self(st)
            fn, kty, vty = f.setitem
            k = self.pure(target.slice, env)
            v = self.pure(value, env)
            return (f"let self := {f.setter} ({fn} ({f.getter} self) {self.coerce(k, kty, st)} {self.coerce(v, vty, st)}) self in\n"
                    + self.block(rest, env, ctx))
        if isinstance(target, ast.Tuple) and all(is_name(x) for x in target.elts):
            v = self.pure(value, env)
            if not (isinstance(v.ty, tuple) and v.ty[0] == "tuple" and len(v.ty[1]) == len(target.elts)):
                rej(st, "tuple assignment from a value that is not a tuple of the same length")
            v = self.settle(v, st)
            env2 = env
            for x, t in zip(target.elts, v.ty[1]):
                env2 = self.bind_local(x.id, t, st, env2)
            pat = "(" + ", ".join(ident(x.id) for x in target.elts) + ")"
            return f"let '{pat} := {v.term} in\n" + self.block(rest, env2, ctx)
        rej(st, "assignment target is not accepted")

    def bind_local(self, name, ty, node, env):
        if name == "self":
            rej(node, "assignment to self")
        if name in self.loop_targets:
            rej(node, f"assignment to the loop variable {name}")
        if name in env and env[name] != ty:
            rej(node, f"local {name} changes its type from {env[name]!r} to {ty!r}")
        if ty in (NONE, OPAQUE, LIT, EMPTYLIST, None):
            rej(node, f"local {name} has no value type")
        env2 = dict(env)
        env2[name] = ty
        return env2

    def expr_stmt(self, st, rest, env, ctx):
        v = st.value
        if isinstance(v, ast.Call) and is_self_attr(v.func) and v.func.attr in self.fns:
            info = self.fns[v.func.attr]
            if v.keywords:
                rej(st, "keyword arguments are not accepted")
            if info.raising:
                rej(st, f"self.{info.name}() may raise: calling it as a statement is not accepted")
            if info.pure:
                self.call_term(info, v, env)           # type check only; a pure call has no effect
                return self.block(rest, env, ctx)
            self.need_mutable_self(st)
            return f"let '(self, _) := {self.call_term(info, v, env)} in\n" + self.block(rest, env, ctx)
        if isinstance(v, ast.Call) and isinstance(v.func, ast.Attribute) and v.func.attr == "append" \
                and is_self_attr(v.func.value) and len(v.args) == 1 and not v.keywords:
            f = self.spec.fields.get(v.func.value.attr)
            if f is None or f.setter is None or not (isinstance(f.ty, tuple) and f.ty[0] == "list"):
                rej(st, f"self.{v.func.value.attr}.append is not modelled")
            self.need_mutable_self(st)
            x = self.pure(v.args[0], env)
            return (f"let self := {f.setter} (py_append ({f.getter} self) {self.coerce(x, f.ty[1], st)}) self in\n"
                    + self.block(rest, env, ctx))
        rej(st, "expression statement is not accepted")

    def cond(self, test, env):
        c = self.pure(test, env)
        if c.ty != BOOL:
            rej(test, f"condition of type {c.ty!r}: only booleans are accepted (no truthiness)")
        return c.term

    def if_stmt(self, st, rest, env, ctx):
        c = self.cond(st.test, env)
        b_exit, o_exit = always_exits(st.body), always_exits(st.orelse)
        if b_exit:
            return (f"if {c} then\n{indent(self.block(st.body, env, ctx))}\nelse\n"
                    + self.block(list(st.orelse) + rest, env, ctx))
        if o_exit and not contains_exit(st.body):
            return (f"if {c} then\n{indent(self.block(list(st.body) + rest, env, ctx))}\nelse\n"
                    + indent(self.block(st.orelse, env, ctx)))
        if not contains_exit(st.body) and not contains_exit(st.orelse):
            svars = self.join_vars(list(st.body) + list(st.orelse), env)
            jctx = {"kind": "join", "svars": svars, "in_loop": ctx["kind"] == "loop" or ctx.get("in_loop")}
            a = self.block(st.body, env, jctx)
            b = self.block(st.orelse, env, jctx)
            return self.let_state(svars, f"(if {c} then\n{indent(a)}\nelse\n{indent(b)})", self.block(rest, env, ctx))
        # general case: the rest of the block is executed after either branch
        return (f"if {c} then\n{indent(self.block(list(st.body) + rest, env, ctx))}\nelse\n"
                + indent(self.block(list(st.orelse) + rest, env, ctx)))

    def join_vars(self, stmts, env):
        svars = []
        if not self.cur.pure:
            svars.append("self")
        for n in assigned_names(stmts):
            if n in env and env[n] != OPAQUE:
                svars.append(n)
        if not svars:
            rej(stmts[0] if stmts else None, "a branch / loop without any effect on the state in a method that cannot change the object")
        return svars

    def for_stmt(self, st, rest, env, ctx):
        if st.orelse:
            rej(st, "for ... else is not accepted")
        it = self.pure(st.iter, env)
        if isinstance(it.ty, tuple) and it.ty[0] == "dict":      # iterating a dict iterates its keys
            it = Val(T_list(T_tuple(NAT, NAT)), f"(py_dict_keys {it.term})")
        if not is_seq(it.ty):
            rej(st, f"iteration over a value of type {it.ty!r}")
        elt = it.ty[1]
        # loop targets
        tgt = st.target
        if is_name(tgt):
            names, types = [tgt.id], [elt]
            elem_param, unpack = f"({ident(tgt.id)} : {coq_type(elt)})", ""
        elif isinstance(tgt, ast.Tuple) and all(is_name(x) for x in tgt.elts) and isinstance(elt, tuple) \
                and elt[0] == "tuple" and len(elt[1]) == len(tgt.elts):
            names, types = [x.id for x in tgt.elts], list(elt[1])
            elem_param = f"(k_ : {coq_type(elt)})"
            unpack = "let '(" + ", ".join(ident(n) for n in names) + ") := k_ in\n"
        else:
            rej(st, "loop target is not a name or a tuple of names matching the element type")
        if len(set(names)) != len(names):
            rej(st, "repeated loop variable")
        for n in names:
            if n in env or n == "self":
                rej(st, f"loop variable {n} is already bound in the enclosing scope")
        body_assigned = assigned_names(st.body)
        for n in names:
            if n in body_assigned:
                rej(st, f"loop variable {n} is assigned in the loop body")
        # the iterable must not be changed by the body
        read_attrs = {x.attr for x in ast.walk(st.iter) if is_self_attr(x)}
        for sub in ast.walk(ast.Module(body=st.body, type_ignores=[])):
            tgt_attr = None
            if isinstance(sub, (ast.Assign, ast.AugAssign)):
                for t in (sub.targets if isinstance(sub, ast.Assign) else [sub.target]):
                    for x in ast.walk(t):
                        if is_self_attr(x):
                            tgt_attr = x.attr
                            if tgt_attr in read_attrs:
                                rej(sub, f"the loop body assigns self.{tgt_attr}, which the loop iterates over")
            if isinstance(sub, ast.Call) and isinstance(sub.func, ast.Attribute) and is_self_attr(sub.func.value) \
                    and sub.func.value.attr in read_attrs and sub.func.attr not in ("keys", "values", "index"):
                rej(sub, f"the loop body calls a method of self.{sub.func.value.attr}, which the loop iterates over")
            if isinstance(sub, ast.Call) and is_self_attr(sub.func) and sub.func.attr in self.fns \
                    and not self.fns[sub.func.attr].pure and read_attrs:
                rej(sub, "the loop body calls a method that changes the object while iterating over one of its attributes")
        svars = self.join_vars(st.body, env)
        self.body_counter += 1
        bname = f"gen_{self.cur.name}_body{self.body_counter}"
        inner_env = dict(env)
        for n, t in zip(names, types):
            inner_env[n] = t
        free = [n for n in env if n in loaded_names(st.body) and n not in svars and env[n] != OPAQUE]
        saved = self.loop_targets
        self.loop_targets = saved | set(names)
        lctx = {"kind": "loop", "svars": svars}
        body = self.block(st.body, inner_env, lctx)
        self.loop_targets = saved
        sty = self.state_type(svars, env)
        params = "".join(f" ({ident(n)} : {coq_type(env[n])})" for n in free)
        selfparam = "" if "self" in svars else f" (self : {self.spec.state_type})"
        unpack_state = "" if len(svars) == 1 and self.state_pat(svars) == "st" else \
            (f"let {self.state_pat(svars)} := st in\n" if len(svars) == 1 else f"let '{self.state_pat(svars)} := st in\n")
        self.out.append(f"(* body of the `for` loop at line {st.lineno} of {self.cur.name} *)\n"
                        f"Definition {bname}{selfparam}{params} {elem_param} (st : {sty}) : ctl * {sty} :=\n"
                        + indent(unpack + unpack_state + body) + ".\n")
        call = " ".join([bname] + (["self"] if selfparam else []) + [ident(n) for n in free])
        rhs = f"py_for ({call}) {it.term} {self.state_pat(svars)}"
        return self.let_state(svars, rhs, self.block(rest, env, ctx))

    def try_stmt(self, st, rest, env, ctx):
        if st.orelse or st.finalbody or len(st.handlers) != 1:
            rej(st, "only try/except with exactly one handler is accepted")
        h = st.handlers[0]
        if not is_name(h.type) or h.type.id not in ERRCLS or h.name is not None:
            rej(st, "the handler must name one of the modelled exception classes, without `as`")
        if ctx["kind"] != "fn" or ctx.get("in_loop"):
            rej(st, "try inside a loop or a joined branch is not accepted")
        body = [s for s in st.body if not ignorable_checked(s)]
        if len(body) != 1 or not isinstance(body[0], ast.Return) or is_none(body[0].value):
            rej(st, "the try block must be a single `return <expression>`")
        v = self.expr(body[0].value, env)
        if not v.raising:
            rej(st, "the expression in the try block cannot raise in the model")
        ok = self.ret_term(Val(v.ty, "r_"), env, ctx, st)
        handler = self.block(list(h.body) + ([] if always_exits(h.body) else rest), env, ctx)
        return (f"py_try {v.term}\n  (fun r_ => {ok})\n  {h.type.id}\n{indent(handler, 2)}\n"
                f"  (fun e_ => {self.err_term('e_')})")

    # ------------------------------------------------------------------ one method
    def function(self, name):
        info = self.fns[name]
        self.cur = info
        self.body_counter = 0
        self.loop_targets = frozenset()
        fn = info.node
        env = {}
        for a, t in zip(fn.args.args[1:], info.param_types):
            env[a.arg] = t
        if fn.args.defaults:
            for d in fn.args.defaults:
                if not isinstance(d, ast.Constant):
                    rej(fn, "default value that is not a constant")
        body = self.block(fn.body, env, {"kind": "fn"})
        # result type
        if not info.has_value:
            base, info.ret_type = "unit", UNIT
        else:
            if info.ret_type is None:
                rej(fn, f"{name}: could not determine the type of the returned value")
            base = coq_type(info.ret_type)
            if info.has_none:
                base = f"(option {base})"
        if info.raising:
            base = f"(result {base})"
        info.coq_ret = base if info.pure else f"{self.spec.state_type} * {base}"
        params = "".join(f" ({ident(a.arg)} : {coq_type(t)})" for a, t in zip(fn.args.args[1:], info.param_types))
        kind = "reads the object only" if info.pure else "changes the object"
        self.out.append(f"(* {self.spec.class_name}.{name}, line {fn.lineno} ({kind}) *)\n"
                        f"Definition gen_{name} (self : {self.spec.state_type}){params} : {info.coq_ret} :=\n"
                        + indent(body) + ".\n")


def _as_load(t):
    if isinstance(t, ast.Name):
        return ast.Name(id=t.id, ctx=ast.Load())
    if isinstance(t, ast.Attribute):
        return ast.Attribute(value=t.value, attr=t.attr, ctx=ast.Load())
    if isinstance(t, ast.Subscript):
        return ast.Subscript(value=t.value, slice=t.slice, ctx=ast.Load())
    rej(t, "augmented assignment target")


def ignorable_checked(st):
    """docstrings, pass, logger.<level>(...) whose arguments are constants or names (no effects)."""
    if is_logger_call(st):
        c = st.value
        for a in list(c.args) + [k.value for k in c.keywords]:
            if not isinstance(a, (ast.Constant, ast.Name, ast.JoinedStr)):
                rej(st, "logger call with an argument that is not a constant or a name")
            if isinstance(a, ast.JoinedStr):
                for sub in ast.walk(a):
                    if isinstance(sub, ast.Call):
                        rej(st, "logger call with a call inside an f-string")
        return True
    return is_docstring(st) or isinstance(st, ast.Pass)


def indent(text, n=2):
    pad = " " * n
    return "\n".join(pad + ln if ln else ln for ln in text.split("\n"))


def find_class(src, class_name):
    try:
        tree = ast.parse(src)
    except SyntaxError as ex:
        raise Rejected(f"syntax error: {ex}")
    cls = [n for n in tree.body if isinstance(n, ast.ClassDef) and n.name == class_name]
    if len(cls) != 1:
        raise Rejected(f"class {class_name} not found (or defined more than once)")
    # names the translators give a fixed meaning must not be rebound at module level
    for n in tree.body:
        if isinstance(n, (ast.FunctionDef, ast.AsyncFunctionDef)) and n.name in ("len", "range", "max", "min", "any", "all", "int", "dict"):
            raise Rejected(f"line {n.lineno}: builtin {n.name} is redefined at module level")
        if isinstance(n, ast.Assign):
            for t in n.targets:
                if is_name(t) and t.id in ("len", "range", "max", "min", "any", "all", "int", "dict", "np", "time"):
                    raise Rejected(f"line {n.lineno}: {t.id} is rebound at module level")
    return cls[0]


def translate_class(src, spec, header):
    cls = find_class(src, spec.class_name)
    tr = Translator(spec, cls)
    order = tr.collect()
    for name in order:
        tr.function(name)
    return header + "\n" + "\n".join(tr.out)
