"""translate_mirp.py -- fail-closed translator of the plain-Python methods of applications/mirp.py
(class MIRP) into Gallina: coq/gen/MirpGen.v (properties C11 and C12).

Translated methods (in this order, so that `self.add_node(...)` / `self.add_arc(...)` refer to the
generated definitions): __init__ (the stored fields), add_node, add_arc, add_nodes, add_travel_arcs,
add_entry_arcs, add_exit_arcs, estimate_high_cost.  `self.get_time_window(...)` is a call of the hand
model `Mirp.window` (combinator `self_get_time_window`); its own source is tied by translate_window.py.

The translator is a typed printer.  It walks the `ast` of each method and prints every statement /
expression 1:1 into the combinators of coq/theories/PyMirp.v (a state-and-exception monad `M` over the
MIRP object, `bind`, `ret`, `for_each`, `while_true` with fuel, `q_div`, `fees_get`, ...).  What a
combinator means is defined in Coq, not here.  Loop BODIES become separate definitions
`gen_<method>_loop<k>` taking the enclosing variables they use (in scope order), the loop element (for)
and the tuple of carried locals (the locals defined before the loop that the body re-assigns).

Accepted fragment (anything else raises `Rejected` with the line number):
  statements   x = e | x += e | x.append(e) for a list the method built itself | self.supply_ports.append(e) |
               self.demand_ports.append(e) | self.port_mapping[k] = [] | self.port_mapping[k].append(e) |
               self.port_frequency[k] = e | (in __init__) self.<field> = e | an expression statement that is a call |
               if/else (a branch may end with break / continue / return) | while True (not nested) | for x in e |
               for a, b in e | break | continue | return [e] (last statement of a block, not inside a loop) |
               ignored: docstrings, pass, logger.<level>(constants and names), annotations
  expressions  names, int constants, True/False, "Depot", f"{port}-{k}", f"Dum{i}", + - * / on numbers, + on lists,
               + * on counters, unary minus, not, and/or of call-free operands, the six comparisons on numbers (a
               window end may be infinite), == != on node names, t[0] t[1] on a pair, l[-1],
               node.time_window[0|1], fees[p], self.port_mapping[p], self.cargo_size, self.time_horizon,
               self.supply_ports, self.demand_ports, self.vrptw.depot_index, self.vrptw.node_names[i],
               self.vrptw.node_names, `f(x) for x in l` with a call-free element, (a, b), [], [a, ...], and the calls
               self.get_time_window(k, init, rate, cap), self.<translated method>(...), self.vrptw.add_node(x, d[, tw]),
               self.vrptw.add_arc(o, d, t[, c]), self.vrptw.get_node(x), self.vrptw.arcs.values(),
               self.port_frequency.values(), <distance function>(a, b), np.fabs(x), min(l), max(l), product(a, b),
               arc.get_cost(), arc.get_travel_time(); in __init__ also VRPTW(), dict(),
               self.vrptw.set_initial_loading(x), set_vehicle_cap(x), set_depot(x).
Guards that keep the printing sound: a `for` body must not change the part of the object (ports, port_mapping,
nodes, arcs, port_frequency) its loop iterates over, also through a local that may alias it (for_each evaluates the
list once); `.append` / `+=` only on lists built by the method itself; no second name for a list; a loop variable
must be new; `__init__` must store every modelled field exactly once (lists with [], dicts with dict()) and make
each of the four VRPTW calls exactly once; only imports, the logger and the class MIRP at module level.
Types: every parameter has a declared type (table METHODS, positional -- parameter NAMES are taken from the
source); locals get the type of the expression assigned to them.  int constants become nat for counters and
`inject_Z` where a number is expected.  Python names are printed with the prefix `v_`, temporaries are t<N>.

Public entry: translate() -> {"MirpGen.v": text}.
"""
import ast
import os
from collections import OrderedDict


class Rejected(Exception):
    pass


# ------------------------------------------------------------------------------------------
# types
# ------------------------------------------------------------------------------------------
class Cell:
    """element type of a list literal `[]`, fixed by its first use"""
    def __init__(self):
        self.t = None


def resolve(t):
    while isinstance(t, Cell) and t.t is not None:
        t = t.t
    if isinstance(t, tuple):
        return tuple(resolve(x) for x in t)
    return t


def unify(a, b):
    a, b = resolve(a), resolve(b)
    if isinstance(a, Cell):
        if a is not b:
            a.t = b
        return True
    if isinstance(b, Cell):
        b.t = a
        return True
    if isinstance(a, tuple) and isinstance(b, tuple):
        return len(a) == len(b) and all(unify(x, y) for x, y in zip(a, b))
    return a == b


QPAIR = ("pair", "Q", "Q")
COQ_TYPE = {"Q": "Q", "nat": "nat", "port": "nat", "name": "nname", "qext": "qext", "node": "mnode",
            "arc": "marc", "bool": "bool", "unit": "unit", "dist": "(list ((nat * nat) * Q))",
            "fees": "(list (nat * Q))", "graph": "mgraph"}


def coq_type(t):
    t = resolve(t)
    if isinstance(t, Cell):
        raise Rejected("the element type of a list literal is never determined")
    if isinstance(t, tuple):
        if t[0] == "list":
            return f"(list {coq_type(t[1])})"
        if t[0] == "pair":
            return f"({coq_type(t[1])} * {coq_type(t[2])})"
    if t in COQ_TYPE:
        return COQ_TYPE[t]
    raise Rejected(f"no Coq type for {t!r}")


def show(t):
    t = resolve(t)
    if isinstance(t, Cell):
        return "?"
    if isinstance(t, tuple):
        return t[0] + "[" + ",".join(show(x) for x in t[1:]) + "]"
    return str(t)


# method -> generated name, parameter types (positional, without self)
METHODS = OrderedDict([
    ("__init__", ("gen_init", ["Q", "Q"])),
    ("add_node", ("gen_add_node", ["name", "Q", QPAIR])),
    ("add_arc", ("gen_add_arc", ["name", "name", "Q", "Q"])),
    ("add_nodes", ("gen_add_nodes", ["port", "Q", "Q", "Q"])),
    ("add_travel_arcs", ("gen_add_travel_arcs", ["dist", "Q", "Q", "fees", "fees"])),
    ("add_entry_arcs", ("gen_add_entry_arcs", ["Q", "Q", "Q"])),
    ("add_exit_arcs", ("gen_add_exit_arcs", ["Q", "Q"])),
    ("estimate_high_cost", ("gen_estimate_high_cost", [])),
])

# attributes of self that are read as values: attribute -> (combinator, type)
SELF_READ = {
    "cargo_size": ("self_cargo_size", "Q"),
    "time_horizon": ("self_time_horizon", "Q"),
    "supply_ports": ("self_supply_ports", ("list", "port")),
    "demand_ports": ("self_demand_ports", ("list", "port")),
}
# fields that __init__ must store (field -> (setter, type)); `vrptw` must be VRPTW()
INIT_FIELDS = OrderedDict([
    ("cargo_size", ("self_set_cargo_size", "Q")),
    ("time_horizon", ("self_set_time_horizon", "Q")),
    ("supply_ports", ("self_set_supply_ports", ("list", "port"))),
    ("demand_ports", ("self_set_demand_ports", ("list", "port"))),
    ("port_mapping", ("self_set_port_mapping", "emptydict")),
    ("port_frequency", ("self_set_port_frequency", "emptydict")),
    ("vrptw", ("self_set_vrptw", "graph")),
])
# calls on self.vrptw that __init__ must make exactly once (what they do is defined in PyMirp.v)
INIT_VRPTW_CALLS = ("set_initial_loading", "set_vehicle_cap", "add_node", "set_depot")
# fields outside the model of Mirp.v: only a constant may be stored in them
UNMODELLED_FIELDS = {"routes_added", "abrp", "pbrp", "sbrp"}
# which part of the MIRP object a computation changes / an iterable aliases: a `for` loop must not change
# the list it iterates over (for_each evaluates the list once)
WRITES = {"vrptw_add_node": "nodes", "vrptw_add_node_default": "nodes", "gen_add_node": "nodes",
          "vrptw_add_arc": "arcs", "gen_add_arc": "arcs",
          "self_supply_ports_append": "ports", "self_demand_ports_append": "ports",
          "self_port_mapping_set": "pmap", "self_port_mapping_append": "pmap",
          "self_port_frequency_set": "pfreq"}
READS = {"self_supply_ports": "ports", "self_demand_ports": "ports", "self_port_mapping_get": "pmap",
         "vrptw_node_names": "nodes", "vrptw_arcs_values": "arcs", "self_port_frequency_values": "pfreq"}

CMP_Q = {ast.Gt: "q_gt", ast.Lt: "q_lt", ast.LtE: "q_le", ast.GtE: "q_ge", ast.Eq: "q_eq", ast.NotEq: "q_ne"}
CMP_EXT = {ast.Gt: "ext_gt_q", ast.Lt: "ext_lt_q", ast.LtE: "ext_le_q", ast.GtE: "ext_ge_q",
           ast.Eq: "ext_eq_q", ast.NotEq: "ext_ne_q"}
FLIP = {ast.Gt: ast.Lt, ast.Lt: ast.Gt, ast.LtE: ast.GtE, ast.GtE: ast.LtE, ast.Eq: ast.Eq, ast.NotEq: ast.NotEq}
CMP_NAT = {ast.Lt: "(Nat.ltb {a} {b})", ast.LtE: "(Nat.leb {a} {b})", ast.Gt: "(Nat.ltb {b} {a})",
           ast.GtE: "(Nat.leb {b} {a})", ast.Eq: "(Nat.eqb {a} {b})", ast.NotEq: "(negb (Nat.eqb {a} {b}))"}


def where(node):
    return f"line {getattr(node, 'lineno', '?')}"


def is_docstring(st):
    return isinstance(st, ast.Expr) and isinstance(st.value, ast.Constant) and isinstance(st.value.value, str)


def is_self(node):
    return isinstance(node, ast.Name) and node.id == "self"


def is_self_attr(node, attr=None):
    return isinstance(node, ast.Attribute) and is_self(node.value) and (attr is None or node.attr == attr)


def is_vrptw_attr(node, attr=None):
    """self.vrptw.<attr>"""
    return (isinstance(node, ast.Attribute) and is_self_attr(node.value, "vrptw")
            and (attr is None or node.attr == attr))


def is_logger_call(st):
    if not (isinstance(st, ast.Expr) and isinstance(st.value, ast.Call)):
        return False
    f = st.value.func
    if not (isinstance(f, ast.Attribute) and isinstance(f.value, ast.Name) and f.value.id == "logger"):
        return False
    for a in list(st.value.args) + [k.value for k in st.value.keywords]:
        if not isinstance(a, (ast.Constant, ast.Name)):
            raise Rejected(f"{where(st)}: a logging call may only take constants and plain names")
    return True


def assigned_names(stmts):
    """names (re)bound anywhere inside the statements: x = .., x += .., x.append(..), for x in .."""
    out = []

    def add(n):
        if n not in out:
            out.append(n)

    def target(t):
        if isinstance(t, ast.Name):
            add(t.id)
        elif isinstance(t, (ast.Tuple, ast.List)):
            for e in t.elts:
                target(e)
    for st in stmts:
        for n in ast.walk(st):
            if isinstance(n, ast.Assign):
                for t in n.targets:
                    target(t)
            elif isinstance(n, (ast.AugAssign, ast.AnnAssign)):
                target(n.target)
            elif isinstance(n, ast.For):
                target(n.target)
            elif isinstance(n, ast.NamedExpr):
                target(n.target)
            elif (isinstance(n, ast.Call) and isinstance(n.func, ast.Attribute) and isinstance(n.func.value, ast.Name)
                  and n.func.attr in ("append", "extend", "insert", "pop", "remove", "clear", "sort", "reverse")):
                add(n.func.value.id)
    return out


def strip_ignored(stmts):
    out = []
    for st in stmts:
        if is_docstring(st) or isinstance(st, ast.Pass) or is_logger_call(st):
            continue
        if isinstance(st, ast.AnnAssign) and st.value is None:
            continue
        out.append(st)
    return out


def terminates(stmts):
    stmts = strip_ignored(stmts)
    if not stmts:
        return False
    last = stmts[-1]
    if isinstance(last, (ast.Break, ast.Continue, ast.Return)):
        return True
    if isinstance(last, ast.If):
        return terminates(last.body) and terminates(last.orelse)
    return False


def contains_jump(stmts):
    for st in stmts:
        for n in ast.walk(st):
            if isinstance(n, (ast.Break, ast.Continue, ast.Return)):
                return True
    return False


def indent(text, n=2):
    pad = " " * n
    return "\n".join(pad + ln if ln else ln for ln in text.split("\n"))


class Var:
    def __init__(self, coq, ty, fresh=False, reads=()):
        self.coq = coq
        self.ty = ty
        self.fresh = fresh          # a list built by this method (a literal, a + b): .append on it is local
        self.reads = set(reads)     # parts of the object a list-valued local may alias


class Frame:
    """a loop body being lifted into its own definition"""
    def __init__(self, outer):
        self.outer = list(outer)     # names visible at loop entry that are not carried
        self.used = []


# ------------------------------------------------------------------------------------------
# one method
# ------------------------------------------------------------------------------------------
class Fn:
    def __init__(self, tr, fn, gen, ptypes):
        self.tr = tr
        self.fn = fn
        self.gen = gen
        self.ptypes = ptypes
        self.is_init = fn.name == "__init__"
        self.ntmp = 0
        self.nloop = 0
        self.lifted = []
        self.frames = []
        self.fuel = False
        self.ret_type = None
        self.for_depth = 0
        self.iterating = []          # parts of the object the enclosing `for` loops iterate over
        self.trace = []              # heads of the computations emitted so far
        self.cur = fn
        self.init_fields = []
        self.init_calls = []
        self.nils = []

    # ---- helpers ----
    def tmp(self):
        self.ntmp += 1
        return f"t{self.ntmp}"

    def use(self, name):
        for f in self.frames:
            if name in f.outer and name not in f.used:
                f.used.append(name)

    def lookup(self, node, env):
        if node.id not in env:
            raise Rejected(f"{where(node)}: unknown name {node.id!r}")
        self.use(node.id)
        return env[node.id]

    def coerce(self, term, ty, want, node):
        ty = resolve(ty)
        want_r = resolve(want)
        if ty == "int":
            v = int(term)
            if want_r == "Q":
                return f"(inject_Z ({v})%Z)"
            if want_r == "nat":
                if v < 0:
                    raise Rejected(f"{where(node)}: negative integer {v} where a counter is expected")
                return f"{v}%nat"
            raise Rejected(f"{where(node)}: integer constant {v} where {show(want)} is expected")
        if not unify(ty, want):
            raise Rejected(f"{where(node)}: expression of type {show(ty)} where {show(want)} is expected")
        return term

    def settle(self, term, ty, node):
        """type of a value stored in a local: an int constant is a counter"""
        if resolve(ty) == "int":
            return self.coerce(term, ty, "nat", node), "nat"
        return term, ty

    def effect(self, comp, node):
        """record a computation; refuse it when it changes something an enclosing `for` iterates over"""
        head = comp.split()[0]
        node = node if node is not None else self.cur
        self.trace.append(head)
        if head.startswith("gen_") and head not in WRITES:
            w = {"nodes", "arcs", "ports", "pmap", "pfreq"}
        else:
            w = {WRITES[head]} if head in WRITES else set()
        for it in self.iterating:
            if w & it:
                raise Rejected(f"{where(node)}: {head} changes the {sorted(w & it)} of the MIRP object while a `for` loop "
                               "iterates over them")

    def bindpre(self, pre, comp, ty, node=None):
        self.effect(comp, node)
        t = self.tmp()
        pre.append((t, comp))
        return t, ty

    def stmtpre(self, pre, comp, node):
        self.effect(comp, node)
        pre.append(("_", comp))

    @staticmethod
    def wrap(pre, body):
        for var, comp in reversed(pre):
            body = f"bind ({comp}) (fun {var} =>\n{body})"
        return body

    def args(self, call, types, env, pre):
        if call.keywords:
            raise Rejected(f"{where(call)}: keyword arguments are not supported")
        if len(call.args) != len(types):
            raise Rejected(f"{where(call)}: {len(call.args)} arguments, expected {len(types)}")
        out = []
        for a, ty in zip(call.args, types):
            if isinstance(a, ast.Starred):
                raise Rejected(f"{where(a)}: starred argument")
            t, aty = self.expr(a, env, pre)
            out.append(self.coerce(t, aty, ty, a))
        return out

    # ---- expressions ----
    def expr(self, e, env, pre):
        """-> (pure term, type); computations are appended to `pre` in evaluation order"""
        if hasattr(e, "lineno"):
            self.cur = e
        if isinstance(e, ast.Constant):
            v = e.value
            if isinstance(v, bool):
                return ("true" if v else "false"), "bool"
            if isinstance(v, int):
                return str(v), "int"
            if isinstance(v, str):
                if v == "Depot":
                    return "str_Depot", "name"
                raise Rejected(f"{where(e)}: string constant {v!r} is not a node name the model knows")
            raise Rejected(f"{where(e)}: constant {v!r}")
        if isinstance(e, ast.Name):
            v = self.lookup(e, env)
            return v.coq, v.ty
        if isinstance(e, ast.JoinedStr):
            return self.fstring(e, env, pre)
        if isinstance(e, ast.Attribute):
            return self.attribute(e, env, pre)
        if isinstance(e, ast.Subscript):
            return self.subscript(e, env, pre)
        if isinstance(e, ast.Call):
            return self.call(e, env, pre)
        if isinstance(e, ast.BinOp):
            return self.binop(e, env, pre)
        if isinstance(e, ast.UnaryOp):
            if isinstance(e.op, ast.USub):
                t, ty = self.expr(e.operand, env, pre)
                if resolve(ty) == "int":
                    return str(-int(t)), "int"
                if resolve(ty) == "Q":
                    return f"(- {t})%Q", "Q"
                raise Rejected(f"{where(e)}: unary minus on {show(ty)}")
            if isinstance(e.op, ast.Not):
                t, ty = self.expr(e.operand, env, pre)
                if resolve(ty) == "bool":
                    return f"(negb {t})", "bool"
                raise Rejected(f"{where(e)}: `not` on {show(ty)} (truthiness of non-booleans is not modelled)")
            raise Rejected(f"{where(e)}: unary operator {type(e.op).__name__}")
        if isinstance(e, ast.Compare):
            return self.compare(e, env, pre)
        if isinstance(e, ast.BoolOp):
            terms = []
            for k, v in enumerate(e.values):
                n0 = len(pre)
                t, ty = self.expr(v, env, pre)
                if resolve(ty) != "bool":
                    raise Rejected(f"{where(v)}: operand of and/or has type {show(ty)}")
                if k > 0 and len(pre) != n0:
                    raise Rejected(f"{where(v)}: a call inside the right operand of and/or (short-circuit evaluation)")
                terms.append(t)
            op = "andb" if isinstance(e.op, ast.And) else "orb"
            out = terms[-1]
            for t in reversed(terms[:-1]):
                out = f"({op} {t} {out})"
            return out, "bool"
        if isinstance(e, ast.List):
            if not e.elts:
                c = Cell()
                self.nils.append(c)
                return f"@@NIL{len(self.nils) - 1}@@", ("list", c)
            elts = [self.expr(x, env, pre) for x in e.elts]
            c = Cell()
            ts = []
            for (t, ty), x in zip(elts, e.elts):
                t, ty = self.settle(t, ty, x)
                ts.append(self.coerce(t, ty, c, x))
            return "[" + "; ".join(ts) + "]", ("list", c)
        if isinstance(e, ast.Tuple) and len(e.elts) == 2:
            a, aty = self.expr(e.elts[0], env, pre)
            b, bty = self.expr(e.elts[1], env, pre)
            if resolve(aty) == "int":
                a, aty = self.coerce(a, aty, "Q", e), "Q"
            if resolve(bty) == "int":
                b, bty = self.coerce(b, bty, "Q", e), "Q"
            return f"({a}, {b})", ("pair", aty, bty)
        if isinstance(e, (ast.GeneratorExp, ast.ListComp)):
            if len(e.generators) != 1:
                raise Rejected(f"{where(e)}: comprehension with several generators")
            g = e.generators[0]
            if g.ifs or g.is_async or not isinstance(g.target, ast.Name):
                raise Rejected(f"{where(e)}: only `f(x) for x in l` is supported")
            if g.target.id in env:
                raise Rejected(f"{where(e)}: the comprehension variable {g.target.id!r} shadows a local")
            it, ity = self.expr(g.iter, env, pre)
            ity = resolve(ity)
            if not (isinstance(ity, tuple) and ity[0] == "list"):
                raise Rejected(f"{where(e)}: comprehension over {show(ity)}")
            env2 = OrderedDict(env)
            v = Var("v_" + g.target.id, ity[1])
            env2[g.target.id] = v
            n0 = len(pre)
            t, ty = self.expr(e.elt, env2, pre)
            if len(pre) != n0:
                raise Rejected(f"{where(e)}: the element of a comprehension must not call anything that can raise")
            t, ty = self.settle(t, ty, e)
            return f"(map (fun {v.coq} => {t}) {it})", ("list", ty)
        raise Rejected(f"{where(e)}: expression {type(e).__name__} is not supported")

    def fstring(self, e, env, pre):
        parts = []
        for v in e.values:
            if isinstance(v, ast.Constant) and isinstance(v.value, str):
                parts.append(("s", v.value))
            elif isinstance(v, ast.FormattedValue) and v.conversion == -1 and v.format_spec is None:
                t, ty = self.expr(v.value, env, pre)
                parts.append(("v", t, resolve(ty)))
            else:
                raise Rejected(f"{where(e)}: f-string with a conversion or format specification")
        shape = [p[0] if p[0] == "v" else p[1] for p in parts]
        if shape == ["v", "-", "v"] and parts[0][2] == "port" and parts[2][2] == "nat":
            return f"(fmt_visit {parts[0][1]} {parts[2][1]})", "name"
        if shape == ["Dum", "v"] and parts[1][2] == "nat":
            return f"(fmt_dum {parts[1][1]})", "name"
        raise Rejected(f"{where(e)}: f-string is neither f\"{{port}}-{{k}}\" nor f\"Dum{{i}}\" "
                       f"(shape {shape}, types {[show(p[2]) for p in parts if p[0] == 'v']})")

    def attribute(self, e, env, pre):
        if is_self_attr(e):
            if e.attr in SELF_READ:
                comb, ty = SELF_READ[e.attr]
                return self.bindpre(pre, comb, ty)
            raise Rejected(f"{where(e)}: self.{e.attr} cannot be read as a value")
        if is_vrptw_attr(e, "depot_index"):
            return self.bindpre(pre, "vrptw_depot_index", "nat")
        if is_vrptw_attr(e, "node_names"):
            return self.bindpre(pre, "vrptw_node_names", ("list", "name"))
        raise Rejected(f"{where(e)}: attribute .{e.attr} is not supported here")

    def const_index(self, e):
        s = e.slice
        if isinstance(s, ast.UnaryOp) and isinstance(s.op, ast.USub) and isinstance(s.operand, ast.Constant) \
                and type(s.operand.value) is int:
            return -s.operand.value
        if isinstance(s, ast.Constant) and type(s.value) is int:
            return s.value
        return None

    def subscript(self, e, env, pre):
        if isinstance(e.slice, ast.Slice):
            raise Rejected(f"{where(e)}: slices are not supported")
        v = e.value
        if is_self_attr(v, "port_mapping"):
            k, kty = self.expr(e.slice, env, pre)
            k = self.coerce(k, kty, "port", e)
            return self.bindpre(pre, f"self_port_mapping_get {k}", ("list", "name"))
        if is_vrptw_attr(v, "node_names"):
            i, ity = self.expr(e.slice, env, pre)
            i = self.coerce(i, ity, "nat", e)
            return self.bindpre(pre, f"vrptw_node_names_get {i}", "name")
        if isinstance(v, ast.Attribute) and v.attr == "time_window" and not is_self(v.value):
            n, nty = self.expr(v.value, env, pre)
            if resolve(nty) != "node":
                raise Rejected(f"{where(e)}: .time_window of {show(nty)}")
            c = self.const_index(e)
            if c == 0:
                return f"(node_tw0 {n})", "Q"
            if c == 1:
                return f"(node_tw1 {n})", "qext"
            raise Rejected(f"{where(e)}: time_window index must be the constant 0 or 1")
        t, ty = self.expr(v, env, pre)
        ty = resolve(ty)
        if ty == "fees":
            k, kty = self.expr(e.slice, env, pre)
            k = self.coerce(k, kty, "port", e)
            return self.bindpre(pre, f"fees_get {t} {k}", "Q")
        if isinstance(ty, tuple) and ty[0] == "pair":
            c = self.const_index(e)
            if c == 0:
                return f"(fst {t})", ty[1]
            if c == 1:
                return f"(snd {t})", ty[2]
            raise Rejected(f"{where(e)}: tuple index must be the constant 0 or 1")
        if isinstance(ty, tuple) and ty[0] == "list":
            c = self.const_index(e)
            if c == -1:
                return self.bindpre(pre, f"py_last {self.term(t)}", ty[1])
            raise Rejected(f"{where(e)}: only l[-1] is supported on lists")
        raise Rejected(f"{where(e)}: subscript on {show(ty)}")

    def term(self, t):
        return t

    def finish(self, text):
        """a list literal `[]` is printed with the element type its uses determine"""
        for k, c in enumerate(self.nils):
            tok = f"@@NIL{k}@@"
            if tok in text:
                text = text.replace(tok, f"(@nil {coq_type(c)})")
        return text

    def call(self, e, env, pre):
        f = e.func
        # self.<method>(...)
        if is_self_attr(f):
            if f.attr == "get_time_window":
                a = self.args(e, ["nat", "Q", "Q", "Q"], env, pre)
                return self.bindpre(pre, "self_get_time_window " + " ".join(a), QPAIR)
            if f.attr in self.tr.done:
                gen, ptypes, rty, fuel = self.tr.done[f.attr]
                if fuel:
                    raise Rejected(f"{where(e)}: call of self.{f.attr}, which contains a `while True` loop")
                a = self.args(e, ptypes, env, pre)
                return self.bindpre(pre, (gen + " " + " ".join(a)).strip(), rty)
            raise Rejected(f"{where(e)}: call of self.{f.attr} (not one of the translated methods)")
        # self.vrptw.<method>(...)
        if is_vrptw_attr(f):
            m = f.attr
            if m == "add_node" and len(e.args) == 2:
                a = self.args(e, ["name", "Q"], env, pre)
                self.init_calls.append(m)
                return self.bindpre(pre, "vrptw_add_node_default " + " ".join(a), "unit")
            if m == "add_node":
                a = self.args(e, ["name", "Q", QPAIR], env, pre)
                return self.bindpre(pre, "vrptw_add_node " + " ".join(a), "unit")
            if m == "add_arc" and len(e.args) == 3:
                a = self.args(e, ["name", "name", "Q"], env, pre)
                return self.bindpre(pre, "vrptw_add_arc " + " ".join(a) + " (inject_Z (0)%Z)", "bool")
            if m == "add_arc":
                a = self.args(e, ["name", "name", "Q", "Q"], env, pre)
                return self.bindpre(pre, "vrptw_add_arc " + " ".join(a), "bool")
            if m == "get_node":
                a = self.args(e, ["name"], env, pre)
                return self.bindpre(pre, "vrptw_get_node " + a[0], "node")
            if m in ("set_depot",) and self.is_init:
                a = self.args(e, ["name"], env, pre)
                self.init_calls.append(m)
                return self.bindpre(pre, "vrptw_set_depot " + a[0], "unit")
            if m in ("set_initial_loading", "set_vehicle_cap") and self.is_init:
                a = self.args(e, ["Q"], env, pre)
                self.init_calls.append(m)
                return self.bindpre(pre, f"vrptw_{m} " + a[0], "unit")
            raise Rejected(f"{where(e)}: call of self.vrptw.{m} is not supported here")
        # self.vrptw.arcs.values(), self.port_frequency.values()
        if isinstance(f, ast.Attribute) and f.attr == "values" and not e.args and not e.keywords:
            if is_vrptw_attr(f.value, "arcs"):
                return self.bindpre(pre, "vrptw_arcs_values", ("list", "arc"))
            if is_self_attr(f.value, "port_frequency"):
                return self.bindpre(pre, "self_port_frequency_values", ("list", "Q"))
        # np.fabs(x)
        if isinstance(f, ast.Attribute) and isinstance(f.value, ast.Name) and f.value.id == "np" and "np" not in env:
            if f.attr == "fabs":
                a = self.args(e, ["Q"], env, pre)
                return f"(np_fabs {a[0]})", "Q"
            raise Rejected(f"{where(e)}: np.{f.attr} is not supported")
        # arc.get_cost(), arc.get_travel_time()
        if isinstance(f, ast.Attribute) and f.attr in ("get_cost", "get_travel_time") and not e.args and not e.keywords:
            t, ty = self.expr(f.value, env, pre)
            if resolve(ty) == "arc":
                return f"(arc_{f.attr} {t})", "Q"
            raise Rejected(f"{where(e)}: .{f.attr}() of {show(ty)}")
        if isinstance(f, ast.Name):
            if f.id in env:
                v = self.lookup(f, env)
                if resolve(v.ty) == "dist":
                    a = self.args(e, ["port", "port"], env, pre)
                    return self.bindpre(pre, f"dist_call {v.coq} " + " ".join(a), "Q")
                raise Rejected(f"{where(e)}: call of the local {f.id!r} of type {show(v.ty)}")
            if f.id in ("min", "max") and len(e.args) == 1 and not e.keywords:
                t, ty = self.expr(e.args[0], env, pre)
                t = self.coerce(self.term(t), ty, ("list", "Q"), e)
                return self.bindpre(pre, f"py_{f.id}_m {t}", "Q")
            if f.id == "product" and len(e.args) == 2 and not e.keywords:
                a, aty = self.expr(e.args[0], env, pre)
                b, bty = self.expr(e.args[1], env, pre)
                aty, bty = resolve(aty), resolve(bty)
                if not (isinstance(aty, tuple) and aty[0] == "list" and isinstance(bty, tuple) and bty[0] == "list"):
                    raise Rejected(f"{where(e)}: product of {show(aty)} and {show(bty)}")
                return f"(list_prod {self.term(a)} {self.term(b)})", ("list", ("pair", aty[1], bty[1]))
            raise Rejected(f"{where(e)}: call of {f.id} is not supported")
        raise Rejected(f"{where(e)}: call is not supported: {ast.dump(f)[:100]}")

    def binop(self, e, env, pre):
        a, aty = self.expr(e.left, env, pre)
        b, bty = self.expr(e.right, env, pre)
        aty, bty = resolve(aty), resolve(bty)
        num = {"Q", "int"}
        if aty in num and bty in num and (aty == "Q" or bty == "Q"):
            a = self.coerce(a, aty, "Q", e)
            b = self.coerce(b, bty, "Q", e)
            if isinstance(e.op, ast.Add):
                return f"({a} + {b})%Q", "Q"
            if isinstance(e.op, ast.Sub):
                return f"({a} - {b})%Q", "Q"
            if isinstance(e.op, ast.Mult):
                return f"({a} * {b})%Q", "Q"
            if isinstance(e.op, ast.Div):
                return self.bindpre(pre, f"q_div {a} {b}", "Q")
            raise Rejected(f"{where(e)}: operator {type(e.op).__name__} on numbers")
        if aty == "nat" and bty in ("nat", "int"):
            b = self.coerce(b, bty, "nat", e)
            if isinstance(e.op, ast.Add):
                return f"({a} + {b})%nat", "nat"
            if isinstance(e.op, ast.Mult):
                return f"({a} * {b})%nat", "nat"
            raise Rejected(f"{where(e)}: operator {type(e.op).__name__} on counters")
        if isinstance(aty, tuple) and aty[0] == "list" and isinstance(bty, tuple) and bty[0] == "list" \
                and isinstance(e.op, ast.Add):
            if not unify(aty, bty):
                raise Rejected(f"{where(e)}: + of {show(aty)} and {show(bty)}")
            return f"({self.term(a)} ++ {self.term(b)})", aty
        raise Rejected(f"{where(e)}: operator {type(e.op).__name__} on {show(aty)} and {show(bty)}")

    def compare(self, e, env, pre):
        if len(e.ops) != 1:
            raise Rejected(f"{where(e)}: chained comparison")
        op = type(e.ops[0])
        a, aty = self.expr(e.left, env, pre)
        b, bty = self.expr(e.comparators[0], env, pre)
        aty, bty = resolve(aty), resolve(bty)
        num = {"Q", "int"}
        if op not in CMP_Q:
            raise Rejected(f"{where(e)}: comparison operator {op.__name__}")
        if aty in num and bty in num and (aty == "Q" or bty == "Q"):
            return f"({CMP_Q[op]} {self.coerce(a, aty, 'Q', e)} {self.coerce(b, bty, 'Q', e)})", "bool"
        if aty == "qext" and bty in num:
            return f"({CMP_EXT[op]} {a} {self.coerce(b, bty, 'Q', e)})", "bool"
        if bty == "qext" and aty in num:
            return f"({CMP_EXT[FLIP[op]]} {b} {self.coerce(a, aty, 'Q', e)})", "bool"
        if aty == "nat" and bty in ("nat", "int"):
            return CMP_NAT[op].format(a=a, b=self.coerce(b, bty, "nat", e)), "bool"
        if aty == "name" and bty == "name" and op in (ast.Eq, ast.NotEq):
            return f"({'name_eq' if op is ast.Eq else 'name_ne'} {a} {b})", "bool"
        raise Rejected(f"{where(e)}: comparison {op.__name__} of {show(aty)} and {show(bty)}")

    # ---- statements ----
    @staticmethod
    def tuple_val(names, env):
        if not names:
            return "tt"
        if len(names) == 1:
            return env[names[0]].coq
        return "(" + ", ".join(env[n].coq for n in names) + ")"

    @staticmethod
    def tuple_pat(names, env):
        if not names:
            return "_"
        if len(names) == 1:
            return env[names[0]].coq
        return "'(" + ", ".join(env[n].coq for n in names) + ")"

    @staticmethod
    def tuple_type(names, env):
        if not names:
            return "unit"
        if len(names) == 1:
            return coq_type(env[names[0]].ty)
        return "(" + " * ".join(coq_type(env[n].ty) for n in names) + ")"

    def jump(self, kind, st, env, loop):
        if loop is None:
            raise Rejected(f"{where(st)}: `{kind.lower()}` outside a loop")
        for n in loop["carried"]:
            self.use(n)
            if not unify(env[n].ty, loop["types"][n]):
                raise Rejected(f"{where(st)}: {n!r} changes its type inside the loop")
        return f"ret ({kind} {self.tuple_val(loop['carried'], env)})"

    def bind_local(self, env, name, ty, node, fresh=False, reads=()):
        env2 = OrderedDict(env)
        if name in env2:
            if not unify(env2[name].ty, ty):
                raise Rejected(f"{where(node)}: {name!r} is re-assigned with type {show(ty)}, was {show(env2[name].ty)}")
            env2[name] = Var(env2[name].coq, env2[name].ty, fresh, reads)
        else:
            env2[name] = Var("v_" + name, ty, fresh, reads)
        return env2

    def block(self, stmts, env, tail, loop):
        stmts = strip_ignored(stmts)
        if not stmts:
            return tail(env)
        st, rest = stmts[0], stmts[1:]

        def cont(env2):
            return self.block(rest, env2, tail, loop)

        if isinstance(st, (ast.Break, ast.Continue)):
            if rest:
                raise Rejected(f"{where(rest[0])}: statement after break/continue")
            return self.jump("Break" if isinstance(st, ast.Break) else "Continue", st, env, loop)
        if isinstance(st, ast.Return):
            if rest:
                raise Rejected(f"{where(rest[0])}: statement after return")
            if loop is not None or self.frames:
                raise Rejected(f"{where(st)}: return inside a loop")
            pre = []
            if st.value is None:
                t, ty = "tt", "unit"
            else:
                t, ty = self.expr(st.value, env, pre)
                t, ty = self.settle(self.term(t), ty, st)
            if self.ret_type is None:
                self.ret_type = ty
            elif not unify(self.ret_type, ty):
                raise Rejected(f"{where(st)}: returns {show(ty)}, elsewhere {show(self.ret_type)}")
            return self.wrap(pre, f"ret {t}")
        if isinstance(st, ast.AnnAssign):
            st = ast.copy_location(ast.Assign(targets=[st.target], value=st.value), st)
        if isinstance(st, ast.AugAssign):
            if isinstance(st.target, ast.Name) and st.target.id in env:
                tv = env[st.target.id]
                if isinstance(resolve(tv.ty), tuple) and not tv.fresh:
                    raise Rejected(f"{where(st)}: in-place `+=` on {st.target.id!r}, which may be a list of the MIRP object")
            st = ast.copy_location(
                ast.Assign(targets=[st.target],
                           value=ast.copy_location(ast.BinOp(left=self.as_load(st.target), op=st.op, right=st.value), st)), st)
        if isinstance(st, ast.Assign):
            return self.assign(st, env, cont)
        if isinstance(st, ast.Expr) and isinstance(st.value, ast.Call):
            return self.call_stmt(st, env, cont)
        if isinstance(st, ast.If):
            return self.if_stmt(st, rest, env, tail, loop)
        if isinstance(st, ast.While):
            return self.while_stmt(st, env, cont)
        if isinstance(st, ast.For):
            return self.for_stmt(st, env, cont)
        raise Rejected(f"{where(st)}: statement {type(st).__name__} is not supported")

    @staticmethod
    def as_load(t):
        if isinstance(t, ast.Name):
            return ast.copy_location(ast.Name(id=t.id, ctx=ast.Load()), t)
        raise Rejected(f"{where(t)}: augmented assignment to something that is not a local name")

    def assign(self, st, env, cont):
        if len(st.targets) != 1:
            raise Rejected(f"{where(st)}: chained assignment")
        tgt = st.targets[0]
        pre = []
        if isinstance(tgt, ast.Name):
            if tgt.id == "self":
                raise Rejected(f"{where(st)}: assignment to self")
            n0 = len(self.trace)
            t, ty = self.expr(st.value, env, pre)
            t, ty = self.settle(t, ty, st)
            rty = resolve(ty)
            is_list = isinstance(rty, tuple) and rty[0] == "list"
            if is_list and isinstance(st.value, ast.Name):
                raise Rejected(f"{where(st)}: a second name for the list {st.value.id!r} (aliasing of lists is not modelled)")
            fresh = is_list and isinstance(st.value, (ast.List, ast.ListComp, ast.BinOp))
            reads = {READS[h] for h in self.trace[n0:] if h in READS} if is_list and not fresh else set()
            env2 = self.bind_local(env, tgt.id, ty, st, fresh, reads)
            v = env2[tgt.id].coq
            if pre and pre[-1][0] == t:
                pre[-1] = (v, pre[-1][1])                 # x = <computation>: bind it under its own name
                return self.wrap(pre, cont(env2))
            return self.wrap(pre, f"let {v} := {self.term(t)} in\n{cont(env2)}")
        if is_self_attr(tgt):
            if not self.is_init:
                raise Rejected(f"{where(st)}: assignment to self.{tgt.attr} outside __init__")
            return self.init_field(st, tgt.attr, env, cont)
        if isinstance(tgt, ast.Subscript) and is_self_attr(tgt.value, "port_mapping"):
            if not (isinstance(st.value, ast.List) and not st.value.elts):
                raise Rejected(f"{where(st)}: only `self.port_mapping[k] = []` is supported")
            k, kty = self.expr(tgt.slice, env, pre)
            self.stmtpre(pre, f"self_port_mapping_set {self.coerce(k, kty, 'port', st)} []", st)
            return self.wrap(pre, cont(env))
        if isinstance(tgt, ast.Subscript) and is_self_attr(tgt.value, "port_frequency"):
            t, ty = self.expr(st.value, env, pre)
            t = self.coerce(t, ty, "Q", st)
            k, kty = self.expr(tgt.slice, env, pre)
            self.stmtpre(pre, f"self_port_frequency_set {self.coerce(k, kty, 'port', st)} {t}", st)
            return self.wrap(pre, cont(env))
        raise Rejected(f"{where(st)}: assignment target is not supported")

    def init_field(self, st, field, env, cont):
        pre = []
        v = st.value
        if field in UNMODELLED_FIELDS:
            if not (isinstance(v, ast.Constant) and (v.value is None or isinstance(v.value, bool))):
                raise Rejected(f"{where(st)}: self.{field} (outside the model) must be set to None/True/False")
            return cont(env)
        if field not in INIT_FIELDS:
            raise Rejected(f"{where(st)}: self.{field} is not a field the model knows")
        setter, fty = INIT_FIELDS[field]
        if fty == "emptydict":
            ok = (isinstance(v, ast.Call) and isinstance(v.func, ast.Name) and v.func.id == "dict" and "dict" not in env
                  and not v.args and not v.keywords) or (isinstance(v, ast.Dict) and not v.keys)
            if not ok:
                raise Rejected(f"{where(st)}: self.{field} must be initialised with dict() or {{}}")
            term = "[]"
        elif fty == "graph":
            ok = (isinstance(v, ast.Call) and isinstance(v.func, ast.Name) and v.func.id == "VRPTW" and "VRPTW" not in env
                  and not v.args and not v.keywords)
            if not ok:
                raise Rejected(f"{where(st)}: self.vrptw must be initialised with VRPTW()")
            term = "vrptw_new"
        else:
            if isinstance(resolve(fty), tuple) and not (isinstance(v, ast.List) and not v.elts):
                raise Rejected(f"{where(st)}: self.{field} must be initialised with []")
            t, ty = self.expr(v, env, pre)
            term = self.coerce(t, ty, fty, st)
        self.init_fields.append(field)
        self.stmtpre(pre, f"{setter} {term}", st)
        return self.wrap(pre, cont(env))

    def call_stmt(self, st, env, cont):
        c = st.value
        f = c.func
        pre = []
        if isinstance(f, ast.Attribute) and f.attr == "append" and len(c.args) == 1 and not c.keywords:
            obj = f.value
            if isinstance(obj, ast.Name) and obj.id != "self":
                v = self.lookup(obj, env)
                ty = resolve(v.ty)
                if not (isinstance(ty, tuple) and ty[0] == "list"):
                    raise Rejected(f"{where(st)}: .append on {show(ty)}")
                if not v.fresh:
                    raise Rejected(f"{where(st)}: .append on {obj.id!r}, which may be a list of the MIRP object "
                                   "(only lists built by the method itself can be appended to as locals)")
                t, ety = self.expr(c.args[0], env, pre)
                t, ety = self.settle(t, ety, st)
                t = self.coerce(t, ety, ty[1], st)
                env2 = self.bind_local(env, obj.id, v.ty, st, True)
                return self.wrap(pre, f"let {v.coq} := ({v.coq} ++ [{t}]) in\n{cont(env2)}")
            if is_self_attr(obj) and obj.attr in ("supply_ports", "demand_ports"):
                t, ety = self.expr(c.args[0], env, pre)
                self.stmtpre(pre, f"self_{obj.attr}_append {self.coerce(t, ety, 'port', st)}", st)
                return self.wrap(pre, cont(env))
            if isinstance(obj, ast.Subscript) and is_self_attr(obj.value, "port_mapping"):
                # self.port_mapping[k] is evaluated first (KeyError), then the argument, then the append
                k, kty = self.expr(obj.slice, env, pre)
                k = self.coerce(k, kty, "port", st)
                self.stmtpre(pre, f"self_port_mapping_get {k}", st)
                t, ety = self.expr(c.args[0], env, pre)
                self.stmtpre(pre, f"self_port_mapping_append {k} {self.coerce(t, ety, 'name', st)}", st)
                return self.wrap(pre, cont(env))
            raise Rejected(f"{where(st)}: .append on this object is not supported")
        n0 = len(pre)
        t, ty = self.expr(c, env, pre)
        if len(pre) == n0 or pre[-1][0] != t:
            raise Rejected(f"{where(st)}: expression statement without effect")
        pre[-1] = ("_", pre[-1][1])
        return self.wrap(pre, cont(env))

    def if_stmt(self, st, rest, env, tail, loop):
        pre = []
        c, cty = self.expr(st.test, env, pre)
        if resolve(cty) != "bool":
            raise Rejected(f"{where(st)}: the test has type {show(cty)} (truthiness of non-booleans is not modelled)")
        t_body, t_else = terminates(st.body), terminates(st.orelse)

        def dead(_env):
            raise Rejected(f"{where(st)}: internal: a terminating branch fell through")
        if t_body or t_else:
            if t_body and t_else:
                if strip_ignored(rest):
                    raise Rejected(f"{where(rest[0])}: unreachable statement")
                a = self.block(st.body, env, dead, loop)
                b = self.block(st.orelse, env, dead, loop)
            elif t_body:
                a = self.block(st.body, env, dead, loop)
                b = self.block(list(st.orelse) + list(rest), env, tail, loop)
            else:
                a = self.block(list(st.body) + list(rest), env, tail, loop)
                b = self.block(st.orelse, env, dead, loop)
            return self.wrap(pre, f"if {c}\nthen\n{indent(a)}\nelse\n{indent(b)}")
        if contains_jump(st.body) or contains_jump(st.orelse):
            raise Rejected(f"{where(st)}: break/continue/return nested inside a branch that can also fall through")
        # both branches fall through: the locals they (re)assign are joined
        an, bn = assigned_names(st.body), assigned_names(st.orelse)
        joined = [n for n in list(env) + [x for x in an if x not in env]
                  if (n in an or n in bn) and (n in env or (n in an and n in bn))]
        envs = []

        def leave(env2):
            for n in joined:
                if n in env:
                    self.use(n)
            envs.append(env2)
            missing = [n for n in joined if n not in env2]
            if missing:
                raise Rejected(f"{where(st)}: internal: {missing} not bound at the end of a branch")
            return f"ret {self.tuple_val(joined, env2)}"
        a = self.block(st.body, env, leave, None)
        b = self.block(st.orelse, env, leave, None)
        env3 = OrderedDict(env)
        for n in joined:
            tys = [e2[n].ty for e2 in envs]
            for t2 in tys[1:]:
                if not unify(tys[0], t2):
                    raise Rejected(f"{where(st)}: {n!r} has type {show(tys[0])} in one branch and {show(t2)} in the other")
            if n in env and not unify(env[n].ty, tys[0]):
                raise Rejected(f"{where(st)}: {n!r} changes its type in a branch")
            env3[n] = Var(env[n].coq if n in env else "v_" + n, tys[0], all(e2[n].fresh for e2 in envs),
                          set().union(*[e2[n].reads for e2 in envs]))
        body = (f"bind (if {c}\n      then\n{indent(a, 8)}\n      else\n{indent(b, 8)})\n"
                f"(fun {self.tuple_pat(joined, env3)} =>\n{self.block(rest, env3, tail, loop)})")
        return self.wrap(pre, body)

    def lift(self, kind, st, env, carried, elem):
        """translate a loop body into its own definition; returns (name of the definition applied to the
        variables it uses, element pattern info)"""
        self.nloop += 1
        name = f"{self.gen}_loop{self.nloop}"
        outer = [n for n in env if n not in carried]
        frame = Frame(outer)
        self.frames.append(frame)
        body_env = OrderedDict(env)
        header = []
        if elem is not None:
            names, tys = elem
            for n, ty in zip(names, tys):
                body_env[n] = Var("v_" + n, ty)
        loopinfo = {"carried": carried, "types": {n: env[n].ty for n in carried}}
        body = self.block(st.body, body_env, lambda e2: self.jump("Continue", st, e2, loopinfo), loopinfo)
        self.frames.pop()
        params = [n for n in env if n in frame.used]
        for n in params:
            self.use(n)
        for n in carried:
            self.use(n)
        self.lifted.append({"name": name, "kind": kind, "params": [(env[n].coq, env[n].ty) for n in params],
                            "elem": None if elem is None else [("v_" + n, ty) for n, ty in zip(*elem)],
                            "carried": [(env[n].coq, env[n].ty) for n in carried], "body": body, "line": st.lineno})
        return (name + " " + " ".join(env[n].coq for n in params)).strip()

    def while_stmt(self, st, env, cont):
        if not (isinstance(st.test, ast.Constant) and st.test.value is True) or st.orelse:
            raise Rejected(f"{where(st)}: only `while True:` without else is supported")
        if self.for_depth or self.frames:
            raise Rejected(f"{where(st)}: `while True` nested inside another loop")
        self.fuel = True
        carried = [n for n in env if n in assigned_names(st.body)]
        applied = self.lift("while", st, env, carried, None)
        return (f"bind (while_true fuel ({applied}) {self.tuple_val(carried, env)})\n"
                f"(fun {self.tuple_pat(carried, env)} =>\n{cont(env)})")

    def for_stmt(self, st, env, cont):
        if st.orelse:
            raise Rejected(f"{where(st)}: for ... else")
        pre = []
        n0 = len(self.trace)
        it, ity = self.expr(st.iter, env, pre)
        reads = {READS[h] for h in self.trace[n0:] if h in READS}
        for n in ast.walk(st.iter):
            if isinstance(n, ast.Name) and n.id in env:
                reads |= env[n.id].reads
        ity = resolve(ity)
        if not (isinstance(ity, tuple) and ity[0] == "list"):
            raise Rejected(f"{where(st)}: iteration over {show(ity)}")
        ety = resolve(ity[1])
        if isinstance(st.target, ast.Name):
            names, tys = [st.target.id], [ety]
        elif isinstance(st.target, ast.Tuple) and all(isinstance(x, ast.Name) for x in st.target.elts) \
                and len(st.target.elts) == 2 and isinstance(ety, tuple) and ety[0] == "pair":
            names, tys = [x.id for x in st.target.elts], [ety[1], ety[2]]
        else:
            raise Rejected(f"{where(st)}: loop target must be a name, or a pair of names over a list of pairs")
        for n in names:
            if n in env or n == "self":
                raise Rejected(f"{where(st)}: the loop variable {n!r} re-binds an existing local")
        carried = [n for n in env if n in assigned_names(st.body)]
        if isinstance(st.iter, ast.Name) and st.iter.id in carried:
            raise Rejected(f"{where(st)}: the list being iterated is changed by the loop body")
        self.for_depth += 1
        self.iterating.append(reads)
        applied = self.lift("for", st, env, carried, (names, tys))
        self.iterating.pop()
        self.for_depth -= 1
        body = (f"bind (for_each {self.term(it)} ({applied}) {self.tuple_val(carried, env)})\n"
                f"(fun {self.tuple_pat(carried, env)} =>\n{cont(env)})")
        return self.wrap(pre, body)

    # ---- the whole method ----
    def translate(self):
        fn = self.fn
        a = fn.args
        if a.vararg or a.kwarg or a.kwonlyargs or a.posonlyargs or fn.decorator_list:
            raise Rejected(f"{fn.name} {where(fn)}: unsupported signature / decorator")
        names = [x.arg for x in a.args]
        if not names or names[0] != "self" or len(names) - 1 != len(self.ptypes):
            raise Rejected(f"{fn.name} {where(fn)}: parameters {names}, expected self and {len(self.ptypes)} more")
        if len(set(names)) != len(names):
            raise Rejected(f"{fn.name}: duplicate parameter")
        env = OrderedDict()
        for n, ty in zip(names[1:], self.ptypes):
            env[n] = Var("v_" + n, ty)
        defaults = []
        for d in a.defaults:
            t, ty = self.expr(d, OrderedDict(), [])
            defaults.append(self.coerce(t, ty, "Q", d))

        def fall_off(_env):
            if self.ret_type is None:
                self.ret_type = "unit"
            elif not unify(self.ret_type, "unit"):
                raise Rejected(f"{fn.name}: falls off the end but also returns {show(self.ret_type)}")
            return "ret tt"
        body = self.block(fn.body, env, fall_off, None)
        if self.is_init:
            missing = [f for f in INIT_FIELDS if f not in self.init_fields]
            twice = [f for f in INIT_FIELDS if self.init_fields.count(f) > 1]
            if missing or twice:
                raise Rejected(f"__init__: fields not stored {missing}, stored twice {twice}")
            for m in INIT_VRPTW_CALLS:
                if self.init_calls.count(m) != 1:
                    raise Rejected(f"__init__: expected exactly one call of self.vrptw.{m}, found {self.init_calls.count(m)}")
        out = []
        for d in self.lifted:
            ps = "".join(f" ({c} : {coq_type(t)})" for c, t in d["params"])
            lets = []
            if d["elem"] is not None:
                if len(d["elem"]) == 1:
                    ps += f" ({d['elem'][0][0]} : {coq_type(d['elem'][0][1])})"
                else:
                    ps += " (x_ : " + " * ".join(coq_type(t) for _, t in d["elem"]) + ")"
                    lets.append("let '(" + ", ".join(c for c, _ in d["elem"]) + ") := x_ in")
            car = d["carried"]
            if not car:
                cty = "unit"
                ps += " (c_ : unit)"
            elif len(car) == 1:
                cty = coq_type(car[0][1])
                ps += f" ({car[0][0]} : {cty})"
            else:
                cty = "(" + " * ".join(coq_type(t) for _, t in car) + ")"
                ps += f" (c_ : {cty})"
                lets.append("let '(" + ", ".join(c for c, _ in car) + ") := c_ in")
            text = "\n".join(lets + [d["body"]])
            out.append(f"(* body of the `{d['kind']}` loop at line {d['line']} of {fn.name} *)\n"
                       f"Definition {d['name']}{ps} : M (ctl {cty}) :=\n{indent(text)}.\n")
        ps = "".join(f" ({v.coq} : {coq_type(v.ty)})" for v in env.values())
        if self.fuel:
            ps = " (fuel : nat)" + ps
        out.append(f"(* {fn.name}, line {fn.lineno} *)\n"
                   f"Definition {self.gen}{ps} : M {coq_type(self.ret_type)} :=\n{indent(body)}.\n")
        if a.defaults:
            out.append(f"(* default values of the last {len(defaults)} parameter(s) of {fn.name} *)\n"
                       f"Definition {self.gen}_defaults : list Q := [" + "; ".join(defaults) + "].\n")
        return self.finish("\n".join(out))


# ------------------------------------------------------------------------------------------
# the module
# ------------------------------------------------------------------------------------------
class Translator:
    def __init__(self):
        self.done = {}

    def translate_source(self, src, origin="applications/mirp.py"):
        try:
            tree = ast.parse(src)
        except SyntaxError as e:
            raise Rejected(f"syntax error: {e}")
        have_np = have_product = have_vrptw = False
        classes = []
        for n in tree.body:
            if is_docstring(n):
                continue
            if isinstance(n, ast.Import):
                for al in n.names:
                    if al.name == "numpy" and al.asname == "np":
                        have_np = True
                    elif (al.asname or al.name) in ("np", "product", "VRPTW", "min", "max", "dict"):
                        raise Rejected(f"{where(n)}: import rebinds {(al.asname or al.name)!r}")
                continue
            if isinstance(n, ast.ImportFrom):
                for al in n.names:
                    bound = al.asname or al.name
                    if n.module == "itertools" and al.name == "product" and al.asname is None:
                        have_product = True
                    elif n.level == 2 and n.module == "routing_problem" and al.name == "VRPTW" and al.asname is None:
                        have_vrptw = True
                    elif bound in ("np", "product", "VRPTW", "min", "max", "dict", "logger"):
                        raise Rejected(f"{where(n)}: import rebinds {bound!r}")
                continue
            if isinstance(n, ast.Assign) and len(n.targets) == 1 and isinstance(n.targets[0], ast.Name) \
                    and n.targets[0].id == "logger":
                continue
            if isinstance(n, ast.ClassDef):
                classes.append(n)
                continue
            raise Rejected(f"{where(n)}: module-level statement {type(n).__name__} (only imports, the logger and classes are accepted)")
        if not (have_np and have_product and have_vrptw):
            raise Rejected("expected `import numpy as np`, `from itertools import product` and "
                           "`from ..routing_problem import VRPTW`")
        cls = [c for c in classes if c.name == "MIRP"]
        if len(cls) != 1 or len(classes) != 1:
            raise Rejected(f"expected exactly the class MIRP, found {[c.name for c in classes]}")
        cls = cls[0]
        if cls.bases or cls.keywords or cls.decorator_list:
            raise Rejected("class MIRP has bases / decorators")
        methods = {}
        for n in cls.body:
            if is_docstring(n):
                continue
            if isinstance(n, ast.FunctionDef):
                if n.name in methods:
                    raise Rejected(f"MIRP.{n.name} defined twice")
                methods[n.name] = n
                continue
            raise Rejected(f"{where(n)}: class member {type(n).__name__}")
        out = [f"(* GENERATED by harness/translate_mirp.py from {origin} -- do not edit.",
               "   One definition per translated method of class MIRP and per loop body; see coq/theories/PyMirp.v",
               "   for the meaning of the combinators. *)",
               "From Coq Require Import QArith List.",
               "From VQ Require Import Base Mirp MirpWrap PyMirp.",
               "Import ListNotations.",
               ""]
        for mname, (gen, ptypes) in METHODS.items():
            if mname not in methods:
                raise Rejected(f"MIRP.{mname} not found")
            f = Fn(self, methods[mname], gen, ptypes)
            try:
                out.append(f.translate())
            except Rejected as e:
                raise Rejected(f"MIRP.{mname}: {e}")
            self.done[mname] = (gen, ptypes, f.ret_type, f.fuel)
        out.append("(* the operations as one record (PyMirp.mirp_ops) *)\n"
                   "Definition gen_ops : mirp_ops :=\n"
                   "  mkOps gen_init gen_add_nodes gen_add_travel_arcs gen_add_exit_arcs gen_add_entry_arcs.\n")
        return "\n".join(out)


def source_path():
    from vq import core
    return os.path.join(core.REPO, "src/vrpqubo/applications/mirp.py")


def translate():
    """{"MirpGen.v": text} for the tree under test; raises Rejected."""
    p = source_path()
    with open(p) as fh:
        src = fh.read()
    return OrderedDict([("MirpGen.v", Translator().translate_source(src, origin=p))])


if __name__ == "__main__":
    import sys
    print(Translator().translate_source(open(sys.argv[1]).read(), origin=sys.argv[1]))
