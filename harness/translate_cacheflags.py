"""translate_cacheflags.py -- prints the cache-relevant control skeleton of the formulation classes  [C14]

For every method of ArcBasedRoutingProblem, SequenceBasedRoutingProblem, PathBasedRoutingProblem and of their
base class RoutingProblem (working tree under test, `core.REPO`) the translator walks the `ast` and prints a
term of type `PyCache.skel` (coq/theories/PyCache.v): the control structure of the method (sequence, branch,
loop, try, return / break / continue / raise) with, as leaves, everything the method does to `self`:

    if self.x: A else: B / if not self.x: ...   PIfFlag "x" A B          (x alone is the condition)
    self.x = True / False                       PInitB "x" b
    self.x = <other expr>                       PInit "x"                (after the events of <expr>)
    self.x[k] = v, self.x[k] += v, self.x += v, self.x.y = v, del self.x[k]
                                                PUpd "x"
    self.x loaded (also inside any expression)  PRead "x"
    self.x.m(...), self.x[k].m(...), ...        PMeth "x" "m"            (what m does is classified in Coq)
    f(self.x) for a free function f             PMeth "x" "fn:f"
    self.m(a1, ...) / super().m(a1, ...)        PCall "m" [alias of a1; ...] / PSuper ...
    p[k] = v, p.m(...) for a parameter p        PUpdP n / PMethP n "m"   (resolved at the call sites)
    statement without any of these              POther

The translator knows NOTHING about which attribute is a flag, a cache or data, nor about which methods are
builders or queries: it prints every access to every attribute of self.  The classification (roles), the trace
semantics, the discipline and its decision procedure are Coq definitions (PyCache.v), and
coq/genprops/C14_gen.v proves the discipline for the printed table.

Aliases: a local name bound to `self.x`, `self.x[...]`, `self.x.y` (no call in between), to a loop variable
ranging over such an expression, or to a parameter is treated as (part of) that object: an in-place change
through the name is printed as a change of `self.x` / of the parameter (flow-insensitive).  Objects returned by
calls are not followed.

Ignored: docstrings, comments, `logger.*(...)` calls, annotations, `pass`.
Rejected (fail closed): `self` passed to a function other than type/isinstance/id/super, `self` stored in a
container or returned, getattr/setattr/delattr/vars/__dict__ on self, `del self.x`, nested def / class using
self, decorators other than the `@property` forwarders of RoutingProblem, for/while-else, try-finally,
*args/**kwargs parameters, keyword arguments of a self-call that alias an attribute, walrus, yield, await,
match.
"""
import ast
import os
from collections import OrderedDict

from vq import core

FILES = OrderedDict([
    ("base", ("src/vrpqubo/routing_problem/routing_problem.py", "RoutingProblem")),
    ("arc", ("src/vrpqubo/routing_problem/formulations/arc_based_rp.py", "ArcBasedRoutingProblem")),
    ("seq", ("src/vrpqubo/routing_problem/formulations/sequence_based_rp.py", "SequenceBasedRoutingProblem")),
    ("path", ("src/vrpqubo/routing_problem/formulations/path_based_rp.py", "PathBasedRoutingProblem")),
])
SELF_OK_FUNCS = {"type", "isinstance", "id"}
FORBIDDEN_FUNCS = {"getattr", "setattr", "delattr", "vars", "hasattr", "eval", "exec", "locals", "globals"}


class Rejected(Exception):
    pass


_NAMES = OrderedDict()      # string literal -> Coq identifier (each literal is defined once: small terms)


def _s(x):
    if x not in _NAMES:
        ident = "n_" + "".join(ch if ch.isalnum() else "_" for ch in x)
        while ident in _NAMES.values():
            ident += "'"
        _NAMES[x] = ident
    return _NAMES[x]


def _lit(x):
    return '"' + x.replace('"', '""') + '"'


def _is_self(e):
    return isinstance(e, ast.Name) and e.id == "self"


def _self_attr(e):
    """self.x -> 'x' else None"""
    if isinstance(e, ast.Attribute) and _is_self(e.value):
        return e.attr
    return None


def _mentions_self(node):
    return any(_is_self(n) for n in ast.walk(node))


class Fn:
    """translation of one method"""

    def __init__(self, fdef, cls):
        self.f = fdef
        self.where = f"{cls}.{fdef.name}"
        a = fdef.args
        if a.vararg or a.kwarg or a.kwonlyargs or a.posonlyargs:
            raise Rejected(f"{self.where}: *args / **kwargs / keyword-only parameters")
        names = [x.arg for x in a.args]
        if not names or names[0] != "self":
            raise Rejected(f"{self.where}: first parameter is not self")
        self.params = names[1:]
        # name -> set of ('attr', x) / ('param', n)
        self.alias = {p: {("param", n)} for n, p in enumerate(self.params)}
        changed = True
        while changed:              # flow-insensitive closure
            changed = False
            for node in ast.walk(fdef):
                pairs = []
                if isinstance(node, ast.Assign):
                    pairs = [(t, node.value) for t in node.targets]
                elif isinstance(node, ast.AnnAssign) and node.value is not None:
                    pairs = [(node.target, node.value)]
                elif isinstance(node, (ast.For, ast.comprehension)):
                    pairs = [(node.target, node.iter)]
                elif isinstance(node, ast.withitem) and node.optional_vars is not None:
                    pairs = [(node.optional_vars, node.context_expr)]
                for tgt, val in pairs:
                    roots = self.roots(val)
                    if not roots:
                        continue
                    for nm in [n.id for n in ast.walk(tgt) if isinstance(n, ast.Name) and isinstance(n.ctx, ast.Store)]:
                        cur = self.alias.setdefault(nm, set())
                        if not roots <= cur:
                            cur |= roots
                            changed = True

    def err(self, node, msg):
        raise Rejected(f"{self.where} line {getattr(node, 'lineno', '?')}: {msg}")

    # ---- which objects an expression may be (part of) ----
    def roots(self, e):
        """aliases of e when e is a name or an attribute / subscript chain without calls"""
        while True:
            x = _self_attr(e)
            if x is not None:
                return {("attr", x)}
            if isinstance(e, (ast.Attribute, ast.Subscript, ast.Starred)):
                e = e.value
            elif isinstance(e, ast.Name):
                return set(self.alias.get(e.id, set()))
            elif isinstance(e, ast.IfExp):
                return self.roots(e.body) | self.roots(e.orelse)
            else:
                return set()

    def recv_roots(self, e):
        """like roots, but also through calls: the receiver of self.arcs[a].get_destination().get_window()"""
        while True:
            x = _self_attr(e)
            if x is not None:
                return {("attr", x)}
            if isinstance(e, (ast.Attribute, ast.Subscript)):
                e = e.value
            elif isinstance(e, ast.Call) and isinstance(e.func, ast.Attribute) and not _is_self(e.func.value):
                e = e.func.value
            elif isinstance(e, ast.Name):
                return set(self.alias.get(e.id, set()))
            else:
                return set()

    def touch(self, roots, mk_attr, mk_param):
        out = []
        for kind, v in sorted(roots, key=lambda r: (r[0], str(r[1]))):
            out.append(mk_attr(v) if kind == "attr" else mk_param(v))
        return out

    def upd(self, roots):
        return self.touch(roots, lambda x: f"PUpd {_s(x)}", lambda n: f"PUpdP {n}")

    def meth(self, roots, m):
        return self.touch(roots, lambda x: f"PMeth {_s(x)} {_s(m)}", lambda n: f"PMethP {n} {_s(m)}")

    def arg_alias(self, e):
        r = self.roots(e)
        if not r:
            return "ANone"
        if len(r) > 1:
            self.err(e, "call argument may alias several objects")
        (kind, v), = r
        return f"AAttr {_s(v)}" if kind == "attr" else f"AParam {v}"

    # ---- expressions: list of skeleton leaves in evaluation order ----
    def ev(self, e, recv=False):
        """events of evaluating e; recv=True: e is the receiver of a method call / the base of a store,
        the load of the root attribute itself is then not an event of its own"""
        if e is None:
            return []
        if _is_self(e):
            self.err(e, "bare `self` used as a value")
        x = _self_attr(e)
        if x is not None:
            if x in ("__dict__", "__class__", "__setattr__", "__getattribute__"):
                self.err(e, f"self.{x}")
            return [] if recv else [f"PRead {_s(x)}"]
        if isinstance(e, (ast.Name, ast.Constant)):
            return []
        if isinstance(e, ast.Attribute):
            return self.ev(e.value, recv)
        if isinstance(e, ast.Subscript):
            return self.ev(e.value, recv) + self.ev(e.slice)
        if isinstance(e, ast.Starred):
            return self.ev(e.value, recv)
        if isinstance(e, ast.Call):
            return self.call(e)
        if isinstance(e, ast.Lambda):
            body = self.ev(e.body)
            return [f"PLoop {self.seq(body)}"] if body else []
        if isinstance(e, (ast.ListComp, ast.SetComp, ast.GeneratorExp, ast.DictComp)):
            inner = (self.ev(e.key) + self.ev(e.value)) if isinstance(e, ast.DictComp) else self.ev(e.elt)
            for g in reversed(e.generators):
                if g.is_async:
                    self.err(e, "async comprehension")
                body = self.store(g.target) + [x for c in g.ifs for x in self.ev(c)] + inner
                inner = self.ev(g.iter) + ([f"PLoop {self.seq(body)}"] if body else [])
            return inner
        if isinstance(e, ast.BoolOp):
            out = self.ev(e.values[0])
            rest = None
            for v in reversed(e.values[1:]):
                items = self.ev(v) + ([rest] if rest else [])
                rest = f"PChoice PSkip {self.seq(items)}" if items else None
            return out + ([rest] if rest else [])
        if isinstance(e, ast.IfExp):
            a, b = self.ev(e.body), self.ev(e.orelse)
            return self.ev(e.test) + ([f"PChoice {self.seq(a)} {self.seq(b)}"] if a or b else [])
        if isinstance(e, (ast.NamedExpr, ast.Await, ast.Yield, ast.YieldFrom)):
            self.err(e, f"{type(e).__name__}")
        out = []
        for c in ast.iter_child_nodes(e):
            if isinstance(c, ast.expr):
                out += self.ev(c)
            elif isinstance(c, (ast.keyword,)):
                out += self.ev(c.value)
            elif isinstance(c, ast.comprehension):
                self.err(e, "comprehension outside a comprehension expression")
        return out

    def call(self, e):
        f = e.func
        args = list(e.args) + [kw.value for kw in e.keywords]
        # self.m(...) / super().m(...)
        is_super = (isinstance(f, ast.Attribute) and isinstance(f.value, ast.Call)
                    and isinstance(f.value.func, ast.Name) and f.value.func.id == "super")
        if isinstance(f, ast.Attribute) and (_is_self(f.value) or is_super):
            if is_super and (f.value.args or f.value.keywords):
                self.err(e, "super(...) with arguments")
            out = []
            al = []
            for a in e.args:
                if _is_self(a):
                    self.err(e, "self passed as an argument")
                out += self.ev(a)
                if isinstance(a, ast.Starred):
                    if self.roots(a.value):
                        self.err(e, "starred argument aliasing an attribute or parameter")
                    continue
                al.append(self.arg_alias(a))
            for kw in e.keywords:
                if _is_self(kw.value):
                    self.err(e, "self passed as an argument")
                out += self.ev(kw.value)
                if self.roots(kw.value):
                    self.err(e, "keyword argument aliasing an attribute or parameter")
            head = "PSuper" if is_super else "PCall"
            return out + [f"{head} {_s(f.attr)} [{'; '.join(al)}]"]
        if isinstance(f, ast.Name):
            if f.id in FORBIDDEN_FUNCS and any(_mentions_self(a) for a in args):
                self.err(e, f"{f.id}(...) on self")
            if f.id == "super":
                self.err(e, "super() outside a method call")
            out = []
            for a in args:
                if _is_self(a):
                    if f.id in SELF_OK_FUNCS:
                        continue
                    self.err(e, f"self passed to {f.id}()")
                out += self.ev(a, recv=True)
                inner = a.value if isinstance(a, ast.Starred) else a
                out += self.meth(self.roots(inner), "fn:" + f.id)
            return out
        if isinstance(f, ast.Attribute):
            # logger.info(...) etc. are ignored altogether
            if isinstance(f.value, ast.Name) and f.value.id == "logger":
                return []
            rr = self.recv_roots(f.value)
            out = self.ev(f.value, recv=True)
            for a in args:
                if _is_self(a):
                    self.err(e, "self passed as an argument")
            if rr:
                for a in args:
                    out += self.ev(a)
                return out + self.meth(rr, f.attr)
            # a function of a module / a method of a local object: np.array(self.x), aval.append(...)
            for a in args:
                out += self.ev(a, recv=True)
                inner = a.value if isinstance(a, ast.Starred) else a
                out += self.meth(self.roots(inner), "fn:" + f.attr)
            return out
        # anything else that is called: (lambda ...)(...), f()(...)
        out = self.ev(f)
        for a in args:
            if _is_self(a):
                self.err(e, "self passed as an argument")
            out += self.ev(a)
        return out

    # ---- assignment targets ----
    def store(self, t, const=None, aug=False):
        if isinstance(t, ast.Name):
            if t.id == "self":
                self.err(t, "assignment to self")
            if aug:     # x += v on an alias changes the object in place
                return self.upd(self.alias.get(t.id, set()))
            return []
        x = _self_attr(t)
        if x is not None:
            if aug:
                return [f"PUpd {_s(x)}"]
            if const is not None:
                return [f"PInitB {_s(x)} {'true' if const else 'false'}"]
            return [f"PInit {_s(x)}"]
        if isinstance(t, (ast.Attribute, ast.Subscript)):
            out = self.ev(t.value, recv=True)
            if isinstance(t, ast.Subscript):
                out += self.ev(t.slice)
            return out + self.upd(self.recv_roots(t.value))
        if isinstance(t, (ast.Tuple, ast.List)):
            return [x for el in t.elts for x in self.store(el)]
        if isinstance(t, ast.Starred):
            return self.store(t.value)
        self.err(t, f"assignment target {type(t).__name__}")

    # ---- statements ----
    def seq(self, items):
        items = [i for i in items if i is not None]
        if not items:
            return "PSkip"
        if len(items) == 1:
            return "(" + items[0] + ")"
        return "(pseq [" + "; ".join(items) + "])"

    def block(self, stmts):
        return self.seq([self.stmt(s) for s in stmts])

    def leafs(self, items):
        """one statement: its events, or POther when there is none"""
        return self.seq(items)[1:-1] if items else "POther"

    def stmt(self, s):
        if isinstance(s, ast.Expr):
            if isinstance(s.value, ast.Constant):
                return None                      # docstring
            return self.leafs(self.ev(s.value))
        if isinstance(s, ast.Assign):
            const = None
            if isinstance(s.value, ast.Constant) and isinstance(s.value.value, bool):
                const = s.value.value
            out = self.ev(s.value)
            for t in s.targets:
                out += self.store(t, const=const)
            return self.leafs(out)
        if isinstance(s, ast.AnnAssign):
            if s.value is None:
                return None
            return self.leafs(self.ev(s.value) + self.store(s.target))
        if isinstance(s, ast.AugAssign):
            return self.leafs(self.ev(s.value) + self.store(s.target, aug=True))
        if isinstance(s, ast.Delete):
            out = []
            for t in s.targets:
                if _self_attr(t) is not None:
                    self.err(s, "del self.<attr>")
                if isinstance(t, ast.Name):
                    continue
                out += self.store(t)
            return self.leafs(out)
        if isinstance(s, ast.Pass):
            return None
        if isinstance(s, (ast.Import, ast.ImportFrom)):
            return "POther"
        if isinstance(s, ast.Return):
            return self.leafs(self.ev(s.value) + ["PReturn"])
        if isinstance(s, ast.Raise):
            return self.leafs(self.ev(s.exc) + self.ev(s.cause) + ["PRaise"])
        if isinstance(s, ast.Assert):
            fail = self.seq(self.ev(s.msg) + ["PRaise"])
            return self.leafs(self.ev(s.test) + [f"PChoice PSkip {fail}"])
        if isinstance(s, ast.Break):
            return "PBreak"
        if isinstance(s, ast.Continue):
            return "PContinue"
        if isinstance(s, ast.If):
            a, b = self.block(s.body), self.block(s.orelse)
            x = _self_attr(s.test)
            if x is not None:
                return f"PIfFlag {_s(x)} {a} {b}"
            if isinstance(s.test, ast.UnaryOp) and isinstance(s.test.op, ast.Not) and _self_attr(s.test.operand) is not None:
                return f"PIfFlag {_s(_self_attr(s.test.operand))} {b} {a}"
            return self.leafs(self.ev(s.test) + [f"PChoice {a} {b}"])
        if isinstance(s, ast.For):
            if s.orelse:
                self.err(s, "for-else")
            body = self.seq(self.store(s.target) + [self.stmt(x) for x in s.body])
            return self.leafs(self.ev(s.iter) + [f"PLoop {body}"])
        if isinstance(s, ast.While):
            if s.orelse:
                self.err(s, "while-else")
            body = self.seq(self.ev(s.test) + [f"PChoice PBreak {self.block(s.body)}"])
            return f"PLoop {body}"
        if isinstance(s, ast.Try):
            if s.finalbody:
                self.err(s, "try-finally")
            hs = None
            for h in reversed(s.handlers):
                hb = self.seq(self.ev(h.type) + [self.stmt(x) for x in h.body])
                hs = hb if hs is None else f"(PChoice {hb} {hs})"
            return f"PTry {self.block(s.body)} {hs or 'PSkip'} {self.block(s.orelse)}"
        if isinstance(s, ast.With):
            out = []
            for it in s.items:
                out += self.ev(it.context_expr)
                if it.optional_vars is not None:
                    out += self.store(it.optional_vars)
            return self.seq(out + [self.stmt(x) for x in s.body])[1:-1] if (out or s.body) else "POther"
        if isinstance(s, (ast.FunctionDef, ast.ClassDef, ast.AsyncFunctionDef)):
            if _mentions_self(s):
                self.err(s, f"nested {type(s).__name__} using self")
            return "POther"
        if isinstance(s, (ast.Global, ast.Nonlocal)):
            return "POther"
        self.err(s, f"statement {type(s).__name__}")

    def term(self):
        return self.block(self.f.body)


def _is_forwarder(fdef):
    """@property def x(self): [docstring]; return self.vrptw.x"""
    body = [b for b in fdef.body if not (isinstance(b, ast.Expr) and isinstance(b.value, ast.Constant))]
    if len(body) != 1 or not isinstance(body[0], ast.Return):
        return False
    v = body[0].value
    return (isinstance(v, ast.Attribute) and v.attr == fdef.name and _self_attr(v.value) == "vrptw"
            and len(fdef.args.args) == 1)


def class_table(path, cname):
    src = open(os.path.join(core.REPO, path)).read()
    tree = ast.parse(src)
    cls = [n for n in tree.body if isinstance(n, ast.ClassDef) and n.name == cname]
    if len(cls) != 1:
        raise Rejected(f"{path}: class {cname} not found exactly once")
    rows = []
    for n in cls[0].body:
        if isinstance(n, ast.FunctionDef):
            if n.decorator_list:
                d = n.decorator_list
                if len(d) == 1 and isinstance(d[0], ast.Name) and d[0].id == "property" and _is_forwarder(n):
                    continue            # forwarder to the graph data: the role table of PyCache.v lists the name
                raise Rejected(f"{cname}.{n.name}: decorator")
            rows.append((n.name, Fn(n, cname).term()))
        elif isinstance(n, (ast.AsyncFunctionDef, ast.ClassDef)):
            raise Rejected(f"{cname}: nested {type(n).__name__}")
        elif isinstance(n, (ast.Assign, ast.AnnAssign, ast.AugAssign)):
            raise Rejected(f"{cname}: class-level assignment (line {n.lineno})")
    names = [r[0] for r in rows]
    if len(set(names)) != len(names):
        raise Rejected(f"{cname}: a method is defined twice")
    return rows


def translate():
    _NAMES.clear()
    head = ["(* CacheGen.v -- GENERATED by harness/translate_cacheflags.py from the working tree; do not edit *)",
            "From Coq Require Import String.",
            "From VQ Require Import Base Cache PyCache.",
            "Local Open Scope string_scope.", ""]
    out = []
    for key, (path, cname) in FILES.items():
        rows = class_table(path, cname)
        out.append(f"(* {cname} ({path}) *)")
        out.append(f"Definition gen_{key} : mtable := [")
        out.append(";\n".join(f"  ({_s(n)},\n   {t})" for n, t in rows))
        out.append("].\n")
    out.append("Definition generated_table : skeleton_table := mkTbl gen_base gen_arc gen_seq gen_path.")
    names = ["(* attribute and method names *)"]
    names += [f"Definition {ident} : string := {_lit(x)}." for x, ident in _NAMES.items()]
    return OrderedDict([("CacheGen.v", "\n".join(head + names + [""] + out) + "\n")])


if __name__ == "__main__":
    import sys
    sys.stdout.write(translate()["CacheGen.v"])
