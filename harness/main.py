import os
import sys
sys.path.insert(0, os.path.dirname(os.path.abspath(__file__)))
from vq.core import main
if __name__ == "__main__":
    sys.exit(main(sys.argv[1:]))
