"""translate_vrptw.py -- fail-closed translator: Python source of the VRPTW graph methods -> Gallina.

Source (read from the tree under test, $VQ_REPO/src/vrpqubo/routing_problem):
    vrptw.py                           Node.__init__, Node.get_name/get_demand/get_window, Arc.__init__,
                                       VRPTW.add_node / get_node_index / set_depot (with the nested
                                       new_position) / add_arc / estimate_max_vehicles, VRPTW.__init__
                                       (three empty containers; the constant it gives depot_index)
    routing_problem.py                 the properties nodes / node_names / arcs / depot_index (checked to be
                                       `return self.vrptw.<same>`) and the delegating methods add_node,
                                       get_node_index, set_depot, add_arc, estimate_max_vehicles
    formulations/sequence_based_rp.py  SequenceBasedRoutingProblem.add_arc, set_depot
Output: coq/gen/VrptwGen.v (definitions gen_*), proved equal to the hand model Vrptw.v by
coq/genprops/C15_gen.v on every run.

The translator is a printer.  It walks the `ast`, keeps a typing environment (nat for positions and
names, Z for data, ext for floats that may be inf, node, arc, lists, pairs, the arc dict) so that it can
pick the combinator of the right type from coq/theories/PyVrptw.v, threads the object state through the
statements (`self` -> s0, s1, ...; a mutation makes a new state variable, a raise returns the state
reached so far) and prints one Gallina term per function.  Operators, constants, argument order and
statement order are all taken from the ast nodes.  Anything outside the whitelist raises `Rejected`
with the line number.  Docstrings, comments, `pass`, type annotations and `logger.<level>(...)` calls
are ignored.  Outside the method bodies the three modules may only contain imports, class definitions, plain
`name = ...` assignments and functions that do not rebind a name the translation relies on (no
monkeypatching, no class-level assignments, no __getattr__ / __setattr__, no decorators); a local may be
bound to the object's own list / dict only as a snapshot that is taken right before the attribute is re-bound.

Accepted statements (method bodies):
    if <e>: ... [else: ...]           (the statements after the `if` are continued in both branches)
    raise <ErrorClass>(...)           ErrorClass in Base.errcls; the message is ignored
    return / return <e>
    <name> = <e>     <a>, <b> = <e>     <name> += <e>   (also -=, *=)
    <name> = self.<list/dict>         only as a snapshot: until the attribute is re-bound to a fresh container
                                      (next line below) nothing may change the object in place or call a method
    self.vrptw.<dict> = dict() / {}   (self.<dict> = ... inside VRPTW; lists: [] / list())   re-binding to a fresh container
    self.<dict>[<e>] = <e>
    self.<list>.append(<e>) / .insert(<e>, <e>) / .remove(<e>) / .pop(<e>)      self.<dict>.clear() / .update(<e>)
    self.<method>(...) / super().<method>(...) / self.vrptw.<method>(...)   as a statement
    def <name>(<params>): <pure body>          nested helper, translated at its first call
    for <pattern> in <e>: <pure body assigning locals defined before the loop>      -> fold_left
    for <pattern> in <e over locals>: <method calls / mutations, no assignment, no return / raise>   -> for_each
Accepted expressions: names, int / bool constants (typed by context), np.inf, pairs, attribute reads of
    self / Node / Arc fields, <arc>.origin.name / <arc>.destination.name, t[0] / t[1] on pairs, l[i] on lists (IndexError), d[k] on the dict
    (KeyError), == != < <= > >=, in / not in (list of names, dict), + - * (typed), unary - and not,
    and / or (later operands effect-free), `a if c else b`, min / max / len / np.isinf,
    l.index(x), d.items() / keys() / values(), Node(...) / Arc(...), method calls as above, calls of a
    nested helper, one-generator list comprehensions without `if`.
"""
import ast
import os
from collections import OrderedDict


class Rejected(Exception):
    pass


# --------------------------------------------------------------------------------------------
# types
# --------------------------------------------------------------------------------------------
NAT, ZT, EXT, BOOL, UNIT, NODE, ARC = "nat", "Z", "ext", "bool", "unit", "node", "arc"


def TList(t):
    return ("list", t)


def TPair(a, b):
    return ("pair", a, b)


def TDict(v):
    return ("dict", v)


KEY = TPair(NAT, NAT)
WINDOW = TPair(ZT, EXT)


def coq_type(t):
    if isinstance(t, str):
        return t
    if t[0] == "list":
        return f"(list {coq_type(t[1])})"
    if t[0] == "pair":
        return f"({coq_type(t[1])} * {coq_type(t[2])})%type"
    if t[0] == "dict":
        return f"(dict {coq_type(t[1])})"
    raise Rejected(f"internal: type {t!r}")


class NeedType(Exception):
    """An int constant met without a type expectation."""


# --------------------------------------------------------------------------------------------
# schema: what the translated classes are made of (types as in the hand model Vrptw.v)
# --------------------------------------------------------------------------------------------
VALUE_CLASSES = {
    "Node": {"coq": NODE, "ctor": "new_Node",
             "fields": [("name", NAT), ("demand", ZT), ("time_window", WINDOW)],
             "read": {"name": "node_name", "demand": "node_demand", "time_window": "node_time_window"},
             "init": [NAT, ZT, WINDOW],
             "getters": ["get_name", "get_demand", "get_window"]},
    "Arc": {"coq": ARC, "ctor": "new_Arc",
            "fields": [("origin", NODE), ("destination", NODE), ("travel_time", ZT), ("cost", ZT)],
            # an Arc keeps its endpoints by name (hand model): the Node objects cannot be read back
            "read": {"travel_time": "att", "cost": "acost"},
            "init": [NODE, NODE, ZT, ZT],
            "getters": []},
}
GRAPH_FIELDS = {"node_names": (TList(NAT), "names", "set_names"),
                "nodes": (TList(NODE), "nodes", "set_nodes"),
                "arcs": (TDict(ARC), "arcs", "set_arcs")}
# positional parameter types of the translated methods (after self)
METHOD_SIGS = {
    "add_node": [NAT, ZT, WINDOW],
    "get_node_index": [NAT],
    "set_depot": [NAT],
    "add_arc": [NAT, NAT, ZT, ZT],
    "estimate_max_vehicles": [],
}
ERRCLS = {"ValueError", "IndexError", "KeyError", "AssertionError", "AttributeError", "TypeError"}
LOG_LEVELS = {"debug", "info", "warning", "warn", "error", "critical", "exception", "log"}
CLASS_PREFIX = {"VRPTW": "gen_", "RoutingProblem": "gen_rp_", "SequenceBasedRoutingProblem": "gen_seq_"}

CMP = {ast.Eq: "eq", ast.NotEq: "ne", ast.Lt: "lt", ast.LtE: "le", ast.Gt: "gt", ast.GtE: "ge"}
ARITH = {
    (ast.Add, NAT, NAT): ("Nat.add", NAT), (ast.Add, ZT, ZT): ("Z.add", ZT), (ast.Add, EXT, ZT): ("fl_plus", EXT),
    (ast.Sub, ZT, ZT): ("Z.sub", ZT),
    (ast.Mult, NAT, NAT): ("Nat.mul", NAT), (ast.Mult, ZT, ZT): ("Z.mul", ZT),
}


def where(node):
    return f"line {getattr(node, 'lineno', '?')}"


def is_name(node, name=None):
    return isinstance(node, ast.Name) and (name is None or node.id == name)


def is_docstring(st):
    return isinstance(st, ast.Expr) and isinstance(st.value, ast.Constant) and isinstance(st.value.value, str)


def is_logging(st):
    return (isinstance(st, ast.Expr) and isinstance(st.value, ast.Call) and isinstance(st.value.func, ast.Attribute)
            and is_name(st.value.func.value, "logger") and st.value.func.attr in LOG_LEVELS)


def ignorable(st):
    return is_docstring(st) or is_logging(st) or isinstance(st, ast.Pass)


def is_int(node):
    return isinstance(node, ast.Constant) and type(node.value) is int


# --------------------------------------------------------------------------------------------
# translation context of one function body
# --------------------------------------------------------------------------------------------
class Ctx:
    def __init__(self, fn, env, st, pure):
        self.fn = fn                  # FnState shared by all branches of one function
        self.env = dict(env)          # python name -> (type, coq term)
        self.st = st                  # current state variable (None in pure / init bodies)
        self.pure = pure
        self.pre = []                 # pending (open, close) wrappers of the current statement
        self.fields = {}              # init bodies: field -> term
        self.live = {}                # graph field -> locals bound to the container object it currently holds
        self.in_loop = False          # inside the body of a for_each loop

    def branch(self):
        c = Ctx(self.fn, self.env, self.st, self.pure)
        c.fields = dict(self.fields)
        c.live = {k: set(v) for k, v in self.live.items()}
        c.in_loop = self.in_loop
        return c

    def live_names(self):
        return sorted(set().union(*self.live.values())) if self.live else []

    def take(self):
        p, self.pre = self.pre, []
        return p

    def let(self, var, term):
        self.pre.append((f"let {var} := {term} in\n", ""))

    def effect(self, node, open_, close):
        if self.pure:
            raise Rejected(f"{where(node)}: an operation that can raise or change the object is not accepted here "
                           "(nested helper, loop body, comprehension element, later operand of and/or, if-expression branch)")
        self.pre.append((open_, close))


class FnState:
    """Per function: fresh names, return types, nested helpers, flags."""
    def __init__(self, cls, name):
        self.cls, self.name = cls, name
        self.n_t = 0
        self.n_s = 0
        self.ret_types = []
        self.helpers = {}             # python name -> dict(node, env, token, text, sig)
        self.captured = set()
        self.uses_depot = False

    def fresh_t(self):
        self.n_t += 1
        return f"t{self.n_t}"

    def fresh_s(self):
        self.n_s += 1
        return f"s{self.n_s}"


def wrap(pre, body):
    return "".join(o for o, _ in pre) + body + "".join(c for _, c in reversed(pre))


def local(name):
    return "v_" + name


# --------------------------------------------------------------------------------------------
class Translator:
    def __init__(self, sources):
        """sources: {'vrptw': text, 'rp': text, 'seq': text}"""
        self.classes = {}
        self.trees = {}
        for key, src in sources.items():
            try:
                tree = ast.parse(src)
            except SyntaxError as e:
                raise Rejected(f"{key}: syntax error: {e}")
            self.trees[key] = tree
            for n in tree.body:
                if isinstance(n, ast.ClassDef):
                    if n.name in self.classes:
                        raise Rejected(f"class {n.name} defined twice")
                    self.classes[n.name] = n
        for c in ("Node", "Arc", "VRPTW", "RoutingProblem", "SequenceBasedRoutingProblem"):
            if c not in self.classes:
                raise Rejected(f"class {c} not found")
        for c in ("Node", "Arc", "VRPTW", "RoutingProblem"):
            if self.classes[c].bases or self.classes[c].keywords:
                raise Rejected(f"class {c} has base classes")
        sb = self.classes["SequenceBasedRoutingProblem"]
        if len(sb.bases) != 1 or not is_name(sb.bases[0], "RoutingProblem") or sb.keywords:
            raise Rejected("SequenceBasedRoutingProblem does not derive from RoutingProblem only")
        self.check_modules()
        self.done = {}                # (class, method) -> dict(name, params, ret, depot, strict)
        self.in_progress = set()
        self.out = []
        self.props_checked = set()

    # ---------------- nothing outside the class bodies may change what the names mean ----------------
    def check_modules(self):
        protected = set(self.classes) | {"np", "super", "min", "max", "len", "logger", "property", "isinstance"}
        for key, tree in self.trees.items():
            for n in tree.body:
                if isinstance(n, (ast.Import, ast.ImportFrom, ast.ClassDef)) or is_docstring(n):
                    continue
                if isinstance(n, ast.Assign) and len(n.targets) == 1 and is_name(n.targets[0]) \
                        and n.targets[0].id not in protected - {"logger"}:
                    continue
                if isinstance(n, ast.Try) and all(isinstance(b, (ast.Import, ast.ImportFrom)) for b in n.body) \
                        and all(all(isinstance(b, ast.Pass) for b in h.body) for h in n.handlers) \
                        and not n.orelse and not n.finalbody:
                    continue
                if isinstance(n, ast.FunctionDef) and n.name not in protected:
                    continue
                raise Rejected(f"{key} {where(n)}: module-level statement {type(n).__name__} is not accepted")
            for n in ast.walk(tree):
                if isinstance(n, (ast.Global, ast.Nonlocal)):
                    raise Rejected(f"{key} {where(n)}: global / nonlocal")
                if isinstance(n, (ast.Import, ast.ImportFrom)):
                    for a in n.names:
                        bound = a.asname or a.name.split(".")[0]
                        if bound in protected and not (
                                (bound == "np" and isinstance(n, ast.Import) and a.name == "numpy")
                                or (bound == "Arc" and isinstance(n, ast.ImportFrom) and n.module == "vrptw" and n.level == 2)
                                or (bound == "RoutingProblem" and isinstance(n, ast.ImportFrom) and n.module == "routing_problem")
                                or (bound == "VRPTW" and isinstance(n, ast.ImportFrom) and n.module == "vrptw")):
                            raise Rejected(f"{key} {where(n)}: import binds {bound}")
        def has_np(tree):
            return any(isinstance(n, ast.Import) and any(a.name == "numpy" and a.asname == "np" for a in n.names) for n in tree.body)
        if not has_np(self.trees["vrptw"]):
            raise Rejected("vrptw.py does not `import numpy as np`")
        if not any(isinstance(n, ast.ImportFrom) and n.module == "vrptw" and n.level == 2 and
                   any(a.name == "Arc" and a.asname is None for a in n.names) for n in self.trees["seq"].body):
            raise Rejected("sequence_based_rp.py does not `from ..vrptw import Arc`")
        for cname in ("Node", "Arc", "VRPTW", "RoutingProblem", "SequenceBasedRoutingProblem"):
            c = self.classes[cname]
            if c.decorator_list:
                raise Rejected(f"class {cname} is decorated")
            for n in c.body:
                nm = getattr(n, "name", None)
                if nm in ("__getattr__", "__getattribute__", "__setattr__", "__delattr__", "__init_subclass__", "__new__"):
                    raise Rejected(f"{cname} defines {nm}")
                if isinstance(n, (ast.Assign, ast.AnnAssign, ast.AugAssign)):
                    raise Rejected(f"{cname} {where(n)}: class-level assignment")
                if cname == "VRPTW" and nm in set(GRAPH_FIELDS) | {"depot_index", "vrptw"}:
                    raise Rejected(f"VRPTW defines a member called {nm}")
                if cname in ("Node", "Arc") and nm in dict(VALUE_CLASSES[cname]["fields"]):
                    raise Rejected(f"{cname} defines a member called {nm}")

    # ---------------- class members ----------------
    def method(self, cls, name, decorated=False):
        found = [n for n in self.classes[cls].body if isinstance(n, (ast.FunctionDef, ast.AsyncFunctionDef)) and n.name == name]
        if len(found) != 1:
            raise Rejected(f"{cls}.{name}: found {len(found)} definitions")
        fn = found[0]
        if isinstance(fn, ast.AsyncFunctionDef):
            raise Rejected(f"{cls}.{name}: async")
        if bool(fn.decorator_list) != decorated:
            raise Rejected(f"{cls}.{name} {where(fn)}: unexpected decorators")
        return fn

    def defines(self, cls, name):
        return any(isinstance(n, (ast.FunctionDef, ast.AsyncFunctionDef)) and n.name == name for n in self.classes[cls].body)

    def params(self, fn, cls, n_expected):
        a = fn.args
        if a.vararg or a.kwarg or a.kwonlyargs or a.posonlyargs:
            raise Rejected(f"{cls}.{fn.name} {where(fn)}: unsupported parameter list")
        names = [x.arg for x in a.args]
        if not names or names[0] != "self":
            raise Rejected(f"{cls}.{fn.name} {where(fn)}: first parameter is not self")
        if len(names) - 1 != n_expected:
            raise Rejected(f"{cls}.{fn.name} {where(fn)}: {len(names) - 1} parameters, expected {n_expected}")
        if len(set(names)) != len(names):
            raise Rejected(f"{cls}.{fn.name} {where(fn)}: repeated parameter")
        return names[1:], a.defaults

    def check_property(self, name):
        """RoutingProblem.<name> is `@property def <name>(self): return self.vrptw.<name>`."""
        if name in self.props_checked:
            return
        fn = self.method("RoutingProblem", name, decorated=True)
        ok = len(fn.decorator_list) == 1 and is_name(fn.decorator_list[0], "property")
        body = [s for s in fn.body if not ignorable(s)]
        ok = ok and [x.arg for x in fn.args.args] == ["self"] and len(body) == 1 and isinstance(body[0], ast.Return)
        if ok:
            v = body[0].value
            ok = (isinstance(v, ast.Attribute) and v.attr == name and isinstance(v.value, ast.Attribute)
                  and v.value.attr == "vrptw" and is_name(v.value.value, "self"))
        if not ok:
            raise Rejected(f"RoutingProblem.{name} is not the property `return self.vrptw.{name}`")
        if self.defines("SequenceBasedRoutingProblem", name):
            raise Rejected(f"SequenceBasedRoutingProblem overrides the property {name}")
        self.props_checked.add(name)

    # ---------------- resolving calls ----------------
    def resolve(self, cls, name, node):
        """Translate (once) and return the record of method `name` as seen from an object of class cls."""
        if cls == "SequenceBasedRoutingProblem" and not self.defines(cls, name):
            cls = "RoutingProblem"
        if name not in METHOD_SIGS:
            raise Rejected(f"{where(node)}: call of {cls}.{name}, which is not among the translated methods")
        if (cls, name) in self.done:
            return self.done[(cls, name)]
        if (cls, name) in self.in_progress:
            raise Rejected(f"{where(node)}: recursive call of {cls}.{name}")
        self.in_progress.add((cls, name))
        rec = self.translate_method(cls, name)
        self.in_progress.discard((cls, name))
        self.done[(cls, name)] = rec
        return rec

    # ---------------- value classes ----------------
    def translate_value_class(self, cls):
        sch = VALUE_CLASSES[cls]
        fn = self.method(cls, "__init__")
        pnames, defaults = self.params(fn, cls, len(sch["init"]))
        if defaults:
            raise Rejected(f"{cls}.__init__: default values")
        fs = FnState(cls, "__init__")
        env = {p: (t, local(p)) for p, t in zip(pnames, sch["init"])}
        ctx = Ctx(fs, env, None, True)
        mode = InitMode(cls, sch)
        body = self.block(list(fn.body), ctx, mode)
        binders = " ".join(f"({local(p)} : {coq_type(t)})" for p, t in zip(pnames, sch["init"]))
        self.out.append(f"(* {cls}.__init__, line {fn.lineno} *)\n"
                        f"Definition gen_{cls}_init {binders} : result {sch['coq']} :=\n  {body}.\n")
        for g in sch["getters"]:
            fn = self.method(cls, g)
            self.params(fn, cls, 0)
            fs = FnState(cls, g)
            ctx = Ctx(fs, {"self": (sch["coq"], "self")}, None, True)
            mode = PureMode(f"{cls}.{g}")
            body = self.block(list(fn.body), ctx, mode)
            if mode.ret is None:
                raise Rejected(f"{cls}.{g}: no return value")
            self.out.append(f"(* {cls}.{g}, line {fn.lineno} *)\n"
                            f"Definition gen_{cls}_{g} (self : {sch['coq']}) : {coq_type(mode.ret)} :=\n  {body}.\n")
            self.done[(cls, g)] = {"name": f"gen_{cls}_{g}", "ret": mode.ret}

    # ---------------- methods of the stateful classes ----------------
    def translate_method(self, cls, name):
        fn = self.method(cls, name)
        sig = METHOD_SIGS[name]
        pnames, defaults = self.params(fn, cls, len(sig))
        fs = FnState(cls, name)
        env = {p: (t, local(p)) for p, t in zip(pnames, sig)}
        ctx = Ctx(fs, env, "s0", False)
        mode = MethodMode()
        body = self.block(list(fn.body), ctx, mode)
        for h in fs.helpers.values():
            body = body.replace(h["token"], h["text"] or "")
        rts = set(fs.ret_types)
        if len(rts) != 1:
            raise Rejected(f"{cls}.{name}: return values of different kinds {sorted(map(str, rts))}")
        ret = rts.pop()
        gname = CLASS_PREFIX[cls] + name
        strict = cls == "SequenceBasedRoutingProblem"
        binders = ("(strict : bool) " if strict else "") + "(s0 : graph)" + (" (depot_index : nat)" if fs.uses_depot else "")
        binders += "".join(f" ({local(p)} : {coq_type(t)})" for p, t in zip(pnames, sig))
        # default values of trailing parameters, as separate constants
        extra = ""
        for p, t, d in zip(pnames[len(pnames) - len(defaults):], sig[len(sig) - len(defaults):], defaults):
            c = Ctx(FnState(cls, name), {}, None, True)
            ty, term = self.ex(d, c, t)
            if ty != t or c.pre:
                raise Rejected(f"{cls}.{name} {where(d)}: default of {p} is not a constant of type {coq_type(t)}")
            extra += f"Definition {gname}_default_{p} : {coq_type(t)} := {term}.\n"
        self.out.append(f"(* {cls}.{name}, line {fn.lineno} *)\n"
                        f"Definition {gname} {binders} : M {coq_type(ret)} :=\n  {body}.\n{extra}")
        return {"name": gname, "params": sig, "ret": ret, "depot": fs.uses_depot, "strict": strict}

    def translate_vrptw_init(self):
        """VRPTW.__init__(self): every statement is `self.<attr> = <value>`; the three graph attributes start empty."""
        fn = self.method("VRPTW", "__init__")
        self.params(fn, "VRPTW", 0)
        got = {}
        for st in fn.body:
            if ignorable(st):
                continue
            ok = (isinstance(st, ast.Assign) and len(st.targets) == 1 and isinstance(st.targets[0], ast.Attribute)
                  and is_name(st.targets[0].value, "self"))
            if not ok:
                raise Rejected(f"VRPTW.__init__ {where(st)}: only `self.<attr> = <value>` is accepted")
            attr, v = st.targets[0].attr, st.value
            if attr in GRAPH_FIELDS:
                if attr in got:
                    raise Rejected(f"VRPTW.__init__ {where(st)}: {attr} assigned twice")
                kind = GRAPH_FIELDS[attr][0][0]
                empty_list = (isinstance(v, ast.List) and not v.elts) or (
                    isinstance(v, ast.Call) and is_name(v.func, "list") and not v.args and not v.keywords)
                empty_dict = (isinstance(v, ast.Dict) and not v.keys) or (
                    isinstance(v, ast.Call) and is_name(v.func, "dict") and not v.args and not v.keywords)
                if kind == "list" and empty_list:
                    got[attr] = "[]"
                elif kind == "dict" and empty_dict:
                    got[attr] = "dict_clear"
                else:
                    raise Rejected(f"VRPTW.__init__ {where(st)}: {attr} does not start as an empty {kind}")
            elif attr == "depot_index":
                pass                     # translate_depot_index
            elif not isinstance(v, ast.Constant):
                raise Rejected(f"VRPTW.__init__ {where(st)}: self.{attr} is not initialised with a constant")
        missing = [f for f in GRAPH_FIELDS if f not in got]
        if missing:
            raise Rejected(f"VRPTW.__init__ does not initialise {missing}")
        self.out.append(f"(* VRPTW.__init__, line {fn.lineno}: node_names, nodes, arcs *)\n"
                        f"Definition gen_VRPTW_init : graph := mkGraph {got['node_names']} {got['nodes']} {got['arcs']}.\n")

    def translate_depot_index(self):
        """VRPTW.__init__ assigns self.depot_index one int constant; nothing else ever stores it."""
        stores = []
        for tree in self.trees.values():
            for n in ast.walk(tree):
                if isinstance(n, ast.Attribute) and n.attr == "depot_index" and isinstance(n.ctx, (ast.Store, ast.Del)):
                    stores.append(n)
                if isinstance(n, ast.Call) and is_name(n.func, "setattr"):
                    raise Rejected(f"{where(n)}: setattr")
        fn = self.method("VRPTW", "__init__")
        mine = [st for st in fn.body if isinstance(st, ast.Assign) and len(st.targets) == 1
                and isinstance(st.targets[0], ast.Attribute) and st.targets[0].attr == "depot_index"
                and is_name(st.targets[0].value, "self") and is_int(st.value) and st.value.value >= 0]
        if len(mine) != 1 or len(stores) != 1:
            raise Rejected("depot_index is not assigned exactly once (an int constant in VRPTW.__init__)")
        self.out.append(f"(* VRPTW.__init__, line {mine[0].lineno}: self.depot_index *)\n"
                        f"Definition gen_depot_index_init : nat := {mine[0].value.value}%nat.\n")

    # ---------------- statements ----------------
    def block(self, stmts, ctx, mode):
        while stmts and ignorable(stmts[0]):
            stmts = stmts[1:]
        if not stmts:
            return mode.fallthrough(self, ctx)
        st, rest = stmts[0], list(stmts[1:])

        if isinstance(st, ast.Return):
            if st.value is None:
                return mode.ret_none(self, ctx, st)
            ty, term = self.ex(st.value, ctx, mode.expected_return())
            pre = ctx.take()
            return wrap(pre, mode.ret_value(self, ctx, st, ty, term))

        if isinstance(st, ast.Raise):
            e = st.exc
            cls = None
            if isinstance(e, ast.Call) and is_name(e.func) and not e.keywords:
                cls = e.func.id
            elif is_name(e):
                cls = e.id
            if cls not in ERRCLS or st.cause is not None:
                raise Rejected(f"{where(st)}: raise of something that is not one of {sorted(ERRCLS)}")
            return mode.raise_(self, ctx, st, cls)

        if isinstance(st, ast.If):
            ty, test = self.ex(st.test, ctx, BOOL)
            if ty != BOOL:
                raise Rejected(f"{where(st)}: the condition is not a boolean (truthiness of other values is not translated)")
            pre = ctx.take()
            body = [s for s in st.body if not ignorable(s)]
            orelse = [s for s in st.orelse if not ignorable(s)]
            if not body and not orelse:
                # only logging inside: the test is still evaluated (it may raise), its value is dropped
                return wrap(pre, self.block(rest, ctx, mode))
            c1, c2 = ctx.branch(), ctx.branch()
            try:
                t1 = self.block(body + rest, c1, mode)
            except NeedType:
                # `return <int constant>` in a helper: the constant takes the kind the other path returns
                if not isinstance(mode, PureMode) or mode.ret is not None:
                    raise
                t2 = self.block(orelse + rest, c2, mode)
                t1 = self.block(body + rest, ctx.branch(), mode)
            else:
                t2 = self.block(orelse + rest, c2, mode)
            return wrap(pre, f"if {test}\nthen ({t1})\nelse ({t2})")

        if isinstance(st, ast.FunctionDef):
            if ctx.in_loop:
                raise Rejected(f"{where(st)}: def inside a loop")
            self.nested_def(st, ctx)
            tok = ctx.fn.helpers[st.name]["token"]
            return tok + self.block(rest, ctx, mode)

        if isinstance(st, ast.For):
            self.for_loop(st, ctx)
            pre = ctx.take()
            return wrap(pre, self.block(rest, ctx, mode))

        if isinstance(st, (ast.Assign, ast.AnnAssign, ast.AugAssign)):
            self.assign(st, ctx, mode)
            pre = ctx.take()
            return wrap(pre, self.block(rest, ctx, mode))

        if isinstance(st, ast.Expr) and isinstance(st.value, ast.Call):
            self.call_statement(st.value, ctx)
            pre = ctx.take()
            return wrap(pre, self.block(rest, ctx, mode))

        raise Rejected(f"{where(st)}: statement {type(st).__name__} is not accepted")

    def bind_local(self, node, name, ctx, ty, term):
        if name in ("self", "np", "logger", "super") or name in VALUE_CLASSES:
            raise Rejected(f"{where(node)}: assignment to {name}")
        if name in ctx.fn.captured:
            raise Rejected(f"{where(node)}: {name} is re-assigned although a nested helper refers to it")
        if name in ctx.fn.helpers or name in ("min", "max", "len"):
            raise Rejected(f"{where(node)}: {name} is a nested helper / builtin used by the translation")
        if name in ctx.env and ctx.env[name][0] != ty:
            raise Rejected(f"{where(node)}: {name} changes its kind from {ctx.env[name][0]} to {ty}")
        ctx.let(local(name), term)
        ctx.env[name] = (ty, local(name))

    def assign(self, st, ctx, mode):
        if isinstance(st, ast.AugAssign):
            if not is_name(st.target):
                raise Rejected(f"{where(st)}: augmented assignment to something that is not a local name")
            fake = ast.BinOp(left=ast.Name(id=st.target.id, ctx=ast.Load(), lineno=st.lineno), op=st.op, right=st.value,
                             lineno=st.lineno)
            ty, term = self.ex(fake, ctx, None)
            self.bind_local(st, st.target.id, ctx, ty, term)
            return
        if isinstance(st, ast.AnnAssign):
            if st.value is None:
                raise Rejected(f"{where(st)}: annotation without value")
            tgt, value = st.target, st.value
        else:
            if len(st.targets) != 1:
                raise Rejected(f"{where(st)}: chained assignment")
            tgt, value = st.targets[0], st.value
        if is_name(tgt):
            fld = self.self_field(value, ctx)
            if fld is not None and not ctx.pure and not ctx.in_loop:
                # alias of the container object: the name stands for its present content as long as nothing
                # changes that object in place; mutate() / method calls are refused while the alias is live,
                # re-binding the attribute to a fresh container ends it
                fty, acc, _ = GRAPH_FIELDS[fld]
                self.bind_local(st, tgt.id, ctx, fty, f"({acc} {ctx.st})")
                ctx.live.setdefault(fld, set()).add(tgt.id)
                return
            if fld is not None or (
                    isinstance(value, ast.Call) and isinstance(value.func, ast.Attribute)
                    and value.func.attr in ("items", "keys", "values")):
                raise Rejected(f"{where(st)}: a local name bound to the object's own list / dict (or a live view of it) "
                               "would alias later mutations; not translated")
            expected = ctx.env[tgt.id][0] if tgt.id in ctx.env else None
            if expected is None and is_int(value):
                expected = ZT          # a fresh local initialised with an int constant is a Python int
            ty, term = self.ex(value, ctx, expected)
            self.bind_local(st, tgt.id, ctx, ty, term)
            return
        if isinstance(tgt, ast.Tuple) and len(tgt.elts) == 2 and all(is_name(e) for e in tgt.elts):
            ty, term = self.ex(value, ctx, None)
            if not (isinstance(ty, tuple) and ty[0] == "pair"):
                raise Rejected(f"{where(st)}: unpacking of something that is not a pair")
            a, b = tgt.elts[0].id, tgt.elts[1].id
            if a == b:
                raise Rejected(f"{where(st)}: repeated name in unpacking")
            t = ctx.fn.fresh_t()
            ctx.let(t, term)
            self.bind_local(st, a, ctx, ty[1], f"(fst {t})")
            self.bind_local(st, b, ctx, ty[2], f"(snd {t})")
            return
        # self.<field> = e   (constructor of a value class)
        if isinstance(tgt, ast.Attribute) and is_name(tgt.value, "self") and isinstance(mode, InitMode):
            mode.store(self, ctx, st, tgt.attr, value)
            return
        # self.vrptw.<field> = dict() / [] (self.<field> = ... inside VRPTW): the attribute is re-bound to a
        # fresh empty container; the container it held before is left as it is (locals bound to it keep it)
        if isinstance(tgt, ast.Attribute) and tgt.attr in GRAPH_FIELDS and not isinstance(mode, InitMode):
            cls = ctx.fn.cls
            direct = is_name(tgt.value, "self") and cls == "VRPTW"
            via = (cls != "VRPTW" and isinstance(tgt.value, ast.Attribute) and tgt.value.attr == "vrptw"
                   and is_name(tgt.value.value, "self"))
            if (direct or via) and not ctx.pure and not ctx.in_loop and ctx.st is not None:
                fty, acc, setter = GRAPH_FIELDS[tgt.attr]
                empty_list = (isinstance(value, ast.List) and not value.elts) or (
                    isinstance(value, ast.Call) and is_name(value.func, "list") and not value.args and not value.keywords)
                empty_dict = (isinstance(value, ast.Dict) and not value.keys) or (
                    isinstance(value, ast.Call) and is_name(value.func, "dict") and not value.args and not value.keywords)
                if (fty[0] == "dict" and empty_dict) or (fty[0] == "list" and empty_list):
                    for nm in ("dict", "list"):
                        if nm in ctx.env:
                            raise Rejected(f"{where(st)}: {nm} is a local name here")
                    ctx.live.pop(tgt.attr, None)
                    self.mutate(st, ctx, setter, "dict_new" if fty[0] == "dict" else "[]")
                    return
                raise Rejected(f"{where(st)}: self.{tgt.attr} may only be re-bound to an empty {fty[0]}")
        # self.<dict>[key] = value : Python evaluates the value, then the container, then the key
        if isinstance(tgt, ast.Subscript):
            fld = self.self_field(tgt.value, ctx)
            if fld is not None and GRAPH_FIELDS[fld][0][0] == "dict":
                fty, acc, setter = GRAPH_FIELDS[fld]
                vty, vterm = self.ex(value, ctx, fty[1])
                kty, kterm = self.ex(self.index_of(tgt), ctx, KEY)
                if vty != fty[1] or kty != KEY:
                    raise Rejected(f"{where(st)}: self.{fld}[{kty}] = {vty}")
                self.mutate(st, ctx, setter, f"(dict_set {kterm} {vterm} ({acc} {ctx.st}))")
                return
        raise Rejected(f"{where(st)}: assignment target {ast.dump(tgt)[:80]} is not accepted")

    def mutate(self, node, ctx, setter, new_value):
        if ctx.pure or ctx.st is None:
            raise Rejected(f"{where(node)}: mutation of the object is not accepted here")
        fld = [f for f, (_, _, st_) in GRAPH_FIELDS.items() if st_ == setter]
        if len(fld) != 1:
            raise Rejected(f"internal: setter {setter}")
        if ctx.live.get(fld[0]):
            raise Rejected(f"{where(node)}: self.{fld[0]} is changed in place while the local name(s) "
                           f"{sorted(ctx.live[fld[0]])} are bound to the same object (aliasing is not translated)")
        s = ctx.fn.fresh_s()
        ctx.let(s, f"{setter} {new_value} {ctx.st}")
        ctx.st = s

    def index_of(self, sub):
        sl = sub.slice
        if isinstance(sl, ast.Slice) or (hasattr(ast, "ExtSlice") and isinstance(sl, getattr(ast, "ExtSlice"))):
            raise Rejected(f"{where(sub)}: slices are not accepted")
        if hasattr(ast, "Index") and isinstance(sl, getattr(ast, "Index")):     # python < 3.9
            sl = sl.value
        return sl

    def self_field(self, node, ctx):
        """`self.<f>` (or `self.vrptw.<f>` in RoutingProblem classes) naming a graph field -> f"""
        if ctx.st is None or not isinstance(node, ast.Attribute) or node.attr not in GRAPH_FIELDS:
            return None
        cls = ctx.fn.cls
        if is_name(node.value, "self"):
            if cls != "VRPTW":
                self.check_property(node.attr)
            return node.attr
        if (cls != "VRPTW" and isinstance(node.value, ast.Attribute) and node.value.attr == "vrptw"
                and is_name(node.value.value, "self")):
            return node.attr
        return None

    def call_statement(self, call, ctx):
        f = call.func
        if isinstance(f, ast.Attribute) and not call.keywords:
            fld = self.self_field(f.value, ctx)
            if fld is not None:
                fty, acc, setter = GRAPH_FIELDS[fld]
                n = len(call.args)
                if fty[0] == "list" and f.attr == "append" and n == 1:
                    ty, t = self.ex(call.args[0], ctx, fty[1])
                    self.want(call, ty, fty[1])
                    self.mutate(call, ctx, setter, f"(py_append ({acc} {ctx.st}) {t})")
                    return
                if fty[0] == "list" and f.attr == "insert" and n == 2:
                    ity, i = self.ex(call.args[0], ctx, NAT)
                    ty, t = self.ex(call.args[1], ctx, fty[1])
                    self.want(call, ity, NAT)
                    self.want(call, ty, fty[1])
                    self.mutate(call, ctx, setter, f"(py_insert {i} {t} ({acc} {ctx.st}))")
                    return
                if fty == TList(NAT) and f.attr == "remove" and n == 1:
                    ty, t = self.ex(call.args[0], ctx, NAT)
                    self.want(call, ty, NAT)
                    v = ctx.fn.fresh_t()
                    ctx.effect(call, f"try_ (py_remove {t} ({acc} {ctx.st})) {ctx.st} (fun {v} =>\n", ")")
                    self.mutate(call, ctx, setter, v)
                    return
                if fty[0] == "dict" and f.attr == "clear" and n == 0:
                    self.mutate(call, ctx, setter, "dict_clear")
                    return
                if fty[0] == "dict" and f.attr == "update" and n == 1:
                    want = TList(TPair(KEY, fty[1]))
                    ty, t = self.ex(call.args[0], ctx, want)
                    self.want(call, ty, want)
                    self.mutate(call, ctx, setter, f"(dict_update {t} ({acc} {ctx.st}))")
                    return
        # anything else: an expression whose value is dropped (method calls, pop)
        self.ex(call, ctx, None)

    def want(self, node, ty, expected):
        if ty != expected:
            raise Rejected(f"{where(node)}: a value of kind {ty} where {expected} is needed")

    # ---------------- nested helper functions ----------------
    def nested_def(self, fn, ctx):
        a = fn.args
        if (a.vararg or a.kwarg or a.kwonlyargs or a.posonlyargs or a.defaults or fn.decorator_list
                or fn.name in ctx.fn.helpers or fn.name in ctx.env or fn.name in VALUE_CLASSES
                or fn.name in ("min", "max", "len", "super", "np", "logger", "self")):
            raise Rejected(f"{where(fn)}: nested def {fn.name} has an unsupported form")
        params = [x.arg for x in a.args]
        if len(set(params)) != len(params):
            raise Rejected(f"{where(fn)}: repeated parameter")
        free = {n.id for n in ast.walk(fn) if isinstance(n, ast.Name)} - set(params)
        if "self" in free:
            raise Rejected(f"{where(fn)}: nested def {fn.name} refers to self")
        ctx.fn.captured |= {n for n in free if n in ctx.env}
        ctx.env[fn.name] = ("helper", fn.name)
        ctx.fn.helpers[fn.name] = {"node": fn, "env": dict(ctx.env), "params": params, "token": f"\x00DEF{len(ctx.fn.helpers)}\x00",
                                   "text": None, "sig": None, "ret": None}

    def helper_call(self, call, ctx):
        h = ctx.fn.helpers[call.func.id]
        if call.keywords or len(call.args) != len(h["params"]):
            raise Rejected(f"{where(call)}: call of {call.func.id} with other than its positional parameters")
        args = [self.ex(a, ctx, h["sig"][k] if h["sig"] else None) for k, a in enumerate(call.args)]
        sig = [t for t, _ in args]
        if h["sig"] is None:
            fs = ctx.fn
            env = dict(h["env"])
            for p, t in zip(h["params"], sig):
                env[p] = (t, local(p))
            c = Ctx(fs, env, None, True)
            mode = PureMode(f"nested def {call.func.id}")
            body = self.block(list(h["node"].body), c, mode)
            if mode.ret is None:
                raise Rejected(f"{where(h['node'])}: nested def {call.func.id} returns nothing")
            binders = " ".join(f"({local(p)} : {coq_type(t)})" for p, t in zip(h["params"], sig))
            h["text"] = f"let {local(call.func.id)} := fun {binders} =>\n({body}) in\n"
            h["sig"], h["ret"] = sig, mode.ret
        elif h["sig"] != sig:
            raise Rejected(f"{where(call)}: {call.func.id} is called with arguments of different kinds")
        return h["ret"], "(" + " ".join([local(call.func.id)] + [t for _, t in args]) + ")"

    # ---------------- for loops (pure body, fold over the iterable) ----------------
    def targets_of(self, stmts):
        out = []
        for s in stmts:
            for n in ast.walk(s):
                if isinstance(n, ast.Name) and isinstance(n.ctx, ast.Store) and n.id not in out:
                    out.append(n.id)
        return out

    def pattern(self, node, ty, env):
        """Bind a for / comprehension target; returns the Coq pattern."""
        if is_name(node):
            if node.id == "self" or node.id in VALUE_CLASSES:
                raise Rejected(f"{where(node)}: loop variable {node.id}")
            env[node.id] = (ty, local(node.id))
            return local(node.id)
        if isinstance(node, ast.Tuple) and len(node.elts) == 2 and isinstance(ty, tuple) and ty[0] == "pair":
            a = self.pattern(node.elts[0], ty[1], env)
            b = self.pattern(node.elts[1], ty[2], env)
            return f"({a}, {b})"
        raise Rejected(f"{where(node)}: loop target does not match the elements ({ty})")

    def iterable(self, node, ctx):
        """-> (element type, term of type list)"""
        ty, term = self.ex(node, ctx, None)
        if isinstance(ty, tuple) and ty[0] == "list":
            return ty[1], term
        if isinstance(ty, tuple) and ty[0] == "dict":          # iterating a dict yields its keys
            return KEY, f"(dict_keys {term})"
        raise Rejected(f"{where(node)}: iteration over a value of kind {ty}")

    def for_loop(self, st, ctx):
        if st.orelse:
            raise Rejected(f"{where(st)}: for ... else")
        if ctx.in_loop:
            raise Rejected(f"{where(st)}: nested loop")
        ety, it = self.iterable(st.iter, ctx)
        carried = self.targets_of(st.body)
        benv = dict(ctx.env)
        pat = self.pattern(st.target, ety, benv)
        loop_vars = [n.id for n in ast.walk(st.target) if isinstance(n, ast.Name)]
        if not carried:
            self.effect_loop(st, ctx, it, pat, benv, loop_vars)
            return
        for v in carried:
            if v not in ctx.env:
                raise Rejected(f"{where(st)}: loop assigns {v}, which is not defined before the loop")
            if v in loop_vars:
                raise Rejected(f"{where(st)}: loop body assigns its own loop variable {v}")
        for v in loop_vars:
            if v in ctx.env or v in ctx.fn.captured:
                raise Rejected(f"{where(st)}: loop variable {v} shadows an existing name")
        c = Ctx(ctx.fn, benv, ctx.st, True)       # the body may read the object, not change it
        mode = LoopMode(carried)
        body = self.block(list(st.body), c, mode)
        acc = "(" + ", ".join(local(v) for v in carried) + ")" if len(carried) > 1 else local(carried[0])
        accpat = "'" + acc if len(carried) > 1 else acc
        elpat = "'" + pat if pat.startswith("(") else pat
        ctx.pre.append((f"let {accpat} := fold_left (fun {accpat} {elpat} =>\n({body})) {it} {acc} in\n", ""))

    def effect_loop(self, st, ctx, it, pat, benv, loop_vars):
        """`for x in <list built from locals>: <method calls / mutations>` -> for_each: the body is a function of
        the state and the element; no local is assigned, nothing returns or raises directly (an exception of a
        called method ends the loop through `call`)."""
        if ctx.pure or ctx.st is None:
            raise Rejected(f"{where(st)}: a loop that changes the object is not accepted here")
        for n in ast.walk(st.iter):
            if is_name(n, "self"):
                raise Rejected(f"{where(st)}: the loop iterates over a container of the object while its body may "
                               "change the object; only locals are accepted here")
            if isinstance(n, ast.Name) and n.id in ctx.live_names():
                raise Rejected(f"{where(st)}: the loop iterates over {n.id}, which is still the object's own container")
        for v in loop_vars:
            if v in ctx.env or v in ctx.fn.captured:
                raise Rejected(f"{where(st)}: loop variable {v} shadows an existing name")
        for n in st.body:
            for m in ast.walk(n):
                if isinstance(m, (ast.NamedExpr, ast.Lambda, ast.ListComp, ast.SetComp, ast.DictComp, ast.GeneratorExp)):
                    raise Rejected(f"{where(m)}: {type(m).__name__} inside a loop that changes the object")
        s_in = ctx.fn.fresh_s()
        c = Ctx(ctx.fn, benv, s_in, False)
        c.live = {k: set(v) for k, v in ctx.live.items()}
        c.in_loop = True
        body = self.block(list(st.body), c, EffectLoopMode())
        elpat = "'" + pat if pat.startswith("(") else pat
        s_out, v = ctx.fn.fresh_s(), ctx.fn.fresh_t()
        ctx.effect(st, f"call (for_each (fun {s_in} {elpat} =>\n({body})) {it} {ctx.st}) (fun {s_out} {v} =>\n", ")")
        ctx.st = s_out

    # ---------------- expressions ----------------
    def ex(self, node, ctx, expected=None):
        """-> (type, term).  Effects (things that may raise / method calls) are queued in ctx.pre in
        evaluation order and stand for themselves through a fresh variable."""
        if isinstance(node, ast.Constant):
            v = node.value
            if type(v) is bool:
                return BOOL, "true" if v else "false"
            if type(v) is int:
                if expected == NAT and v >= 0:
                    return NAT, f"{v}%nat"
                if expected == ZT:
                    return ZT, f"({v})%Z"
                if expected == EXT:
                    return EXT, f"(Fin ({v})%Z)"
                if expected is None:
                    raise NeedType(f"{where(node)}: cannot tell which kind of number the constant {v} is")
                raise Rejected(f"{where(node)}: constant {v} where {expected} is needed")
            raise Rejected(f"{where(node)}: constant {v!r}")

        if isinstance(node, ast.Name):
            if node.id in ctx.env:
                return ctx.env[node.id]
            raise Rejected(f"{where(node)}: unknown name {node.id}")

        if isinstance(node, ast.Attribute):
            if is_name(node.value, "np") and node.attr == "inf":
                return EXT, "PInf"
            fld = self.self_field(node, ctx)
            if fld is not None:
                return GRAPH_FIELDS[fld][0], f"({GRAPH_FIELDS[fld][1]} {ctx.st})"
            if node.attr == "depot_index" and ctx.st is not None and (
                    is_name(node.value, "self") or (isinstance(node.value, ast.Attribute) and node.value.attr == "vrptw"
                                                    and is_name(node.value.value, "self") and ctx.fn.cls != "VRPTW")):
                if ctx.fn.cls != "VRPTW" and is_name(node.value, "self"):
                    self.check_property("depot_index")
                ctx.fn.uses_depot = True
                return NAT, "depot_index"
            if node.attr == "strict" and is_name(node.value, "self") and ctx.fn.cls == "SequenceBasedRoutingProblem" \
                    and ctx.st is not None:
                return BOOL, "strict"
            if is_name(node.value, "self") and ctx.st is not None:
                raise Rejected(f"{where(node)}: attribute self.{node.attr} is not part of the translated state")
            if node.attr == "name" and isinstance(node.value, ast.Attribute) and node.value.attr in ("origin", "destination"):
                # <arc>.origin.name / <arc>.destination.name: an Arc holds its endpoint Node objects, known by name
                aty, aterm = self.ex(node.value.value, ctx, None)
                if aty == ARC:
                    return NAT, f"(arc_{node.value.attr}_name {aterm})"
                raise Rejected(f"{where(node)}: .{node.value.attr}.name of a value of kind {aty}")
            ty, term = self.ex(node.value, ctx, None)
            for cname, sch in VALUE_CLASSES.items():
                if ty == sch["coq"]:
                    if node.attr in sch["read"]:
                        fty = dict(sch["fields"])[node.attr]
                        return fty, f"({sch['read'][node.attr]} {term})"
                    raise Rejected(f"{where(node)}: field {node.attr} of a {cname} cannot be read in the model")
            raise Rejected(f"{where(node)}: attribute {node.attr} of a value of kind {ty}")

        if isinstance(node, ast.Subscript):
            ty, term = self.ex(node.value, ctx, None)
            idx = self.index_of(node)
            if isinstance(ty, tuple) and ty[0] == "pair":
                if is_int(idx) and idx.value == 0:
                    return ty[1], f"(fst {term})"
                if is_int(idx) and idx.value == 1:
                    return ty[2], f"(snd {term})"
                raise Rejected(f"{where(node)}: a pair is indexed by something other than the constants 0 and 1")
            if isinstance(ty, tuple) and ty[0] == "list":
                ity, i = self.ex(idx, ctx, NAT)
                self.want(node, ity, NAT)
                v = ctx.fn.fresh_t()
                self.need_state(node, ctx)
                ctx.effect(node, f"try_ (py_getitem {term} {i}) {ctx.st} (fun {v} =>\n", ")")
                return ty[1], v
            if isinstance(ty, tuple) and ty[0] == "dict":
                kty, k = self.ex(idx, ctx, KEY)
                self.want(node, kty, KEY)
                v = ctx.fn.fresh_t()
                self.need_state(node, ctx)
                ctx.effect(node, f"try_ (py_dict_getitem {k} {term}) {ctx.st} (fun {v} =>\n", ")")
                return ty[1], v
            raise Rejected(f"{where(node)}: subscript of a value of kind {ty}")

        if isinstance(node, ast.Tuple):
            if len(node.elts) != 2:
                raise Rejected(f"{where(node)}: only pairs are accepted as tuples")
            e1 = e2 = None
            if isinstance(expected, tuple) and expected[0] == "pair":
                e1, e2 = expected[1], expected[2]
            t1, a = self.ex(node.elts[0], ctx, e1)
            t2, b = self.ex(node.elts[1], ctx, e2)
            return TPair(t1, t2), f"({a}, {b})"

        if isinstance(node, ast.Compare):
            if len(node.ops) != 1:
                raise Rejected(f"{where(node)}: chained comparison")
            op, l, r = node.ops[0], node.left, node.comparators[0]
            if isinstance(op, (ast.In, ast.NotIn)):
                rty, rt = self.ex(r, ctx, None)
                if rty == TList(NAT):
                    lty, lt = self.ex(l, ctx, NAT)
                    self.want(node, lty, NAT)
                    t = f"(py_in {lt} {rt})"
                elif isinstance(rty, tuple) and rty[0] == "dict":
                    # (python evaluates the left operand first; both are effect-free or the order is kept below)
                    lty, lt = self.ex(l, ctx, KEY)
                    self.want(node, lty, KEY)
                    t = f"(dict_in {lt} {rt})"
                else:
                    raise Rejected(f"{where(node)}: `in` on a value of kind {rty}")
                if len(ctx.pre) and not self.pure_expr(l):
                    raise Rejected(f"{where(node)}: operands of `in` with effects")
                return BOOL, t if isinstance(op, ast.In) else f"(negb {t})"
            if type(op) not in CMP:
                raise Rejected(f"{where(node)}: comparison {type(op).__name__}")
            (lty, lt), (rty, rt) = self.two(l, r, ctx)
            nm = CMP[type(op)]
            if (lty, rty) == (NAT, NAT):
                return BOOL, f"(nat_{nm} {lt} {rt})"
            if (lty, rty) == (ZT, ZT):
                return BOOL, f"(z_{nm} {lt} {rt})"
            if (lty, rty) == (EXT, EXT):
                return BOOL, f"(fl_{nm} {lt} {rt})"
            if (lty, rty) == (ZT, EXT):
                return BOOL, f"(fl_{nm} (Fin {lt}) {rt})"
            if (lty, rty) == (EXT, ZT):
                return BOOL, f"(fl_{nm} {lt} (Fin {rt}))"
            raise Rejected(f"{where(node)}: comparison of {lty} with {rty}")

        if isinstance(node, ast.BinOp):
            (lty, lt), (rty, rt) = self.two(node.left, node.right, ctx)
            key = (type(node.op), lty, rty)
            if key not in ARITH:
                raise Rejected(f"{where(node)}: {type(node.op).__name__} on {lty} and {rty}")
            f, ty = ARITH[key]
            return ty, f"({f} {lt} {rt})"

        if isinstance(node, ast.UnaryOp):
            if isinstance(node.op, ast.Not):
                ty, t = self.ex(node.operand, ctx, BOOL)
                self.want(node, ty, BOOL)
                return BOOL, f"(negb {t})"
            if isinstance(node.op, ast.USub):
                ty, t = self.ex(node.operand, ctx, ZT if expected in (ZT, None) else expected)
                self.want(node, ty, ZT)
                return ZT, f"(Z.opp {t})"
            raise Rejected(f"{where(node)}: unary {type(node.op).__name__}")

        if isinstance(node, ast.BoolOp):
            f = "andb" if isinstance(node.op, ast.And) else "orb"
            terms = []
            for k, v in enumerate(node.values):
                n0 = len(ctx.pre)
                ty, t = self.ex(v, ctx, BOOL)
                self.want(v, ty, BOOL)
                if k > 0 and len(ctx.pre) != n0:
                    raise Rejected(f"{where(v)}: a later operand of and/or with effects (short-circuit order is not translated)")
                terms.append(t)
            out = terms[-1]
            for t in reversed(terms[:-1]):
                out = f"({f} {t} {out})"
            return BOOL, out

        if isinstance(node, ast.IfExp):
            cty, c = self.ex(node.test, ctx, BOOL)
            self.want(node, cty, BOOL)
            n0 = len(ctx.pre)
            (aty, a), (bty, b) = self.two(node.body, node.orelse, ctx, expected)
            if len(ctx.pre) != n0:
                raise Rejected(f"{where(node)}: branches of an if-expression with effects")
            self.want(node, bty, aty)
            return aty, f"(if {c} then {a} else {b})"

        if isinstance(node, ast.ListComp):
            if len(node.generators) != 1:
                raise Rejected(f"{where(node)}: nested comprehension")
            g = node.generators[0]
            if g.ifs or g.is_async:
                raise Rejected(f"{where(node)}: comprehension with a filter")
            ety, it = self.iterable(g.iter, ctx)
            env = dict(ctx.env)
            for n in ast.walk(g.target):
                if isinstance(n, ast.Name) and (n.id in ctx.fn.captured):
                    raise Rejected(f"{where(node)}: comprehension variable {n.id} shadows a captured name")
            pat = self.pattern(g.target, ety, env)
            c = Ctx(ctx.fn, env, ctx.st, True)
            want = expected[1] if isinstance(expected, tuple) and expected[0] == "list" else None
            rty, rt = self.ex(node.elt, c, want)
            if c.pre:
                raise Rejected(f"{where(node)}: comprehension element with effects")
            elpat = "'" + pat if pat.startswith("(") else pat
            return TList(rty), f"(map (fun {elpat} => {rt}) {it})"

        if isinstance(node, ast.Call):
            return self.call(node, ctx, expected)

        raise Rejected(f"{where(node)}: expression {type(node).__name__} is not accepted")

    def pure_expr(self, node):
        return not any(isinstance(n, (ast.Call, ast.Subscript)) for n in ast.walk(node))

    def need_state(self, node, ctx):
        if ctx.st is None:
            raise Rejected(f"{where(node)}: an operation that can raise is not accepted here")

    def two(self, l, r, ctx, expected=None):
        """Translate two operands left to right; an int constant takes the kind of the other operand."""
        if is_int(l) and not is_int(r) and expected is None:
            rr = self.ex(r, ctx, None)
            return self.ex(l, ctx, rr[0] if rr[0] in (NAT, ZT, EXT) else None), rr
        try:
            ll = self.ex(l, ctx, expected)
        except NeedType:
            if ctx.pre:
                raise Rejected(f"{where(l)}: cannot type the left operand before the right one, which has effects")
            rr = self.ex(r, ctx, None)
            return self.ex(l, ctx, rr[0]), rr
        exp_r = expected
        if exp_r is None and ll[0] in (NAT, ZT):
            exp_r = ll[0] if is_int(r) else None
        if exp_r is None and ll[0] == EXT and is_int(r):
            exp_r = ZT
        rr = self.ex(r, ctx, exp_r)
        return ll, rr

    def call(self, node, ctx, expected):
        f = node.func
        if node.keywords:
            raise Rejected(f"{where(node)}: keyword arguments")
        args = node.args
        if any(isinstance(a, ast.Starred) for a in args):
            raise Rejected(f"{where(node)}: starred argument")
        if is_name(f):
            if f.id in ctx.fn.helpers and ctx.env.get(f.id) == ("helper", f.id):
                return self.helper_call(node, ctx)
            if f.id in ctx.env or f.id in ctx.fn.helpers:
                raise Rejected(f"{where(node)}: call of the local value {f.id}")
            if f.id in ("min", "max") and len(args) == 2:
                (aty, a), (bty, b) = self.two(args[0], args[1], ctx, expected if expected in (NAT, ZT) else None)
                self.want(node, bty, aty)
                if aty == NAT:
                    return NAT, f"(Nat.{f.id} {a} {b})"
                if aty == ZT:
                    return ZT, f"(Z.{f.id} {a} {b})"
                raise Rejected(f"{where(node)}: {f.id} of {aty}")
            if f.id == "len" and len(args) == 1:
                ty, t = self.ex(args[0], ctx, None)
                if isinstance(ty, tuple) and ty[0] in ("list", "dict"):
                    return NAT, f"(length {t})"
                raise Rejected(f"{where(node)}: len of {ty}")
            if f.id in VALUE_CLASSES:
                sch = VALUE_CLASSES[f.id]
                if len(args) != len(sch["init"]):
                    raise Rejected(f"{where(node)}: {f.id}(...) with {len(args)} arguments")
                ts = []
                for a, t in zip(args, sch["init"]):
                    ty, term = self.ex(a, ctx, t)
                    self.want(a, ty, t)
                    ts.append(term)
                v = ctx.fn.fresh_t()
                self.need_state(node, ctx)
                ctx.effect(node, f"try_ (gen_{f.id}_init {' '.join(ts)}) {ctx.st} (fun {v} =>\n", ")")
                return sch["coq"], v
            raise Rejected(f"{where(node)}: call of {f.id}")
        if not isinstance(f, ast.Attribute):
            raise Rejected(f"{where(node)}: call of {type(f).__name__}")
        # np.isinf
        if is_name(f.value, "np") and f.attr == "isinf" and len(args) == 1:
            ty, t = self.ex(args[0], ctx, EXT)
            self.want(node, ty, EXT)
            return BOOL, f"(fl_isinf {t})"
        # method calls on the object itself
        target = None
        cls = ctx.fn.cls
        if ctx.st is not None:
            if is_name(f.value, "self"):
                target = cls
            elif (isinstance(f.value, ast.Call) and is_name(f.value.func, "super") and not f.value.args
                  and not f.value.keywords and cls == "SequenceBasedRoutingProblem"):
                target = "RoutingProblem"
            elif (isinstance(f.value, ast.Attribute) and f.value.attr == "vrptw" and is_name(f.value.value, "self")
                  and cls != "VRPTW"):
                target = "VRPTW"
        if target is not None:
            if ctx.live_names():
                raise Rejected(f"{where(node)}: method call while the local name(s) {ctx.live_names()} are bound to a "
                               "container of the object (the callee could change it in place; aliasing is not translated)")
            rec = self.resolve(target, f.attr, node)
            if len(args) != len(rec["params"]):
                raise Rejected(f"{where(node)}: {f.attr} called with {len(args)} of {len(rec['params'])} arguments "
                               "(default values are not translated at call sites)")
            ts = []
            for a, t in zip(args, rec["params"]):
                ty, term = self.ex(a, ctx, t)
                self.want(a, ty, t)
                ts.append(term)
            if rec["depot"]:
                ctx.fn.uses_depot = True
            head = [rec["name"]] + (["strict"] if rec["strict"] else []) + [ctx.st] + (["depot_index"] if rec["depot"] else [])
            s, v = ctx.fn.fresh_s(), ctx.fn.fresh_t()
            ctx.effect(node, f"call ({' '.join(head + ts)}) (fun {s} {v} =>\n", ")")
            ctx.st = s
            return rec["ret"], v
        # list / dict methods
        fld = self.self_field(f.value, ctx)
        if fld is not None and f.attr == "pop" and len(args) == 1 and GRAPH_FIELDS[fld][0][0] == "list":
            fty, acc, setter = GRAPH_FIELDS[fld]
            ity, i = self.ex(args[0], ctx, NAT)
            self.want(node, ity, NAT)
            v = ctx.fn.fresh_t()
            ctx.effect(node, f"try_ (py_pop ({acc} {ctx.st}) {i}) {ctx.st} (fun {v} =>\n", ")")
            self.mutate(node, ctx, setter, f"(snd {v})")
            return fty[1], f"(fst {v})"
        rty, rt = self.ex(f.value, ctx, None)
        if rty == TList(NAT) and f.attr == "index" and len(args) == 1:
            ty, t = self.ex(args[0], ctx, NAT)
            self.want(node, ty, NAT)
            v = ctx.fn.fresh_t()
            self.need_state(node, ctx)
            ctx.effect(node, f"try_ (py_index {t} {rt}) {ctx.st} (fun {v} =>\n", ")")
            return NAT, v
        if isinstance(rty, tuple) and rty[0] == "dict" and not args and f.attr in ("items", "keys", "values"):
            ety = {"items": TPair(KEY, rty[1]), "keys": KEY, "values": rty[1]}[f.attr]
            return TList(ety), f"(dict_{f.attr} {rt})"
        for cname, sch in VALUE_CLASSES.items():
            if rty == sch["coq"] and f.attr in sch["getters"] and not args:
                rec = self.done[(cname, f.attr)]
                return rec["ret"], f"({rec['name']} {rt})"
        raise Rejected(f"{where(node)}: method {f.attr} of a value of kind {rty} is not accepted")


# --------------------------------------------------------------------------------------------
# what return / raise / falling off the end mean in the different kinds of bodies
# --------------------------------------------------------------------------------------------
class MethodMode:
    def expected_return(self):
        return None

    def fallthrough(self, tr, ctx):
        ctx.fn.ret_types.append(UNIT)
        return f"ret {ctx.st} tt"

    def ret_none(self, tr, ctx, st):
        return self.fallthrough(tr, ctx)

    def ret_value(self, tr, ctx, st, ty, term):
        ctx.fn.ret_types.append(ty)
        return f"ret {ctx.st} {term}"

    def raise_(self, tr, ctx, st, cls):
        return f"raise {ctx.st} {cls}"


class PureMode:
    """nested helpers and getters: one value, no raise, no falling off the end"""
    def __init__(self, what):
        self.what = what
        self.ret = None

    def expected_return(self):
        return self.ret

    def fallthrough(self, tr, ctx):
        raise Rejected(f"{self.what}: a path without return value")

    def ret_none(self, tr, ctx, st):
        raise Rejected(f"{where(st)}: {self.what}: bare return")

    def ret_value(self, tr, ctx, st, ty, term):
        if self.ret is not None and self.ret != ty:
            raise Rejected(f"{where(st)}: {self.what}: return values of different kinds")
        self.ret = ty
        return term

    def raise_(self, tr, ctx, st, cls):
        raise Rejected(f"{where(st)}: {self.what}: raise")


class LoopMode:
    def __init__(self, carried):
        self.carried = carried

    def expected_return(self):
        return None

    def fallthrough(self, tr, ctx):
        ts = [ctx.env[v][1] for v in self.carried]
        return "(" + ", ".join(ts) + ")" if len(ts) > 1 else ts[0]

    def ret_none(self, tr, ctx, st):
        raise Rejected(f"{where(st)}: return inside a loop")

    def ret_value(self, tr, ctx, st, ty, term):
        raise Rejected(f"{where(st)}: return inside a loop")

    def raise_(self, tr, ctx, st, cls):
        raise Rejected(f"{where(st)}: raise inside a loop")


class EffectLoopMode:
    """body of a for_each loop: M unit; ends by falling off the end"""
    def expected_return(self):
        return None

    def fallthrough(self, tr, ctx):
        return f"ret {ctx.st} tt"

    def ret_none(self, tr, ctx, st):
        raise Rejected(f"{where(st)}: return inside a loop")

    def ret_value(self, tr, ctx, st, ty, term):
        raise Rejected(f"{where(st)}: return inside a loop")

    def raise_(self, tr, ctx, st, cls):
        raise Rejected(f"{where(st)}: raise inside a loop")


class InitMode:
    """__init__ of a value class: result <object>"""
    def __init__(self, cls, sch):
        self.cls, self.sch = cls, sch

    def expected_return(self):
        return None

    def store(self, tr, ctx, st, field, value):
        ftypes = dict(self.sch["fields"])
        if field not in ftypes:
            raise Rejected(f"{where(st)}: {self.cls} has no field {field} in the model")
        if field in ctx.fields:
            raise Rejected(f"{where(st)}: field {field} assigned twice")
        ty, term = tr.ex(value, ctx, ftypes[field])
        if ty != ftypes[field]:
            raise Rejected(f"{where(st)}: self.{field} receives a value of kind {ty}")
        ctx.fields[field] = term

    def fallthrough(self, tr, ctx):
        missing = [f for f, _ in self.sch["fields"] if f not in ctx.fields]
        if missing:
            raise Rejected(f"{self.cls}.__init__ does not assign {missing}")
        return "Ok (" + " ".join([self.sch["ctor"]] + [ctx.fields[f] for f, _ in self.sch["fields"]]) + ")"

    def ret_none(self, tr, ctx, st):
        return self.fallthrough(tr, ctx)

    def ret_value(self, tr, ctx, st, ty, term):
        raise Rejected(f"{where(st)}: __init__ returns a value")

    def raise_(self, tr, ctx, st, cls):
        return f"Err {cls}"


# --------------------------------------------------------------------------------------------
FILES = {"vrptw": "routing_problem/vrptw.py", "rp": "routing_problem/routing_problem.py",
         "seq": "routing_problem/formulations/sequence_based_rp.py"}
WANTED = [("VRPTW", "get_node_index"), ("VRPTW", "add_node"), ("VRPTW", "add_arc"), ("VRPTW", "set_depot"),
          ("VRPTW", "estimate_max_vehicles"),
          ("RoutingProblem", "get_node_index"), ("RoutingProblem", "add_node"), ("RoutingProblem", "add_arc"),
          ("RoutingProblem", "set_depot"), ("RoutingProblem", "estimate_max_vehicles"),
          ("SequenceBasedRoutingProblem", "add_arc"), ("SequenceBasedRoutingProblem", "set_depot")]
# methods a SequenceBasedRoutingProblem must inherit unchanged for the dispatch of PyVrptw.gstep to be right
NOT_OVERRIDDEN = ["add_node", "get_node_index", "estimate_max_vehicles"]


def translate_sources(sources, origin=""):
    tr = Translator(sources)
    for m in NOT_OVERRIDDEN:
        if tr.defines("SequenceBasedRoutingProblem", m):
            raise Rejected(f"SequenceBasedRoutingProblem overrides {m}")
    tr.out.append(f"(* GENERATED by harness/translate_vrptw.py from {origin or 'the source under test'}.  Do not edit. *)\n"
                  "From VQ Require Import Base Vrptw PyVrptw.\n")
    tr.translate_depot_index()
    tr.translate_vrptw_init()
    for c in VALUE_CLASSES:
        tr.translate_value_class(c)
    for cls, name in WANTED:
        tr.resolve(cls, name, None)
    text = "\n".join(tr.out)
    if "\x00" in text:
        raise Rejected("internal: unresolved helper placeholder")
    return text


def read_sources(repo):
    out = {}
    for k, rel in FILES.items():
        p = os.path.join(repo, "src/vrpqubo", rel)
        try:
            with open(p) as fh:
                out[k] = fh.read()
        except OSError as e:
            raise Rejected(f"cannot read {p}: {e}")
    return out


def translate(repo=None):
    """Entry point for ctx.gen_step: {'VrptwGen.v': text}; raises Rejected."""
    if repo is None:
        from vq import core
        repo = core.REPO
    try:
        text = translate_sources(read_sources(repo), origin=os.path.join(repo, "src/vrpqubo/routing_problem"))
    except NeedType as e:
        raise Rejected(str(e))
    except RecursionError:
        raise Rejected("source too deeply nested")
    return OrderedDict([("VrptwGen.v", text)])


if __name__ == "__main__":
    import sys
    print(translate(sys.argv[1] if len(sys.argv) > 1 else os.environ.get("VQ_REPO", "/repo"))["VrptwGen.v"])
