"""translate_seqcons.py -- fail-closed translator of the methods of SequenceBasedRoutingProblem
(src/vrpqubo/routing_problem/formulations/sequence_based_rp.py of the tree under test) that ASSEMBLE the
sequence-based objective and constraints, into Gallina: coq/gen/SeqConsGen.v.  [C07; feeds C02/C03/C04]

Translated methods (every one must exist; anything outside the whitelist raises `Rejected`):

    build_objective, build_quadratic_constraints, quadratic_constraint_logic, build_linear_constraints,
    reset_build_flags, get_objective_data, get_constraint_data

They call enumerate_variables / get_num_variables / get_var_index / check_arc, which are the GENERATED
definitions of coq/gen/SeqGen.v (package `seqenum`, harness/translate_seqenum.py): translate() returns both
files, SeqGen.v first, so that both are produced under this package's lock.

The expression layer (types, operators and constants printed from the ast node, coercions nat -> Z, ranges,
tuples, comparisons) is the printer of translate_enumcore.py, subclassed here.  The statement layer is
this file's own, because the builders may raise inside loops and call methods that change the object:

* a method is  gen_<m> (self : cstate) <params> : result (cstate * <value>)   (PySeqCons.v);
* `x = e` -> `let x := e in`;  anything that may raise -> `py_bind <it> (fun x => ...)`, hoisted out of the
  expression it occurs in, in evaluation order: `self.arcs[k]`, `self.vehicle_cost[i]`,
  `self.fixed_values[t]`, `l[-1]`, reading a local that may be unbound, `sparse.coo_array(...)`,
  `self.a[i] op= v` / `self.a[i] = v` on a 1-d array attribute, `l[k] op= e` on a local list;
* calls of translated methods -> `py_bind (gen_<m> self args) (fun '(self, x) => ...)`; calls of the
  generated enumeration methods go through py_call_q / py_call_qr (state of the enumeration half);
* `for` -> `py_bind (py_forE (gen_<m>_body<k> <free>) <iterable> <state>) (fun '<state> => ...)` with the body
  lambda-lifted as in translate_enumcore.py; `continue` -> Ok (CNext, st), `break` -> Ok (CBreak, st);
* `if` as in translate_enumcore.py (exit branch / join of the assigned state / duplicated rest), joins
  are `py_bind (if c then .. else ..) (fun '<state> => ...)`; a name first assigned in BOTH branches
  is part of the joined state;
* `assert c, msg` -> `if c then ... else Err AssertionError`;
* locals are function scoped in Python: a local read at a point where it is not definitely assigned
  (`var_index` in build_objective) is declared `PyUnbound` at the top of the method, carried through every
  loop that assigns it, assigned with `PyBound` and read with py_local_get;
* local lists (`qrow = []` ... `qrow.append(x)`) are values; the guards that make this sound: a list
  local is never copied to another name or stored in an attribute, and a method that appends to a
  list PARAMETER must return it and every caller must re-bind the same local (`a, b = self.m(.., a, b)`);
* `print(<constant>)`, logger calls, docstrings, `time.time()` bookkeeping are dropped.

No statement is recognised by its text; operators, constants, argument order, loop bounds and the order of
statements all come from the ast.
"""
import ast
import os
from collections import OrderedDict

import translate_enumcore as E
import translate_seqenum as SQ
from translate_enumcore import (ARC, BOOL, EMPTYLIST, LIT, NAT, NODE, NONE, OPAQUE, ZT, ClassSpec, Field, FnInfo,  # noqa: F401
                                Rejected, T_custom, T_dict, T_list, T_ndarray, T_tuple, Val, ident, indent,
                                is_name, is_none, is_self_attr, is_seq, rej)

TUP = T_tuple(NAT, NAT, NAT)
KEY = T_tuple(NAT, NAT)
MAT = T_custom("mat2")
PYNAME = T_custom("pyname")
TDICT = T_custom("(tdict Z)")
UNKNOWN = "unknown"


def T_opt(t):
    return ("option", t)


def T_maybe(t):
    return ("maybe", t)


IDX = T_opt(ZT)


def ctype(t):
    if t == UNKNOWN:
        return "_"
    if isinstance(t, tuple) and t[0] == "maybe":
        return f"(py_local {ctype(t[1])})"
    if isinstance(t, tuple) and t[0] in ("list", "ndarray"):
        return f"(list {ctype(t[1])})"
    if isinstance(t, tuple) and t[0] == "option":
        return f"(option {ctype(t[1])})"
    if isinstance(t, tuple) and t[0] == "tuple":
        return "(" + " * ".join(ctype(x) for x in t[1]) + ")"
    return E.coq_type(t)


def has_unknown(t):
    if t == UNKNOWN:
        return True
    if isinstance(t, tuple):
        return any(has_unknown(x) for x in (t[1] if isinstance(t[1], tuple) and t[0] == "tuple" else t[1:]))
    return False


# attributes: name -> Field.  item = ("raising", key type, value type, combinator) as in translate_enumcore
FIELDS = {
    "max_sequence_length": Field(NAT, "cq_max_sequence_length"),
    "max_vehicles": Field(NAT, "cq_max_vehicles"),
    "vehicle_cost": Field(T_list(ZT), "cq_vehicle_cost", None, item=("raising", NAT, ZT, "py_list_item")),
    "fixed_values": Field(TDICT, "cq_fixed_values", None, item=("raising", TUP, ZT, "py_tdict_getitem")),
    "nodes": Field(T_list(NODE), "cq_nodes"),
    "arcs": Field(T_dict(ARC), "cq_arcs", None, item=("raising", KEY, ARC, "py_dict_getitem")),
    "variables_enumerated": Field(BOOL, "cq_variables_enumerated", "cqset_variables_enumerated"),
    "objective_built": Field(BOOL, "c_objective_built", "cset_objective_built"),
    "lin_con_built": Field(BOOL, "c_lin_con_built", "cset_lin_con_built"),
    "quad_con_built": Field(BOOL, "c_quad_con_built", "cset_quad_con_built"),
    "lin_con_names": Field(T_list(PYNAME), "c_lin_con_names", "cset_lin_con_names"),
    "objective_c": Field(T_ndarray(ZT), "c_objective_c", "cset_objective_c"),
    "objective_q": Field(MAT, "c_objective_q", "cset_objective_q"),
    "quadratic_constraints_matrix": Field(MAT, "c_quadratic_constraints_matrix", "cset_quadratic_constraints_matrix"),
    "linear_constraints_matrix": Field(MAT, "c_linear_constraints_matrix", "cset_linear_constraints_matrix"),
    "linear_constraints_rhs": Field(T_ndarray(ZT), "c_linear_constraints_rhs", "cset_linear_constraints_rhs"),
}
# attributes that live in the enumeration half (they are assigned by the generated methods of SeqGen.v)
ENUM_ATTRS = {"var_mapping", "fixed_values", "var_mapping_inverse", "num_variables", "variables_enumerated"}

OBJ_METHODS = {
    (ARC, "get_cost"): (ZT, "(py_get_cost {r})"),
    (MAT, "toarray"): (MAT, "(sp_toarray {r})"),
}

SIGNATURES = OrderedDict([
    ("reset_build_flags", []),
    ("quadratic_constraint_logic", [NAT, NAT, NAT, NAT, T_list(IDX), T_list(IDX)]),
    ("build_objective", []),
    ("build_quadratic_constraints", []),
    ("build_linear_constraints", []),
    ("get_objective_data", []),
    ("get_constraint_data", []),
])
# methods of the enumeration half that the builders may call (generated by translate_seqenum)
EXTERNAL = ("enumerate_variables", "get_num_variables", "get_var_index", "check_arc")

ARITH_FN = {ast.Add: "(fun a_ b_ => (a_ + b_)%Z)", ast.Sub: "(fun a_ b_ => (a_ - b_)%Z)",
            ast.Mult: "(fun a_ b_ => (a_ * b_)%Z)"}


# ----------------------------------------------------------------------------- definite assignment
def maybe_unbound(fn):
    """Names of locals that are read somewhere where they are not definitely assigned (Python locals are
    function scoped: such a read sees the value of an earlier loop iteration / branch, or raises)."""
    params = {a.arg for a in fn.args.args}
    assigned_somewhere = set(E.assigned_names(fn.body))
    flagged = []

    def reads(node, da):
        for sub in ast.walk(node):
            if isinstance(sub, ast.Name) and isinstance(sub.ctx, ast.Load) and sub.id in assigned_somewhere \
                    and sub.id not in da and sub.id not in params and sub.id not in flagged:
                flagged.append(sub.id)

    def targets(t, da):
        for sub in ast.walk(t):
            if isinstance(sub, ast.Name) and isinstance(sub.ctx, ast.Store):
                da.add(sub.id)

    def walk(block, da):
        """returns the definitely-assigned set after the block (None when the block always exits)"""
        for st in block:
            if isinstance(st, ast.Assign):
                reads(st.value, da)
                for t in st.targets:
                    if isinstance(t, ast.Subscript):
                        reads(t, da)
                    targets(t, da)
            elif isinstance(st, ast.AugAssign):
                reads(st.value, da)
                reads(ast.copy_location(E._as_load(st.target), st), da)
                if isinstance(st.target, ast.Subscript):
                    reads(st.target.slice, da)
                targets(st.target, da)
            elif isinstance(st, ast.If):
                reads(st.test, da)
                a = walk(st.body, set(da))
                b = walk(st.orelse, set(da))
                if a is None and b is None:
                    return None
                new = b if a is None else a if b is None else (a & b)
                da |= new
            elif isinstance(st, ast.For):
                reads(st.iter, da)
                inner = set(da)
                targets(st.target, inner)
                walk(st.body, inner)
            elif isinstance(st, (ast.Return, ast.Continue, ast.Break, ast.Raise)):
                if isinstance(st, ast.Return) and st.value is not None:
                    reads(st.value, da)
                return None
            elif isinstance(st, ast.Assert):
                reads(st.test, da)
            else:
                reads(st, da)
        return da

    walk(fn.body, set())
    return flagged


def mutated_names(stmts):
    """Locals whose value changes anywhere in the block: assigned, augmented, `x.append(..)`, `x[k] = ..`
    (nested loops and ifs included; loop targets not included), in order of first occurrence."""
    out = []

    def add(n):
        if n not in out:
            out.append(n)

    def tgt(t):
        if isinstance(t, ast.Subscript):
            if is_name(t.value):
                add(t.value.id)
            return
        for sub in ast.walk(t):
            if isinstance(sub, ast.Name) and isinstance(sub.ctx, ast.Store):
                add(sub.id)

    def walk(block):
        for st in block:
            if isinstance(st, ast.Assign):
                for t in st.targets:
                    tgt(t)
            elif isinstance(st, ast.AugAssign):
                tgt(st.target)
            elif isinstance(st, ast.Expr) and isinstance(st.value, ast.Call) and isinstance(st.value.func, ast.Attribute) \
                    and is_name(st.value.func.value) and st.value.func.value.id != "self":
                if st.value.func.attr == "append":
                    add(st.value.func.value.id)
            elif isinstance(st, ast.If):
                walk(st.body)
                walk(st.orelse)
            elif isinstance(st, ast.For):
                walk(st.body)
    walk(stmts)
    return out


def inplace_names(stmts):
    """Locals that are changed in place somewhere (x.append(..), x[k] = .., x[k] op= ..)."""
    out = set()
    for st in stmts:
        for sub in ast.walk(st):
            if isinstance(sub, ast.Call) and isinstance(sub.func, ast.Attribute) and is_name(sub.func.value) \
                    and sub.func.attr in ("append", "insert", "pop", "remove", "clear", "extend", "sort", "reverse"):
                out.add(sub.func.value.id)
            if isinstance(sub, ast.Subscript) and isinstance(sub.ctx, ast.Store) and is_name(sub.value):
                out.add(sub.value.id)
    return out


def surely_assigned(stmts):
    """Names definitely (re)bound by plain assignment when the block runs to its end."""
    out = set()
    for st in stmts:
        if isinstance(st, ast.Assign):
            for t in st.targets:
                if not isinstance(t, ast.Subscript):
                    for sub in ast.walk(t):
                        if isinstance(sub, ast.Name) and isinstance(sub.ctx, ast.Store):
                            out.add(sub.id)
        elif isinstance(st, ast.If) and st.orelse:
            out |= surely_assigned(st.body) & surely_assigned(st.orelse)
    return out


def is_print_stmt(st):
    return (isinstance(st, ast.Expr) and isinstance(st.value, ast.Call) and is_name(st.value.func, "print")
            and not st.value.keywords and all(isinstance(a, ast.Constant) for a in st.value.args))


def coq_string(s, node):
    for ch in s:
        if not (32 <= ord(ch) < 127):
            rej(node, "non-printable / non-ASCII character in an f-string")
    return '"' + s.replace('"', '""') + '"%string'


# ----------------------------------------------------------------------------- numpy / itertools hooks
def x_product(tr, e, args):
    if not isinstance(e.func, ast.Name) or len(args) != 2 or not all(is_seq(a.ty) for a in args):
        rej(e, "product is only accepted as product(<list>, <list>)")
    return Val(T_list(T_tuple(args[0].ty[1], args[1].ty[1])), f"(py_product {args[0].term} {args[1].term})")


def _np1(e, args, what):
    if e.keywords or len(args) != 1 or not (isinstance(e.func, ast.Attribute) and is_name(e.func.value, "np")):
        rej(e, f"np.{what} is only accepted with one positional argument")


def x_zeros(tr, e, args):
    _np1(e, args, "zeros")
    return Val(T_ndarray(ZT), f"(np_zeros1 {tr.coerce(args[0], NAT, e)})")


def x_ones(tr, e, args):
    _np1(e, args, "ones")
    return Val(T_ndarray(ZT), f"(np_ones1 {tr.coerce(args[0], NAT, e)})")


def x_array(tr, e, args):
    _np1(e, args, "array")
    if not (is_seq(args[0].ty) and args[0].ty[1] == ZT):
        rej(e, f"np.array of a value of type {args[0].ty!r}")
    return Val(T_ndarray(ZT), f"(np_array {args[0].term})")


def x_isclose(tr, e, args):
    if e.keywords or len(args) != 2 or not (isinstance(e.func, ast.Attribute) and is_name(e.func.value, "np")):
        rej(e, "np.isclose is only accepted with two positional arguments")
    return Val(BOOL, f"(np_isclose {tr.coerce(args[0], ZT, e)} {tr.coerce(args[1], ZT, e)})")


SPEC = ClassSpec("SequenceBasedRoutingProblem", "cstate", FIELDS, OBJ_METHODS, SIGNATURES,
                 extra_calls={"product": x_product, "zeros": x_zeros, "ones": x_ones, "array": x_array,
                              "isclose": x_isclose})


class ConsTranslator(E.Translator):
    def __init__(self, spec, cls, ext, hints):
        super().__init__(spec, cls)
        self.ext = ext            # methods of the enumeration half: name -> FnInfo of the seqenum run
        self.hints = hints        # (method, local) -> element type of a list local / type of a maybe-unbound local
        self.learned = False
        self.frames = []
        self.tmp = 0
        self.writes = {}
        self.ok_mut_calls = set()
        self.loop_targets = frozenset()

    # ------------------------------------------------------------------ set-up
    def collect(self):
        seen = {}
        for n in self.cls.body:
            if isinstance(n, ast.FunctionDef):
                if n.name in seen:
                    rej(n, f"method {n.name} is defined twice")
                seen[n.name] = n
        for name, ptypes in self.spec.signatures.items():
            if name not in seen:
                raise Rejected(f"{self.spec.class_name}.{name} not found")
            fn = seen[name]
            a = fn.args
            if fn.decorator_list or a.vararg or a.kwarg or a.kwonlyargs or a.posonlyargs or a.defaults:
                rej(fn, f"{name}: decorators / star / keyword-only / default parameters are not accepted")
            names = [x.arg for x in a.args]
            if not names or names[0] != "self" or len(names) != len(ptypes) + 1 or len(set(names)) != len(names):
                rej(fn, f"{name}: parameters {names}, expected self + {len(ptypes)}")
            self.fns[name] = FnInfo(name, fn, ptypes)
        calls, direct = {}, {}
        for name, info in self.fns.items():
            cs, w = [], set()
            for sub in ast.walk(info.node):
                if isinstance(sub, ast.Call) and is_self_attr(sub.func):
                    cs.append((sub.func.attr, sub))
                    if sub.func.attr in self.ext and not self.ext[sub.func.attr].pure:
                        w |= ENUM_ATTRS
                if isinstance(sub, (ast.Assign, ast.AugAssign)):
                    for t in (sub.targets if isinstance(sub, ast.Assign) else [sub.target]):
                        for x in ast.walk(t):
                            if is_self_attr(x):
                                w.add(x.attr)
                if isinstance(sub, ast.Call) and isinstance(sub.func, ast.Attribute) and is_self_attr(sub.func.value):
                    if sub.func.attr not in ("keys", "values", "index", "get_cost", "toarray"):
                        w.add(sub.func.value.attr)
            calls[name], direct[name] = cs, w
        order, state = [], {}

        def visit(n, via):
            if state.get(n) == "done":
                return
            if state.get(n) == "open":
                rej(via, f"recursive call cycle through {n}")
            state[n] = "open"
            for callee, node in calls[n]:
                if callee in self.ext:
                    continue
                if callee not in self.fns:
                    rej(node, f"{n} calls self.{callee}(), which is not a translated method")
                visit(callee, node)
            state[n] = "done"
            order.append(n)
        for n in self.fns:
            visit(n, self.fns[n].node)
        for n in order:
            info = self.fns[n]
            w = set(direct[n])
            for c, _ in calls[n]:
                if c in self.fns:
                    w |= self.writes[c]
            self.writes[n] = w
            info.pure, info.raising = False, True
            rets = [s for s in ast.walk(info.node) if isinstance(s, ast.Return)]
            info.has_value = any(not is_none(r.value) for r in rets)
            info.has_none = any(is_none(r.value) for r in rets) or not E.always_exits(info.node.body)
            if info.has_value and info.has_none:
                rej(info.node, f"{n} returns a value on some paths and None on others")
            self.list_param_guard(info)
        return order

    def list_param_guard(self, info):
        """A list parameter that is appended to in place must be handed back: `return` (the only one, last
        statement) lists it, so that the caller can re-bind its own name to the result."""
        fn = info.node
        pnames = [a.arg for a in fn.args.args[1:]]
        mut = [p for p in mutated_names(fn.body) if p in pnames]
        info.mut_ret = {}
        for p in mut:
            if not is_seq(info.param_types[pnames.index(p)]):
                rej(fn, f"{info.name}: parameter {p} is assigned")
        if not mut:
            return
        for sub in ast.walk(fn):
            if isinstance(sub, ast.Assign):
                for t in sub.targets:
                    for x in ast.walk(t):
                        if isinstance(x, ast.Name) and x.id in mut and not isinstance(t, ast.Subscript):
                            rej(sub, f"{info.name}: the list parameter {x.id} is re-bound")
        rets = [s for s in ast.walk(fn) if isinstance(s, ast.Return)]
        last = [s for s in fn.body if not E.ignorable(s)][-1]
        if len(rets) != 1 or rets[0] is not last:
            rej(fn, f"{info.name} appends to a list parameter: it must end with its only `return`")
        val = rets[0].value
        elts = val.elts if isinstance(val, ast.Tuple) else [val]
        for p in mut:
            pos = [k for k, x in enumerate(elts) if is_name(x, p)]
            if len(pos) != 1:
                rej(rets[0], f"{info.name} appends to the list parameter {p} but does not return it")
            info.mut_ret[pnames.index(p)] = (pos[0], len(elts))

    # ------------------------------------------------------------------ hoisting
    def fresh(self):
        self.tmp += 1
        return f"t{self.tmp}_"

    def hoist(self, kind, term, ty, node=None):
        if not self.frames:
            rej(node, "internal: hoist outside a statement")
        v = self.fresh()
        self.frames[-1].append((kind, v, term, node))
        return Val(ty, v)

    def with_frame(self, roots, fn):
        self.frames.append([])
        out = fn()
        fr = self.frames.pop()
        calls = [h for h in fr if h[0] == "call"]
        if calls:
            if len(calls) > 1:
                rej(calls[1][3], "two calls that change the object in one statement")
            inside = {id(x) for x in ast.walk(calls[0][3])}
            for r in roots:
                for sub in ast.walk(r):
                    if is_self_attr(sub) and isinstance(sub.ctx, ast.Load) and id(sub) not in inside:
                        rej(sub, "an attribute is read in the same statement as a call that changes the object")
        return out, fr

    def wrap(self, fr, text):
        for kind, v, term, _ in reversed(fr):
            pat = f"'(self, {v})" if kind == "call" else v
            text = f"py_bind {term} (fun {pat} =>\n{text})"
        return text

    # ------------------------------------------------------------------ expressions
    def coerce(self, v, ty, node):
        if ty == IDX and v.ty in (NAT, LIT) and not v.raising:
            return f"(py_idx_nat {super().coerce(v, NAT, node)})"
        if ty == IDX and v.ty == ZT and not v.raising:
            return f"(Some {v.term})"
        if ty == UNKNOWN or has_unknown(v.ty if v.ty is not None else NAT):
            return v.term if v.term is not None else "_"
        return super().coerce(v, ty, node)

    def expr(self, e, env):
        if isinstance(e, ast.Constant) and isinstance(e.value, float):
            if e.value != int(e.value):
                rej(e, f"constant {e.value!r} is not an integer")
            return Val(ZT, f"({int(e.value)})%Z")
        if isinstance(e, ast.Name) and e.id in env and isinstance(env[e.id], tuple) and env[e.id][0] == "maybe":
            return self.hoist("bind", f"(py_local_get {ident(e.id)})", env[e.id][1], e)
        if isinstance(e, (ast.BoolOp, ast.IfExp)):
            self.frames.append([])
            v = super().expr(e, env)
            if self.frames.pop():
                rej(e, "something that may raise or change the object inside and/or / a conditional expression")
            return v
        if isinstance(e, ast.JoinedStr):
            parts = []
            for p in e.values:
                if isinstance(p, ast.Constant) and isinstance(p.value, str):
                    parts.append(f"FStr {coq_string(p.value, e)}")
                elif isinstance(p, ast.FormattedValue) and p.conversion == -1 and p.format_spec is None \
                        and is_name(p.value) and env.get(p.value.id) == NAT:
                    parts.append(f"FNat {ident(p.value.id)}")
                else:
                    rej(e, "f-string component that is not text or a plain natural-number local")
            return Val(PYNAME, "(py_fstr [" + "; ".join(parts) + "])")
        return super().expr(e, env)

    def compare1(self, e, op, a, b):
        if isinstance(op, (ast.Is, ast.IsNot)):
            if b.ty != NONE:
                rej(e, "`is` / `is not` is only accepted against None")
            if not (isinstance(a.ty, tuple) and a.ty[0] == "option"):
                rej(e, f"`is None` on a value of type {a.ty!r}")
            t = f"(py_is_none {a.term})"
            return t if isinstance(op, ast.Is) else f"(negb {t})"
        return super().compare1(e, op, a, b)

    def subscript(self, e, env):
        if is_name(e.value) and e.value.id in env and is_seq(env[e.value.id]):
            lst = self.pure(e.value, env)
            if isinstance(e.slice, ast.Slice):
                rej(e, "slices are not accepted")
            k = self.pure(e.slice, env)
            if k.ty == NAT:
                term = f"(py_list_item {lst.term} {k.term})"
            elif k.ty in (LIT, ZT):
                term = f"(py_list_getitem_z {lst.term} {self.coerce(k, ZT, e)})"
            else:
                rej(e, f"list index of type {k.ty!r}")
            return self.hoist("bind", term, lst.ty[1], e)
        v = super().subscript(e, env)
        if v.raising:
            return self.hoist("bind", v.term, v.ty, e)
        return v

    def ext_value_type(self, info):
        if not info.has_value:
            return E.UNIT
        return T_opt(info.ret_type) if info.has_none else info.ret_type

    def call(self, e, env):
        f = e.func
        if is_self_attr(f):
            if e.keywords or any(isinstance(a, ast.Starred) for a in e.args):
                rej(e, "keyword / star arguments are not accepted")
            name = f.attr
            info = self.ext.get(name) if name in self.ext else self.fns.get(name)
            if info is None:
                rej(e, f"self.{name}() is not a translated method")
            if len(e.args) != len(info.param_types):
                rej(e, f"self.{name}() called with {len(e.args)} arguments")
            args = "".join(" " + self.coerce(self.pure(a, env), t, e) for a, t in zip(e.args, info.param_types))
            if name in self.ext:
                vty = self.ext_value_type(info)
                if info.pure and not info.raising:
                    return Val(vty, f"(gen_{name} (c_q self){args})")
                if info.pure:
                    rej(e, f"self.{name}(): a raising method that does not change the object is not modelled")
                comb = "py_call_qr" if info.raising else "py_call_q"
                return self.hoist("call", f"({comb} (fun q_ => gen_{name} q_{args}) self)", vty, e)
            if info.mut_ret and id(e) not in self.ok_mut_calls:
                rej(e, f"self.{name}() appends to its list arguments: the call must be `a, b = self.{name}(.., a, b)`")
            if info.ret_type is None and info.has_value:
                rej(e, f"internal: return type of {name} is not known yet")
            return self.hoist("call", f"(gen_{name} self{args})", info.ret_type if info.has_value else E.UNIT, e)
        if isinstance(f, ast.Attribute) and is_name(f.value, "sparse"):
            return self.sparse_call(e, env)
        return super().call(e, env)

    def index_list(self, v, node):
        if is_seq(v.ty) and v.ty[1] == IDX:
            return v.term
        if is_seq(v.ty) and v.ty[1] == NAT:
            return f"(map py_idx_nat {v.term})"
        if is_seq(v.ty) and v.ty[1] == ZT:
            return f"(map (@Some Z) {v.term})"
        if v.ty == EMPTYLIST:
            return "[]"
        if has_unknown(v.ty):
            return "_"
        rej(node, f"index list of type {v.ty!r}")

    def sparse_call(self, e, env):
        name = e.func.attr
        if name == "csr_array" and len(e.args) == 1 and not e.keywords:
            m = self.pure(e.args[0], env)
            if m.ty != MAT:
                rej(e, "sparse.csr_array of something that is not a matrix")
            return Val(MAT, f"(sp_csr_array {m.term})")
        if name == "coo_array" and len(e.args) == 1 and len(e.keywords) == 1 and e.keywords[0].arg == "shape":
            a = e.args[0]
            if not (isinstance(a, ast.Tuple) and len(a.elts) == 2 and isinstance(a.elts[1], ast.Tuple) and len(a.elts[1].elts) == 2):
                rej(e, "sparse.coo_array is only accepted as coo_array((vals, (rows, cols)), shape=(r, c))")
            vals = self.pure(a.elts[0], env)
            rows = self.pure(a.elts[1].elts[0], env)
            cols = self.pure(a.elts[1].elts[1], env)
            shape = self.pure(e.keywords[0].value, env)
            if not (is_seq(vals.ty) and (vals.ty[1] == ZT or has_unknown(vals.ty))) and vals.ty != EMPTYLIST:
                rej(e, f"coo_array values of type {vals.ty!r}")
            vterm = "[]" if vals.ty == EMPTYLIST else vals.term
            term = (f"(sp_coo_array {vterm} {self.index_list(rows, e)} {self.index_list(cols, e)} "
                    f"{self.coerce(shape, T_tuple(NAT, NAT), e)})")
            return self.hoist("bind", term, MAT, e)
        rej(e, f"sparse.{name} with these arguments is not accepted")

    # ------------------------------------------------------------------ statements
    def state_pat(self, svars):
        names = ["self" if n == "self" else ident(n) for n in svars]
        return names[0] if len(names) == 1 else "(" + ", ".join(names) + ")"

    def fun_pat(self, svars):
        return self.state_pat(svars) if len(svars) == 1 else "'" + self.state_pat(svars)

    def state_type(self, svars, env):
        ts = [self.spec.state_type if n == "self" else ctype(env[n]) for n in svars]
        return ts[0] if len(ts) == 1 else "(" + " * ".join(ts) + ")"

    def ignorable(self, st):
        return is_print_stmt(st) or E.ignorable_checked(st)

    def finish(self, env, ctx):
        kind = ctx["kind"]
        if kind == "fn":
            if self.cur.has_value:
                rej(self.cur.node, "a path falls off the end of a method that returns a value")
            return "Ok (self, Datatypes.tt)"
        if kind == "loop":
            return f"Ok (CNext, {self.state_pat(ctx['svars'])})"
        ctx.setdefault("final_envs", []).append(env)
        return f"Ok {self.state_pat(ctx['svars'])}"

    def bind_local(self, name, ty, node, env):
        if name.startswith("t") and name.endswith("_") and name[1:-1].isdigit() or name in ("q_", "a_", "b_"):
            rej(node, f"local name {name} collides with the translator's temporaries")
        if has_unknown(ty):
            env2 = dict(env)
            env2[name] = ty
            return env2
        if name in env and has_unknown(env[name]) and is_seq(ty) and is_seq(env[name]):
            self.hints[(self.cur.name, name)] = ty[1]
            self.learned = True
            env2 = dict(env)
            env2[name] = ty
            return env2
        return super().bind_local(name, ty, node, env)

    def block(self, stmts, env, ctx):
        stmts = [s for s in stmts if not self.ignorable(s)]
        if not stmts:
            return self.finish(env, ctx)
        st, rest = stmts[0], stmts[1:]
        if isinstance(st, ast.Return):
            if rest:
                rej(rest[0], "statement after return")
            if ctx["kind"] != "fn":
                rej(st, "return inside a loop or inside a branch that is joined is not accepted")
            if is_none(st.value):
                if self.cur.has_value:
                    rej(st, "bare return in a method that returns a value")
                return "Ok (self, Datatypes.tt)"
            v, fr = self.with_frame([st.value], lambda: self.settle(self.expr(st.value, env), st))
            if v.ty in (OPAQUE, NONE):
                rej(st, "the returned value has no value type")
            if self.cur.ret_type is None:
                self.cur.ret_type = v.ty
            elif self.cur.ret_type != v.ty:
                rej(st, "two returns with values of different types")
            return self.wrap(fr, f"Ok (self, {v.term})")
        if isinstance(st, (ast.Continue, ast.Break)):
            if rest:
                rej(rest[0], "statement after continue/break")
            if ctx["kind"] != "loop":
                rej(st, "continue/break outside a translated loop body (or inside a joined branch)")
            flag = "CNext" if isinstance(st, ast.Continue) else "CBreak"
            return f"Ok ({flag}, {self.state_pat(ctx['svars'])})"
        if isinstance(st, ast.Assign):
            if len(st.targets) != 1:
                rej(st, "chained assignment")
            return self.assign(st.targets[0], st.value, st, rest, env, ctx)
        if isinstance(st, ast.AugAssign):
            return self.aug_assign(st, rest, env, ctx)
        if isinstance(st, ast.Expr):
            return self.expr_stmt(st, rest, env, ctx)
        if isinstance(st, ast.If):
            return self.if_stmt(st, rest, env, ctx)
        if isinstance(st, ast.For):
            return self.for_stmt(st, rest, env, ctx)
        if isinstance(st, ast.Assert):
            if st.msg is not None and not isinstance(st.msg, (ast.Constant, ast.JoinedStr)):
                rej(st, "assert message that is not a string")
            if isinstance(st.msg, ast.JoinedStr) and any(isinstance(x, ast.Call) for x in ast.walk(st.msg)):
                rej(st, "assert message with a call")
            c, fr = self.with_frame([st.test], lambda: self.cond(st.test, env))
            return self.wrap(fr, f"if {c} then\n{indent(self.block(rest, env, ctx))}\nelse\n  Err AssertionError")
        rej(st, f"statement {type(st).__name__} is not accepted")

    def alias_guard(self, value, env, node):
        if is_name(value) and value.id in env and (is_seq(env[value.id]) or env[value.id] == MAT):
            rej(node, f"the list / array {value.id} gets a second name (aliasing is not modelled)")

    def assign_name(self, name, v, st, env):
        """`name = v`: returns (let-line, new env)"""
        cur = env.get(name)
        if isinstance(cur, tuple) and cur[0] == "maybe":
            if cur[1] == UNKNOWN and not has_unknown(v.ty):
                self.hints[(self.cur.name, name)] = v.ty
                self.learned = True
            elif cur[1] != UNKNOWN and cur[1] != v.ty:
                rej(st, f"local {name} changes its type")
            if name in self.loop_targets:
                rej(st, f"assignment to the loop variable {name}")
            return f"let {ident(name)} := PyBound {v.term} in\n", env
        env2 = self.bind_local(name, v.ty, st, env)
        return f"let {ident(name)} := {v.term} in\n", env2

    def assign(self, target, value, st, rest, env, ctx):
        # `a, b = self.m(.., a, b)` for a method that appends to its list parameters
        if isinstance(value, ast.Call) and is_self_attr(value.func) and value.func.attr in self.fns \
                and self.fns[value.func.attr].mut_ret:
            info = self.fns[value.func.attr]
            telts = target.elts if isinstance(target, ast.Tuple) else [target]
            for pi, (pos, n) in info.mut_ret.items():
                a = value.args[pi] if pi < len(value.args) else None
                if not (is_name(a) and len(telts) == n and is_name(telts[pos], a.id)):
                    rej(st, f"self.{info.name}() appends to its argument {pi + 1}: the caller must pass a local and "
                            f"re-bind the same local to the returned list")
            self.ok_mut_calls.add(id(value))
        if is_name(target):
            if isinstance(value, ast.List) and not value.elts:
                hint = self.hints.get((self.cur.name, target.id), UNKNOWN)
                if target.id in env and is_seq(env[target.id]):
                    hint = env[target.id][1]
                line, env2 = self.assign_name(target.id, Val(T_list(hint), "[]"), st, env)
                return line + self.block(rest, env2, ctx)
            self.alias_guard(value, env, st)
            if is_self_attr(value) and target.id in inplace_names(self.cur.node.body):
                rej(st, f"{target.id} is another name of self.{value.attr} and is changed in place")
            v, fr = self.with_frame([value], lambda: self.expr(value, env))
            if v.ty == OPAQUE:
                if target.id in env and env[target.id] != OPAQUE:
                    rej(st, f"{target.id} changes its type")
                env2 = dict(env)
                env2[target.id] = OPAQUE
                return self.wrap(fr, self.block(rest, env2, ctx))
            if v.ty == NONE:
                rej(st, "assignment of None to a local")
            v = self.settle(v, st)
            line, env2 = self.assign_name(target.id, v, st, env)
            return self.wrap(fr, line + self.block(rest, env2, ctx))
        if is_self_attr(target):
            f = self.spec.fields.get(target.attr)
            if f is None or f.setter is None:
                rej(st, f"assignment to self.{target.attr} is not modelled")
            self.alias_guard(value, env, st)
            v, fr = self.with_frame([value], lambda: self.pure(value, env))
            return self.wrap(fr, f"let self := {f.setter} {self.coerce(v, f.ty, st)} self in\n" + self.block(rest, env, ctx))
        if isinstance(target, ast.Tuple) and all(is_name(x) for x in target.elts):
            v, fr = self.with_frame([value], lambda: self.settle(self.pure(value, env), st))
            if not (isinstance(v.ty, tuple) and v.ty[0] == "tuple" and len(v.ty[1]) == len(target.elts)):
                rej(st, "tuple assignment from a value that is not a tuple of the same length")
            if len({x.id for x in target.elts}) != len(target.elts):
                rej(st, "repeated name in a tuple assignment")
            env2 = env
            for x, t in zip(target.elts, v.ty[1]):
                if isinstance(env.get(x.id), tuple) and env[x.id][0] == "maybe":
                    rej(st, f"tuple assignment to {x.id}, which may be unbound elsewhere")
                env2 = self.bind_local(x.id, t, st, env2)
            pat = "(" + ", ".join(ident(x.id) for x in target.elts) + ")"
            return self.wrap(fr, f"let '{pat} := {v.term} in\n" + self.block(rest, env2, ctx))
        if isinstance(target, ast.Subscript) and is_self_attr(target.value):
            f = self.spec.fields.get(target.value.attr)
            if f is None or f.setter is None or f.ty != T_ndarray(ZT):
                rej(st, f"item assignment to self.{target.value.attr} is not modelled")

            def ev():
                k = self.pure(target.slice, env)
                e = self.coerce(self.pure(value, env), ZT, st)
                return self.hoist("bind", f"(np_vec_setitem ({f.getter} self) {self.coerce(k, IDX, st)} {e})", f.ty, st)
            v, fr = self.with_frame([target.slice, value], ev)
            return self.wrap(fr, f"let self := {f.setter} {v.term} self in\n" + self.block(rest, env, ctx))
        rej(st, "assignment target is not accepted")

    def aug_assign(self, st, rest, env, ctx):
        if type(st.op) not in E.ARITH:
            rej(st, f"augmented assignment with {type(st.op).__name__}")
        t = st.target
        if is_name(t):
            load = ast.copy_location(ast.Name(id=t.id, ctx=ast.Load()), st)
            value = ast.fix_missing_locations(ast.copy_location(ast.BinOp(left=load, op=st.op, right=st.value), st))
            return self.assign(t, value, st, rest, env, ctx)
        if isinstance(t, ast.Subscript) and is_name(t.value) and t.value.id in env and is_seq(env[t.value.id]) \
                and env[t.value.id][1] == ZT:
            # l[k] op= e : read the item, evaluate e, write the item
            name = t.value.id

            def ev():
                k = self.pure(t.slice, env)
                if k.ty not in (NAT, LIT, ZT):
                    rej(st, f"list index of type {k.ty!r}")
                kz = self.coerce(k, ZT, st)
                old = self.hoist("bind", f"(py_list_getitem_z {ident(name)} {kz})", ZT, st)
                e = self.coerce(self.pure(st.value, env), ZT, st)
                new = f"({old.term} {E.ARITH[type(st.op)]} {e})%Z"
                return self.hoist("bind", f"(py_list_setitem_z {ident(name)} {kz} {new})", env[name], st)
            v, fr = self.with_frame([t.slice, st.value], ev)
            return self.wrap(fr, f"let {ident(name)} := {v.term} in\n" + self.block(rest, env, ctx))
        if isinstance(t, ast.Subscript) and is_self_attr(t.value):
            f = self.spec.fields.get(t.value.attr)
            if f is None or f.setter is None or f.ty != T_ndarray(ZT):
                rej(st, f"augmented item assignment to self.{t.value.attr} is not modelled")

            def ev():
                k = self.pure(t.slice, env)
                e = self.coerce(self.pure(st.value, env), ZT, st)
                return self.hoist("bind", f"(np_vec_augitem {ARITH_FN[type(st.op)]} ({f.getter} self) "
                                          f"{self.coerce(k, IDX, st)} {e})", f.ty, st)
            v, fr = self.with_frame([t.slice, st.value], ev)
            return self.wrap(fr, f"let self := {f.setter} {v.term} self in\n" + self.block(rest, env, ctx))
        rej(st, "augmented assignment target is not accepted")

    def expr_stmt(self, st, rest, env, ctx):
        v = st.value
        if isinstance(v, ast.Call) and is_self_attr(v.func):
            _, fr = self.with_frame([v], lambda: self.expr(v, env))
            return self.wrap(fr, self.block(rest, env, ctx))
        if isinstance(v, ast.Call) and isinstance(v.func, ast.Attribute) and v.func.attr == "append" \
                and len(v.args) == 1 and not v.keywords:
            recv = v.func.value
            self.alias_guard(v.args[0], env, st)
            if is_name(recv) and recv.id in env and is_seq(env[recv.id]) and env[recv.id][0] == "list":
                x, fr = self.with_frame([v.args[0]], lambda: self.pure(v.args[0], env))
                ety = env[recv.id][1]
                if ety == UNKNOWN:
                    x = self.settle(x, st)
                    if not has_unknown(x.ty):
                        self.hints[(self.cur.name, recv.id)] = x.ty
                        self.learned = True
                    term = x.term
                else:
                    term = self.coerce(x, ety, st)
                return self.wrap(fr, f"let {ident(recv.id)} := py_append {ident(recv.id)} {term} in\n"
                                     + self.block(rest, env, ctx))
            if is_self_attr(recv):
                f = self.spec.fields.get(recv.attr)
                if f is None or f.setter is None or not (isinstance(f.ty, tuple) and f.ty[0] == "list"):
                    rej(st, f"self.{recv.attr}.append is not modelled")
                x, fr = self.with_frame([v.args[0]], lambda: self.pure(v.args[0], env))
                return self.wrap(fr, f"let self := {f.setter} (py_append ({f.getter} self) {self.coerce(x, f.ty[1], st)}) self in\n"
                                     + self.block(rest, env, ctx))
        rej(st, "expression statement is not accepted")

    def join_vars(self, stmts, env):
        svars = ["self"]
        for n in mutated_names(stmts):
            if n in env and env[n] != OPAQUE:
                svars.append(n)
        return svars

    def if_stmt(self, st, rest, env, ctx):
        c, fr = self.with_frame([st.test], lambda: self.cond(st.test, env))
        b_exit, o_exit = E.always_exits(st.body), E.always_exits(st.orelse)
        if b_exit:
            text = (f"if {c} then\n{indent(self.block(st.body, env, ctx))}\nelse\n"
                    + self.block(list(st.orelse) + rest, env, ctx))
        elif o_exit and not E.contains_exit(st.body):
            text = (f"if {c} then\n{indent(self.block(list(st.body) + rest, env, ctx))}\nelse\n"
                    + indent(self.block(st.orelse, env, ctx)))
        elif not E.contains_exit(st.body) and not E.contains_exit(st.orelse):
            svars = self.join_vars(list(st.body) + list(st.orelse), env)
            new = [n for n in mutated_names(list(st.body) + list(st.orelse))
                   if n not in env and n in (surely_assigned(st.body) & surely_assigned(st.orelse))]
            jctx = {"kind": "join", "svars": svars + new, "in_loop": ctx["kind"] == "loop" or ctx.get("in_loop")}
            a = self.block(st.body, env, jctx)
            b = self.block(st.orelse, env, jctx)
            env2 = dict(env)
            for n in new:
                tys = {repr(fe.get(n)) for fe in jctx["final_envs"]}
                if len(tys) != 1 or jctx["final_envs"][0].get(n) in (None, OPAQUE):
                    rej(st, f"local {n} gets different types in the two branches")
                env2 = self.bind_local(n, jctx["final_envs"][0][n], st, env2)
            text = (f"py_bind (if {c} then\n{indent(a)}\nelse\n{indent(b)})\n(fun {self.fun_pat(svars + new)} =>\n"
                    + self.block(rest, env2, ctx) + ")")
        else:
            text = (f"if {c} then\n{indent(self.block(list(st.body) + rest, env, ctx))}\nelse\n"
                    + indent(self.block(list(st.orelse) + rest, env, ctx)))
        return self.wrap(fr, text)

    def for_stmt(self, st, rest, env, ctx):
        if st.orelse:
            rej(st, "for ... else is not accepted")
        it, fr = self.with_frame([st.iter], lambda: self.pure(st.iter, env))
        if isinstance(it.ty, tuple) and it.ty[0] == "dict":
            it = Val(T_list(KEY), f"(py_dict_keys {it.term})")
        if not is_seq(it.ty):
            rej(st, f"iteration over a value of type {it.ty!r}")
        if is_name(st.iter):
            rej(st, "iteration over a local list (the body could change it)")
        elt = it.ty[1]
        tgt = st.target
        if is_name(tgt):
            names, types = [tgt.id], [elt]
            elem_param, unpack = f"({ident(tgt.id)} : {ctype(elt)})", ""
        elif isinstance(tgt, ast.Tuple) and all(is_name(x) for x in tgt.elts) and isinstance(elt, tuple) \
                and elt[0] == "tuple" and len(elt[1]) == len(tgt.elts):
            names, types = [x.id for x in tgt.elts], list(elt[1])
            elem_param = f"(k_ : {ctype(elt)})"
            unpack = "let '(" + ", ".join(ident(n) for n in names) + ") := k_ in\n"
        else:
            rej(st, "loop target is not a name or a tuple of names matching the element type")
        if len(set(names)) != len(names):
            rej(st, "repeated loop variable")
        mutated = mutated_names(st.body)
        for n in names:
            if n in env or n == "self" or n == "k_":
                rej(st, f"loop variable {n} is already bound in the enclosing scope")
            if n in mutated:
                rej(st, f"loop variable {n} is assigned in the loop body")
        # the iterable must not be changed by the body
        read_attrs = {x.attr for x in ast.walk(st.iter) if is_self_attr(x)}
        body_writes = set()
        for sub in ast.walk(ast.Module(body=st.body, type_ignores=[])):
            if isinstance(sub, (ast.Assign, ast.AugAssign)):
                for t in (sub.targets if isinstance(sub, ast.Assign) else [sub.target]):
                    body_writes |= {x.attr for x in ast.walk(t) if is_self_attr(x)}
            if isinstance(sub, ast.Call) and isinstance(sub.func, ast.Attribute) and is_self_attr(sub.func.value) \
                    and sub.func.attr not in ("keys", "values", "index", "get_cost", "toarray"):
                body_writes.add(sub.func.value.attr)
            if isinstance(sub, ast.Call) and is_self_attr(sub.func):
                if sub.func.attr in self.fns:
                    body_writes |= self.writes[sub.func.attr]
                elif sub.func.attr in self.ext and not self.ext[sub.func.attr].pure:
                    body_writes |= ENUM_ATTRS
        if read_attrs & body_writes:
            rej(st, f"the loop body may change self.{sorted(read_attrs & body_writes)[0]}, which the loop iterates over")
        svars = self.join_vars(st.body, env)
        self.body_counter += 1
        bname = f"gen_{self.cur.name}_body{self.body_counter}"
        inner_env = dict(env)
        for n, t in zip(names, types):
            inner_env[n] = t
        free = [n for n in env if n in E.loaded_names(st.body) and n not in svars and env[n] != OPAQUE]
        saved = self.loop_targets
        self.loop_targets = saved | set(names)
        body = self.block(st.body, inner_env, {"kind": "loop", "svars": svars})
        self.loop_targets = saved
        sty = self.state_type(svars, env)
        params = "".join(f" ({ident(n)} : {ctype(env[n])})" for n in free)
        unpack_state = f"let {self.fun_pat(svars)} := st in\n"
        self.out.append(f"(* body of the `for` loop at line {st.lineno} of {self.cur.name} *)\n"
                        f"Definition {bname}{params} {elem_param} (st : {sty}) : result (ctl * {sty}) :=\n"
                        + indent(unpack_state + unpack + body) + ".\n")
        call = " ".join([bname] + [ident(n) for n in free])
        text = (f"py_bind (py_forE ({call}) {it.term} {self.state_pat(svars)})\n(fun {self.fun_pat(svars)} =>\n"
                + self.block(rest, env, ctx) + ")")
        return self.wrap(fr, text)

    # ------------------------------------------------------------------ one method
    def function(self, name):
        info = self.fns[name]
        self.cur = info
        self.body_counter = 0
        self.loop_targets = frozenset()
        fn = info.node
        env, prelude = {}, ""
        for a, t in zip(fn.args.args[1:], info.param_types):
            env[a.arg] = t
        for n in maybe_unbound(fn):
            ty = self.hints.get((name, n), UNKNOWN)
            env[n] = T_maybe(ty)
            prelude += f"let {ident(n)} : {ctype(T_maybe(ty))} := PyUnbound in\n"
        body = prelude + self.block(fn.body, env, {"kind": "fn"})
        if info.has_value and info.ret_type is None:
            rej(fn, f"{name}: could not determine the type of the returned value")
        base = ctype(info.ret_type) if info.has_value else "unit"
        params = "".join(f" ({ident(a.arg)} : {ctype(t)})" for a, t in zip(fn.args.args[1:], info.param_types))
        self.out.append(f"(* {self.spec.class_name}.{name}, line {fn.lineno} *)\n"
                        f"Definition gen_{name} (self : cstate){params} : result (cstate * {base}) :=\n"
                        + indent(body) + ".\n")


HEADER = """(* GENERATED by harness/translate_seqcons.py from routing_problem/formulations/sequence_based_rp.py of
   the tree under test.  Do not edit: the file is rewritten on every run of `bin/check C07`. *)
From Coq Require Import String.
From VQ Require Import Base Vrptw Seq PyEnumCore PySeq PySeqCons.
From VQG Require Import SeqGen.
"""


def check_module(tree):
    """The names the translator gives a fixed meaning must be what the module imports under that name."""
    want = {"product": False, "sparse": False, "np": False}
    for n in tree.body:
        if isinstance(n, ast.ImportFrom) and n.level == 0:
            for a in n.names:
                bound = a.asname or a.name
                if bound == "product":
                    if n.module != "itertools" or a.name != "product":
                        raise Rejected(f"line {n.lineno}: product is not itertools.product")
                    want["product"] = True
                if bound == "sparse":
                    if n.module != "scipy" or a.name != "sparse":
                        raise Rejected(f"line {n.lineno}: sparse is not scipy.sparse")
                    want["sparse"] = True
                if bound in ("np", "print"):
                    raise Rejected(f"line {n.lineno}: {bound} is imported from somewhere")
        elif isinstance(n, ast.Import):
            for a in n.names:
                bound = a.asname or a.name
                if bound == "np":
                    if a.name != "numpy":
                        raise Rejected(f"line {n.lineno}: np is not numpy")
                    want["np"] = True
                if bound in ("product", "sparse", "print"):
                    raise Rejected(f"line {n.lineno}: {bound} is rebound by an import")
        elif isinstance(n, (ast.FunctionDef, ast.AsyncFunctionDef, ast.ClassDef)):
            if n.name in ("product", "sparse", "np", "print"):
                raise Rejected(f"line {n.lineno}: {n.name} is redefined at module level")
        elif isinstance(n, (ast.Assign, ast.AugAssign, ast.AnnAssign)):
            for sub in ast.walk(n):
                if isinstance(sub, ast.Name) and isinstance(sub.ctx, ast.Store) and sub.id in ("product", "sparse", "np", "print"):
                    raise Rejected(f"line {n.lineno}: {sub.id} is rebound at module level")
    for k, ok in want.items():
        if not ok:
            raise Rejected(f"the module does not import {k} as expected")


def external_infos(src):
    """FnInfo (purity, raising, value shape, parameter types) of the generated enumeration methods, taken from
    a run of the seqenum printer on the same source."""
    cls = E.find_class(src, SQ.SPEC.class_name)
    tr = E.Translator(SQ.SPEC, cls)
    for name in tr.collect():
        tr.function(name)
    missing = [n for n in EXTERNAL if n not in tr.fns]
    if missing:
        raise Rejected(f"enumeration methods {missing} are not generated by translate_seqenum")
    return {n: tr.fns[n] for n in EXTERNAL}


def translate_source(src):
    try:
        tree = ast.parse(src)
    except SyntaxError as ex:
        raise Rejected(f"syntax error: {ex}")
    check_module(tree)
    ext = external_infos(src)
    cls = E.find_class(src, SPEC.class_name)
    hints = {}
    for _ in range(12):
        tr = ConsTranslator(SPEC, cls, ext, hints)
        try:
            for name in tr.collect():
                tr.function(name)
        except Rejected:
            if tr.learned:
                continue
            raise
        if tr.learned:
            continue
        text = HEADER + "\n" + "\n".join(tr.out)
        if " _ " in text.replace("(self, _)", "") or ": _)" in text or "(list _)" in text:
            raise Rejected("a local list / possibly unbound local whose type could not be determined")
        return text
    raise Rejected("type inference of the locals did not settle")


def source_path():
    from vq import core
    return os.path.join(core.REPO, SQ.REL)


def translate():
    files = SQ.translate()                       # SeqGen.v (package seqenum), unchanged
    with open(source_path()) as fh:
        src = fh.read()
    out = OrderedDict(files)
    out["SeqConsGen.v"] = translate_source(src)
    return out


if __name__ == "__main__":
    import sys
    print(translate_source(open(sys.argv[1]).read()))
