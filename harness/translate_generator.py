"""translate_generator.py -- fail-closed translator  Python ast -> Gallina  for the module-level function
`get_generator` of src/vrpqubo/examples/mirp_random.py (properties C19 / C12 / C11: the sampler EXPRESSIONS from
which RandomMIRP draws its port data, the default leaf distributions, the RandomMIRP(...) constructor call).

Entry:  translate() -> {"GeneratorGen.v": text}      (obligations in coq/genprops/C19_generator_gen.v)

The function is straight-line code that builds objects.  The translator executes it SYMBOLICALLY, statement by
statement, and PRINTS what was built over the vocabulary of coq/theories/PyGenerator.v; it proves nothing (which
expression is right, which support is safe, which argument belongs to which field is decided in Coq).

Accepted statements (anything else -> Rejected with the line number):

    if P is None: P = uniform(...)              P a parameter that can still be None; records the default distribution
    if isinstance(P, RVT): P = WrapperSampler(P)    RVT / WrapperSampler the from-imports of ..tools.sampling
    X = EXPR                                     binds a local (or re-binds a parameter)
    X = uniform(...)                             a fresh raw distribution (a new leaf object)
    X = RandomMIRP(ARG, ..., kw=ARG)             the dataclass of the same module; `return X` / `return RandomMIRP(...)`

    EXPR ::= int / float literal | name | -EXPR | EXPR (+|-|*|/) EXPR
    uniform(...) ::= uniform(), uniform(loc), uniform(loc, scale), keywords loc= / scale=; arguments constant EXPRs
    ARG  ::= EXPR | None | uniform(...)

What is printed:
  * an expression with at least one leaf: the `aexp` tree exactly as written (operands left / right as in the source,
    constants and names bound to constants as AConst leaves of the tree, a name bound to an expression is replaced by
    that expression -- the Python object is shared, every rvs() call draws its leaves afresh);
  * an expression of constants only: the same tree (Sampler.compile_op folds it like Python does); the translator
    also evaluates it with Python's own int / float arithmetic and rejects the source when the float result is not the
    exact rational (float rounding is not modelled);
  * for every use of a leaf object the kinds of object the name can be bound to at that point (None / raw scipy
    distribution / SimpleSampler), tracked through the `is None` and `isinstance` statements IN SOURCE ORDER;
  * the dataclass fields of RandomMIRP (annotated class-level names, in order, with "has a default") and the call with
    every argument bound to its field (positional by declaration order, keywords by name).

Ignored: docstrings, comments, annotations, `pass`, logger calls.  Names are resolved through the imports of the
module (`uniform` must be scipy.stats.uniform, `dataclass` dataclasses.dataclass, ...), never matched as text only.
"""
import ast
import os
from collections import OrderedDict
from fractions import Fraction

try:
    from vq import core
    _REPO = core.REPO
except Exception:  # noqa  (stand-alone use)
    _REPO = os.environ.get("VQ_REPO", "/repo")

REL = "src/vrpqubo/examples/mirp_random.py"
FUNC = "get_generator"
CLASS = "RandomMIRP"
WANTED = {"uniform": ("scipy.stats", "uniform"), "dataclass": ("dataclasses", "dataclass"),
          "WrapperSampler": ("..tools.sampling", "WrapperSampler"), "RVT": ("..tools.sampling", "RVT")}
BINOPS = {ast.Add: ("AAdd", lambda a, b: a + b), ast.Sub: ("ASub", lambda a, b: a - b),
          ast.Mult: ("AMul", lambda a, b: a * b), ast.Div: ("ADiv", lambda a, b: a / b)}


class Rejected(Exception):
    pass


def where(node):
    return f"line {getattr(node, 'lineno', '?')}"


def is_name(node, name=None):
    return isinstance(node, ast.Name) and (name is None or node.id == name)


def coq_string(s):
    if not (s.isidentifier() and s.isascii()):
        raise Rejected(f"name {s!r} is not a plain ascii identifier")
    return f'"{s}"%string'


def qlit(fr):
    return f"(qlit ({fr.numerator})%Z {fr.denominator}%positive)"


# ---------------------------------------------------------------------------------------------------------
# module level: which names mean what
# ---------------------------------------------------------------------------------------------------------
class Module:
    def __init__(self, tree):
        self.imported, bound = {}, {}
        for n in ast.walk(tree):
            if isinstance(n, (ast.Global, ast.Nonlocal)):
                raise Rejected(f"{REL} {where(n)}: global / nonlocal statement")
        for n in tree.body:
            names = []
            if isinstance(n, ast.Import):
                names = [(a.asname or a.name).split(".")[0] for a in n.names]
            elif isinstance(n, ast.ImportFrom):
                for a in n.names:
                    if a.name == "*":
                        raise Rejected(f"{REL} {where(n)}: star import")
                    nm = a.asname or a.name
                    self.imported[nm] = ("." * n.level + (n.module or ""), a.name)
                    names.append(nm)
            elif isinstance(n, (ast.FunctionDef, ast.AsyncFunctionDef, ast.ClassDef)):
                names = [n.name]
            elif isinstance(n, (ast.Assign, ast.AnnAssign, ast.AugAssign)):
                for t in (n.targets if isinstance(n, ast.Assign) else [n.target]):
                    names += [m.id for m in ast.walk(t) if isinstance(m, ast.Name)]
            elif isinstance(n, ast.Expr) and isinstance(n.value, ast.Constant):
                continue
            else:
                raise Rejected(f"{REL} {where(n)}: module-level statement {type(n).__name__}")
            for nm in names:
                bound[nm] = bound.get(nm, 0) + 1
        self.bound = bound
        self.tree = tree

    def means(self, name, what):
        """`name` is bound exactly once at module level, by the import `what` stands for."""
        return self.bound.get(name) == 1 and self.imported.get(name) == WANTED[what]

    def find(self, what):
        """the (unique) module-level name that means `what`, or None"""
        hits = [nm for nm in self.imported if self.means(nm, what)]
        return hits[0] if len(hits) == 1 else None

    def dataclass_fields(self):
        """[(field, has default)] of the dataclass CLASS, in declaration order"""
        if self.bound.get(CLASS) != 1:
            raise Rejected(f"{REL}: {CLASS} is not bound exactly once at module level")
        cls = [n for n in self.tree.body if isinstance(n, ast.ClassDef) and n.name == CLASS]
        if len(cls) != 1:
            raise Rejected(f"{REL}: class {CLASS} not found")
        cls = cls[0]
        if cls.bases or cls.keywords:
            raise Rejected(f"{REL} {where(cls)}: {CLASS} has base classes / keywords (inherited fields are not read)")
        if len(cls.decorator_list) != 1 or not (is_name(cls.decorator_list[0])
                                                 and self.means(cls.decorator_list[0].id, "dataclass")):
            raise Rejected(f"{REL} {where(cls)}: {CLASS} is not decorated with exactly the plain @dataclass of dataclasses")
        fields = []
        for st in cls.body:
            if isinstance(st, ast.AnnAssign):
                if not is_name(st.target) or not st.simple:
                    raise Rejected(f"{REL} {where(st)}: annotated class-level target is not a plain name")
                ann = ast.dump(st.annotation)
                if "ClassVar" in ann or "InitVar" in ann or "KW_ONLY" in ann:
                    raise Rejected(f"{REL} {where(st)}: ClassVar / InitVar / KW_ONLY field")
                if st.value is not None and not isinstance(st.value, ast.Constant):
                    raise Rejected(f"{REL} {where(st)}: field default is not a literal (field(...) is not read)")
                if any(f == st.target.id for f, _ in fields):
                    raise Rejected(f"{REL} {where(st)}: field {st.target.id} declared twice")
                fields.append((st.target.id, st.value is not None))
            elif isinstance(st, ast.FunctionDef):
                if st.name in ("__init__", "__new__"):
                    raise Rejected(f"{REL} {where(st)}: {CLASS} defines {st.name} (the generated __init__ is assumed)")
            elif isinstance(st, ast.Expr) and isinstance(st.value, ast.Constant):
                continue
            elif isinstance(st, ast.Pass):
                continue
            else:
                raise Rejected(f"{REL} {where(st)}: class-level statement {type(st).__name__} in {CLASS}")
        seen_default = False
        for f, has in fields:
            if seen_default and not has:
                raise Rejected(f"{REL}: field {f} without default after a field with default (dataclass raises TypeError)")
            seen_default = seen_default or has
        return fields


# ---------------------------------------------------------------------------------------------------------
# symbolic values
# ---------------------------------------------------------------------------------------------------------
class Num:          # a Python number: the tree that computed it, Python's own value, the exact rational
    def __init__(self, tree, py, exact):
        self.tree, self.py, self.exact = tree, py, exact


class Exp:          # a sampler object built by the operators (at least one leaf)
    def __init__(self, tree):
        self.tree = tree


class LeafObj:      # a leaf object; kinds = which kinds of Python object the name can be bound to right now
    def __init__(self, lid, kinds):
        self.lid, self.kinds = lid, frozenset(kinds)


class Par:          # a parameter nothing has been done with
    def __init__(self, name):
        self.name = name


class Obj:          # the RandomMIRP instance
    def __init__(self, call):
        self.call = call


class NoneVal:
    pass


# ---------------------------------------------------------------------------------------------------------
# symbolic execution of the body
# ---------------------------------------------------------------------------------------------------------
def skip(st):
    return (isinstance(st, ast.Pass)
            or (isinstance(st, ast.Expr) and isinstance(st.value, ast.Constant) and isinstance(st.value.value, str))
            or (isinstance(st, ast.Expr) and isinstance(st.value, ast.Call) and isinstance(st.value.func, ast.Attribute)
                and is_name(st.value.func.value, "logger")))


class Evaluator:
    def __init__(self, fn, module):
        self.fn, self.m = fn, module
        a = fn.args
        if fn.decorator_list or a.vararg or a.kwarg or a.kwonlyargs or a.posonlyargs:
            raise Rejected(f"{FUNC} {where(fn)}: decorators / *args / **kwargs / keyword-only / positional-only parameters")
        names = [x.arg for x in a.args]
        if len(set(names)) != len(names):
            raise Rejected(f"{FUNC}: duplicate parameter")
        defaults = [None] * (len(names) - len(a.defaults)) + list(a.defaults)
        self.params = []
        for nm, dv in zip(names, defaults):
            if dv is not None and not (isinstance(dv, ast.Constant) and dv.value is None):
                raise Rejected(f"{FUNC} {where(dv)}: the default of {nm} is not None")
            self.params.append((nm, dv is not None))
        for n in ast.walk(fn):
            if isinstance(n, (ast.Lambda, ast.FunctionDef, ast.AsyncFunctionDef, ast.ClassDef, ast.NamedExpr,
                              ast.Yield, ast.YieldFrom, ast.Await)) and n is not fn:
                raise Rejected(f"{where(n)}: nested definition / walrus / yield inside {FUNC}")
        self.fields = module.dataclass_fields()
        self.env = {nm: Par(nm) for nm, _ in self.params}
        self.leaves = []          # [kind, parameter name or None, dist or None]
        self.param_leaf = {}
        self.uses = []
        self.result = None

    # ----- leaves -----
    def leaf_of_param(self, name):
        if name not in self.param_leaf:
            self.param_leaf[name] = len(self.leaves)
            self.leaves.append(["param", name, None])
        kinds = {"raw", "sampler"} | ({"none"} if dict(self.params)[name] else set())
        return LeafObj(self.param_leaf[name], kinds)

    def own_leaf(self, name, node):
        """the value of `name` as a leaf object (a parameter becomes one at its first such use)"""
        v = self.env.get(name)
        if isinstance(v, Par) and v.name == name:
            v = self.env[name] = self.leaf_of_param(name)
        if not isinstance(v, LeafObj):
            raise Rejected(f"{where(node)}: {name} is not a parameter / distribution object at this point")
        return v

    def use(self, v, operator):
        self.uses.append((v.lid, operator, "none" in v.kinds, "raw" in v.kinds, "sampler" in v.kinds))
        return f"(ALeaf {v.lid}%nat)"

    # ----- expressions -----
    def num(self, tree, py, exact, node):
        if isinstance(py, bool) or not isinstance(py, (int, float)):
            raise Rejected(f"{where(node)}: constant of type {type(py).__name__}")
        if isinstance(py, float) and (py != py or py in (float("inf"), float("-inf"))):
            raise Rejected(f"{where(node)}: non-finite float")
        if Fraction(py) != exact:
            raise Rejected(f"{where(node)}: Python computes {py!r} here, the exact value is {exact} (float rounding is not modelled)")
        return Num(tree, py, exact)

    def operand(self, v, node):
        if isinstance(v, Par):
            # the object the caller passed, untouched so far: it can be anything the signature allows
            v = self.leaf_of_param(v.name)
        if isinstance(v, LeafObj):
            return self.use(v, True)
        if isinstance(v, (Num, Exp)):
            return v.tree
        raise Rejected(f"{where(node)}: operand is None / an object")

    def ev(self, e):
        if isinstance(e, ast.Constant):
            if e.value is None:
                return NoneVal()
            if type(e.value) not in (int, float):
                raise Rejected(f"{where(e)}: literal {e.value!r}")
            fr = Fraction(e.value)
            return self.num(f"(AConst {qlit(fr)})", e.value, fr, e)
        if isinstance(e, ast.Name):
            if not isinstance(e.ctx, ast.Load) or e.id not in self.env:
                raise Rejected(f"{where(e)}: name {e.id} is not a parameter or a local bound before")
            return self.env[e.id]
        if isinstance(e, ast.UnaryOp):
            if not isinstance(e.op, ast.USub):
                raise Rejected(f"{where(e)}: unary operator {type(e.op).__name__}")
            v = self.ev(e.operand)
            if isinstance(v, Num):
                return self.num(f"(ANeg {v.tree})", -v.py, -v.exact, e)
            return Exp(f"(ANeg {self.operand(v, e)})")
        if isinstance(e, ast.BinOp):
            if type(e.op) not in BINOPS:
                raise Rejected(f"{where(e)}: operator {type(e.op).__name__}")
            ctor, f = BINOPS[type(e.op)]
            a, b = self.ev(e.left), self.ev(e.right)
            if isinstance(a, Num) and isinstance(b, Num):
                try:
                    py, exact = f(a.py, b.py), f(a.exact, b.exact)
                except ZeroDivisionError:
                    raise Rejected(f"{where(e)}: division of constants by zero (raises ZeroDivisionError)")
                return self.num(f"({ctor} {a.tree} {b.tree})", py, exact, e)
            ta = self.operand(a, e.left)          # left operand first: the order in which Python evaluates
            tb = self.operand(b, e.right)
            return Exp(f"({ctor} {ta} {tb})")
        raise Rejected(f"{where(e)}: expression {type(e).__name__}")

    def is_call_to(self, e, what):
        return isinstance(e, ast.Call) and is_name(e.func) and e.func.id not in self.env and self.m.means(e.func.id, what)

    def uniform(self, e):
        """(loc tree, scale tree) of uniform(...)"""
        if any(isinstance(x, ast.Starred) for x in e.args) or len(e.args) > 2:
            raise Rejected(f"{where(e)}: uniform with more than two positional arguments / a starred argument")
        got = dict(zip(("loc", "scale"), e.args))
        for k in e.keywords:
            if k.arg not in ("loc", "scale") or k.arg in got:
                raise Rejected(f"{where(e)}: uniform argument {k.arg!r}")
            got[k.arg] = k.value
        out = []
        for key, dflt in (("loc", 0), ("scale", 1)):
            if key in got:
                v = self.ev(got[key])
                if not isinstance(v, Num):
                    raise Rejected(f"{where(got[key])}: {key} of uniform is not a constant expression")
                out.append(v.tree)
            else:
                out.append(f"(AConst {qlit(Fraction(dflt))})")
        return f"({out[0]}, {out[1]})"

    def fresh(self, e):
        self.leaves.append(["fresh", None, self.uniform(e)])
        return LeafObj(len(self.leaves) - 1, {"raw"})

    def construct(self, e):
        if any(isinstance(x, ast.Starred) for x in e.args) or any(k.arg is None for k in e.keywords):
            raise Rejected(f"{where(e)}: starred / ** argument in the {CLASS} call")
        if len(e.args) > len(self.fields):
            raise Rejected(f"{where(e)}: more positional arguments than {CLASS} has fields")
        bound = [(self.fields[i][0], x) for i, x in enumerate(e.args)] + [(k.arg, k.value) for k in e.keywords]
        call = []
        for field, x in bound:
            v = self.fresh(x) if self.is_call_to(x, "uniform") else self.ev(x)
            if isinstance(v, Par):
                txt = f"FPar {coq_string(v.name)}"
            elif isinstance(v, Num):
                txt = f"FNum {v.tree}"
            elif isinstance(v, Exp):
                txt = f"FExp {v.tree}"
            elif isinstance(v, LeafObj):
                txt = f"FExp {self.use(v, False)}"
            elif isinstance(v, NoneVal):
                txt = "FNone"
            else:
                raise Rejected(f"{where(x)}: argument of {CLASS} is an object")
            call.append((field, txt))
        return Obj(call)

    # ----- statements -----
    def assign_in_if(self, st, name):
        """the single statement `name = <call>` that forms the body of an accepted `if`"""
        body = [x for x in st.body if not skip(x)]
        if st.orelse or len(body) != 1 or not isinstance(body[0], ast.Assign) or len(body[0].targets) != 1 \
                or not is_name(body[0].targets[0], name) or not isinstance(body[0].value, ast.Call):
            raise Rejected(f"{where(st)}: the body of this `if` is not the single assignment `{name} = <call>` (no else)")
        return body[0].value

    def stmt_if(self, st):
        t = st.test
        # if P is None: P = uniform(...)
        if (isinstance(t, ast.Compare) and len(t.ops) == 1 and isinstance(t.ops[0], ast.Is) and is_name(t.left)
                and isinstance(t.comparators[0], ast.Constant) and t.comparators[0].value is None):
            name = t.left.id
            call = self.assign_in_if(st, name)
            if not self.is_call_to(call, "uniform"):
                raise Rejected(f"{where(call)}: the replacement of a None parameter is not a call of scipy.stats.uniform")
            v = self.own_leaf(name, t)
            if "none" not in v.kinds:
                raise Rejected(f"{where(t)}: {name} cannot be None here (dead code)")
            leaf = self.leaves[v.lid]
            if leaf[0] != "param" or leaf[2] is not None:
                raise Rejected(f"{where(t)}: second default for {name}")
            leaf[2] = self.uniform(call)
            self.env[name] = LeafObj(v.lid, (v.kinds - {"none"}) | {"raw"})
            return
        # if isinstance(P, RVT): P = WrapperSampler(P)
        if (isinstance(t, ast.Call) and is_name(t.func, "isinstance") and "isinstance" not in self.env
                and "isinstance" not in self.m.bound and len(t.args) == 2 and not t.keywords and is_name(t.args[0])
                and is_name(t.args[1]) and t.args[1].id not in self.env and self.m.means(t.args[1].id, "RVT")):
            name = t.args[0].id
            call = self.assign_in_if(st, name)
            if not (self.is_call_to(call, "WrapperSampler") and len(call.args) == 1 and not call.keywords
                    and is_name(call.args[0], name)):
                raise Rejected(f"{where(call)}: expected {name} = WrapperSampler({name})")
            v = self.own_leaf(name, t)
            if "raw" in v.kinds:
                self.env[name] = LeafObj(v.lid, (v.kinds - {"raw"}) | {"sampler"})
            return
        raise Rejected(f"{where(st)}: `if` with a test that is neither `<name> is None` nor `isinstance(<name>, RVT)`")

    def rhs(self, e):
        if self.is_call_to(e, "uniform"):
            return self.fresh(e)
        if isinstance(e, ast.Call) and is_name(e.func, CLASS) and CLASS not in self.env:
            return self.construct(e)
        v = self.ev(e)
        if isinstance(v, NoneVal):
            raise Rejected(f"{where(e)}: a local is bound to None")
        return v

    def run(self):
        stmts = [s for s in self.fn.body if not skip(s)]
        for k, st in enumerate(stmts):
            if self.result is not None:
                raise Rejected(f"{where(st)}: statement after return")
            if isinstance(st, ast.If):
                self.stmt_if(st)
            elif isinstance(st, ast.Assign):
                if len(st.targets) != 1 or not is_name(st.targets[0]):
                    raise Rejected(f"{where(st)}: assignment target is not a single plain name")
                self.env[st.targets[0].id] = self.rhs(st.value)
            elif isinstance(st, ast.AnnAssign):
                if not is_name(st.target) or st.value is None:
                    raise Rejected(f"{where(st)}: annotated statement without value / with a complex target")
                self.env[st.target.id] = self.rhs(st.value)
            elif isinstance(st, ast.Return):
                v = self.rhs(st.value) if st.value is not None else None
                if not isinstance(v, Obj):
                    raise Rejected(f"{where(st)}: the function does not return the {CLASS} object")
                self.result = v
            else:
                raise Rejected(f"{where(st)}: statement {type(st).__name__} is not supported")
        if self.result is None:
            raise Rejected(f"{FUNC}: falls off the end (returns None)")
        return self

    # ----- printing -----
    def text(self):
        def lst(items, ind="  "):
            return "[" + (";\n" + ind).join(items) + "]"
        b = lambda x: "true" if x else "false"   # noqa: E731
        leaves = []
        for i, (kind, pname, d) in enumerate(self.leaves):
            if kind == "param":
                src = f"LParam {coq_string(pname)} " + (f"(Some {d})" if d is not None else "None")
            else:
                src = f"LFresh {d}"
            leaves.append(f"mkLeaf {i}%nat ({src})")
        out = [f"(* {FUNC} in {REL}, line {self.fn.lineno} *)",
               "(* parameters: (name, has the default None) *)",
               "Definition gen_params : list (string * bool) :=\n  "
               + lst([f"({coq_string(n)}, {b(d)})" for n, d in self.params]) + ".",
               "(* leaf objects, numbered in the order in which the body first touches them *)",
               "Definition gen_leaves : list leafinfo :=\n  " + lst(leaves) + ".",
               "(* uses of leaf objects, in evaluation order: id, operand of an operator?, can be None / raw distribution / SimpleSampler *)",
               "Definition gen_uses : list leafuse :=\n  "
               + lst([f"mkUse {i}%nat {b(o)} {b(n)} {b(r)} {b(s)}" for i, o, n, r, s in self.uses]) + ".",
               f"(* fields of the dataclass {CLASS} in declaration order: (name, has a default) *)",
               "Definition gen_class_fields : list (string * bool) :=\n  "
               + lst([f"({coq_string(n)}, {b(d)})" for n, d in self.fields]) + ".",
               f"(* the call {CLASS}(...): (field the argument is bound to, value), in the order written *)",
               "Definition gen_call : list (string * fval) :=\n  "
               + lst([f"({coq_string(n)}, {t})" for n, t in self.result.call]) + "."]
        return "\n".join(out) + "\n"


HEADER = """(* GENERATED by harness/translate_generator.py from the Python source under test
   (src/vrpqubo/examples/mirp_random.py, function get_generator and the fields of class RandomMIRP).  Do not edit. *)
From Coq Require Import List Arith Bool ZArith QArith Qcanon String.
From VQ Require Import Base Sampler PyGenerator.
Import ListNotations.

"""


def build(repo=None):
    path = os.path.join(repo or _REPO, REL)
    try:
        with open(path, encoding="utf-8") as fh:
            tree = ast.parse(fh.read())
    except (OSError, SyntaxError, ValueError) as ex:
        raise Rejected(f"{REL}: cannot read / parse: {ex}")
    module = Module(tree)
    fns = [n for n in tree.body if isinstance(n, (ast.FunctionDef, ast.AsyncFunctionDef)) and n.name == FUNC]
    if len(fns) != 1 or isinstance(fns[0], ast.AsyncFunctionDef) or module.bound.get(FUNC) != 1:
        raise Rejected(f"{REL}: function {FUNC} not bound exactly once at module level")
    return HEADER + Evaluator(fns[0], module).run().text()


def translate(repo=None):
    return OrderedDict([("GeneratorGen.v", build(repo))])


if __name__ == "__main__":
    import sys
    print(build(sys.argv[1] if len(sys.argv) > 1 else None))
