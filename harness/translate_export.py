"""translate_export.py -- fail-closed translator of QUBOContainer.export (tools/qubo_tools.py) into Gallina.

Package `export` (property C10).  Public entry: translate() -> {"ExportGen.v": text}; raises Rejected for anything
outside the whitelist.  The statement / expression printer is the engine of translate_report.py (let-chains, if/else
with the variables both branches create, `for ... in range(..)` / `for (..) in zip(..)` with generated bodies,
`l.append(e)`, `continue` as last action, `if X is None: X = default`).  This file adds what export needs:

  * f-strings: the pieces concatenated; `{x:.2f}` -> `fmt2 false x`, `{x: .2f}` -> `fmt2 true x`, `{i:d}` -> `print_nat i`
    (the meaning of the three format specifications is Export.v's; any other specification -> Rejected),
    `{datetime.datetime.today()}` -> the parameter now_text (the text str() gives for the clock value),
  * `M.diagonal()` -> `qdiag M`, `d[i]` -> `d i`, `sp.find(M)` -> `sp_find n M` (row-major non-zeros, Export.find_entries,
    as three lists), `"".join(l)` -> `String.concat "" l`, comparisons of a coefficient with the literal 0 (sign of the
    numerator),
  * `with open(<name>, 'w', encoding="utf-8") as f: f.write(<text>)` as the function's result (<name>, <text>).

Coefficients are exact rationals (Q), as in the hand model Export.v.

Second generated file, LoadGen.v: `load_matrix` (and the comment characters passed by `load_qubo_matrix` /
`load_ising_matrix`) of tools/load_tools.py, printed by `MonadicEngine`: the same statement printer in the exception
monad `Base.result`.  Every sub-expression that can raise -- `s[k]`, `l[k]` (IndexError), `int(s)`, `float(s)`,
`max(l)` (ValueError) -- is printed as a term of type `result T` and bound with `rbind` in Python's evaluation order
in front of the statement it occurs in; the right operand of `and`/`or` keeps its raising parts inside the
short-circuit; `assert c` -> `if c then Ok tt else Err AssertionError`; loops are `for_each_r` (first exception ends the
loop); `with open(filename, encoding=..) as f:` opens no scope and `f.readlines()` is the parameter `file_lines`.
A variable initialised with an integer literal that later receives a float (`constant = 0` ... `constant = float(..)`)
gets the float's type by a second translation pass.  `load_spins` is not translated (numpy array construction, no hand
model).
"""
import ast
import os

from translate_report import (Engine, Rejected, Opt, Lst, LIST, TUP, Var, where, is_ignorable, tytext, module_table, find_method,
                              check_signature, initial_env, coq_string, NAT, BOOL, STR, LIT, TYTEXT)

QT, QMAT, QVEC, TIMESTAMP = "Q", "qmat", "qvec", "timestamp"
TYTABLE = dict(TYTEXT)
TYTABLE.update({QT: "Q", QMAT: "qmat", QVEC: "qvec", TIMESTAMP: "string"})


class ExportEngine(Engine):
    PREFIX = "gen_export"
    TYTABLE = TYTABLE
    ATTRS = [("n_vars", NAT), ("Q", QMAT), ("J", QMAT), ("h", QVEC), ("const_qubo", QT), ("const_ising", QT)]
    ORACLES = [("datetime.datetime.today()", "now_text", TIMESTAMP)]
    DIM_ATTR = "n_vars"

    def __init__(self, module_names):
        super().__init__()
        self.module_names = module_names
        self.ARGS = [("filename", Opt(STR)), ("as_ising", BOOL)]

    # ---- expressions
    def expr_hook(self, e, env):
        if isinstance(e, ast.Subscript):
            a, ta = self.expr(e.value, env)
            i, ti = self.expr(e.slice, env)
            if ta == QVEC:
                return f"({a} {self.to_nat(i, ti, e)})", QT
            raise Rejected(f"{where(e)}: subscript of a value of type {ta}")
        return super().expr_hook(e, env)

    def call_hook(self, e, env):
        f = e.func
        if e.keywords:
            raise Rejected(f"{where(e)}: keyword arguments")
        if isinstance(f, ast.Attribute) and f.attr == "diagonal" and not e.args:
            a, ta = self.expr(f.value, env)
            if ta != QMAT:
                raise Rejected(f"{where(e)}: .diagonal() of a value of type {ta}")
            return f"(qdiag {a})", QVEC
        if isinstance(f, ast.Attribute) and f.attr == "today" and not e.args and isinstance(f.value, ast.Attribute) \
                and f.value.attr == "datetime" and isinstance(f.value.value, ast.Name) and f.value.value.id == "datetime" \
                and self.module_names.get("datetime") == "datetime" and "datetime" not in env:
            var = self.lookup(env, "datetime.datetime.today()", e)
            return var.coq, var.ty
        if isinstance(f, ast.Attribute) and f.attr == "find" and isinstance(f.value, ast.Name) and f.value.id == "sp" \
                and self.module_names.get("sp") == "scipy.sparse" and "sp" not in env and len(e.args) == 1:
            a, ta = self.expr(e.args[0], env)
            if ta != QMAT:
                raise Rejected(f"{where(e)}: sp.find of a value of type {ta}")
            return f"(sp_find {self.dim(env, e)} {a})", TUP([LIST(NAT), LIST(NAT), LIST(QT)])
        if isinstance(f, ast.Attribute) and f.attr == "join" and isinstance(f.value, ast.Constant) and isinstance(f.value.value, str) \
                and len(e.args) == 1:
            a, ta = self.expr(e.args[0], env)
            if ta != LIST(STR):
                raise Rejected(f"{where(e)}: join of a value of type {ta}")
            return f"(String.concat {coq_string(f.value.value)} {a})", STR
        return super().call_hook(e, env)

    def compare_values(self, op, a, ta, b, tb, e):
        if ta == QT and tb == LIT and b == "0":
            # sign of a rational = sign of its numerator; `!= 0` / `== 0` are Export.is_zero
            if isinstance(op, ast.NotEq):
                return f"(negb (is_zero {a}))", BOOL
            if isinstance(op, ast.Eq):
                return f"(is_zero {a})", BOOL
            return self.compare_text(op, f"(Qnum {a})", "0", "%Z", e)
        if tb == QT and ta == LIT and a == "0":
            if isinstance(op, ast.NotEq):
                return f"(negb (is_zero {b}))", BOOL
            if isinstance(op, ast.Eq):
                return f"(is_zero {b})", BOOL
            return self.compare_text(op, "0", f"(Qnum {b})", "%Z", e)
        if ta == QT or tb == QT:
            raise Rejected(f"{where(e)}: comparison of a coefficient with something other than the literal 0")
        return super().compare_values(op, a, ta, b, tb, e)

    def format_hook(self, a, ta, spec, node):
        if ta == TIMESTAMP and spec is None:
            return a
        if ta == QT and spec == ".2f":
            return f"(fmt2 false {a})"
        if ta == QT and spec == " .2f":
            return f"(fmt2 true {a})"
        if ta in (NAT, LIT) and spec == "d":
            return f"(print_nat {self.to_nat(a, ta, node)})"
        return super().format_hook(a, ta, spec, node)

    # ---- the file that is written
    def with_open_write(self, st, env):
        """with open(<name>, 'w', encoding="utf-8") as f: f.write(<text>)  ->  (<name>, <text>)"""
        if len(st.items) != 1 or "open" in env:
            raise Rejected(f"{where(st)}: with statement")
        item = st.items[0]
        c = item.context_expr
        ok = (isinstance(c, ast.Call) and isinstance(c.func, ast.Name) and c.func.id == "open" and len(c.args) == 2
              and isinstance(c.args[1], ast.Constant) and c.args[1].value == "w"
              and all(k.arg == "encoding" and isinstance(k.value, ast.Constant) and k.value.value in ("utf-8", "utf8", "ascii")
                      for k in c.keywords)
              and isinstance(item.optional_vars, ast.Name))
        if not ok:
            raise Rejected(f"{where(st)}: expected `with open(<name>, 'w', encoding=\"utf-8\") as <f>:`")
        fvar = item.optional_vars.id
        name, tn = self.expr(c.args[0], env)
        if tn != STR:
            raise Rejected(f"{where(st)}: the file name has type {tn}")
        body = [x for x in st.body if not is_ignorable(x)]
        ok = (len(body) == 1 and isinstance(body[0], ast.Expr) and isinstance(body[0].value, ast.Call)
              and isinstance(body[0].value.func, ast.Attribute) and body[0].value.func.attr == "write"
              and isinstance(body[0].value.func.value, ast.Name) and body[0].value.func.value.id == fvar
              and len(body[0].value.args) == 1 and not body[0].value.keywords)
        if not ok:
            raise Rejected(f"{where(st)}: the body of the with statement is not a single `{fvar}.write(<text>)`")
        text, tt = self.expr(body[0].value.args[0], env)
        if tt != STR:
            raise Rejected(f"{where(st)}: the written value has type {tt}")
        return name, text


def translate_source(src, origin="tools/qubo_tools.py"):
    """-> text of ExportGen.v"""
    try:
        tree = ast.parse(src)
    except SyntaxError as ex:
        raise Rejected(f"syntax error: {ex}")
    names = module_table(tree)
    fn = find_method(tree, "QUBOContainer", "export")
    eng = ExportEngine(names)
    defaults = check_signature(fn, [a for a, _ in eng.ARGS])
    d_fn, d_is = defaults
    if not (isinstance(d_fn, ast.Constant) and d_fn.value is None):
        raise Rejected(f"{where(fn)}: default of filename is not None")
    if not (isinstance(d_is, ast.Constant) and isinstance(d_is.value, bool)):
        raise Rejected(f"{where(fn)}: default of as_ising is not a boolean constant")
    env0 = initial_env(eng, eng.ARGS)
    env = dict(env0)
    body = [st for st in fn.body if not is_ignorable(st)]
    if body and isinstance(body[-1], ast.Return) and body[-1].value is None:
        body = body[:-1]
    for st in body:
        for x in ast.walk(st):
            if isinstance(x, (ast.Return, ast.Yield, ast.YieldFrom, ast.Raise, ast.Try, ast.While, ast.Break, ast.Global, ast.Nonlocal,
                              ast.Lambda, ast.FunctionDef, ast.Delete, ast.Import, ast.ImportFrom, ast.NamedExpr, ast.Await)):
                raise Rejected(f"{where(x)}: {type(x).__name__} inside export")
    if not body or not isinstance(body[-1], ast.With):
        raise Rejected(f"{where(fn)}: export does not end with the `with open(...)` block that writes the file")
    lines = []
    for st in body[:-1]:
        lines += eng.stmt(st, env, False, False)
    name, text = eng.with_open_write(body[-1], env)
    lines.append(f"({name}, {text})")
    out = [f"(* GENERATED by harness/translate_export.py from {origin} (QUBOContainer.export, line {fn.lineno}).  Do not edit. *)",
           "From Coq Require Import ZArith QArith List Bool String PeanoNat.",
           "From VQ Require Import Base LinAlg Export PyReport PyExport.",
           "Import ListNotations.",
           "Open Scope Z_scope.",
           ""]
    out += eng.render_defs()
    out.append(f"Definition gen_export {eng.param_text(env0)} : string * string :=\n" + "\n".join(lines) + ".\n")
    out.append("(* default arguments *)")
    out.append("Definition gen_export_default_filename : option string := None.")
    out.append(f"Definition gen_export_default_as_ising : bool := {'true' if d_is.value else 'false'}.")
    return "\n".join(out) + "\n"


# ------------------------------------------------------------------------------------------
# functions that may raise: the exception monad (Base.result)
# ------------------------------------------------------------------------------------------
CHAR, HUND, COO = "ascii", "hundredths", "coo"
LTYTABLE = dict(TYTABLE)
LTYTABLE.update({CHAR: "ascii", HUND: "Z", COO: "(nat * nat * (nat -> nat -> Z))"})


class MonadicEngine(Engine):
    """Statement printer for code whose expressions may raise.  A sub-expression that can raise (l[k], s[k], int(s),
    float(s), max(l)) is printed as a value of type `result T` and bound, in evaluation order, in front of the
    statement it occurs in:  rbind <raising term> (fun t =>  ...rest of the block... ).  The right operand of and/or keeps
    its raising parts inside the short-circuit.  Every block, loop body and the function itself return `result`."""

    LOOP_RANGE = "range_fold_r"
    LOOP_EACH = "for_each_r"

    def __init__(self):
        super().__init__()
        self.pending = []       # [(fresh name, term of type result T)] raised by the expression being translated
        self.closers = [0]      # per open block: number of `rbind ... (fun x =>` that must be closed at its end

    def raising(self, text):
        self.nfresh += 1
        nm = f"t{self.nfresh}"
        self.pending.append((nm, text))
        return nm

    def flush(self):
        lines = [f"rbind {t} (fun {nm} =>" for nm, t in self.pending]
        self.closers[-1] += len(lines)
        self.pending = []
        return lines

    @staticmethod
    def binds(captured, final):
        text = final
        for nm, t in reversed(captured):
            text = f"(rbind {t} (fun {nm} => {text}))"
        return text

    def mblock(self, stmts, env, tail, in_loop):
        self.closers.append(0)
        lines, e = self.block_lines(stmts, env, tail, in_loop)
        return lines, e, self.closers.pop()

    def close(self, lines, final, n):
        return "\n".join(lines + [final]) + ")" * n

    def fun_pattern(self, outs):
        if not outs:
            return "_"
        if len(outs) == 1:
            return "v_" + outs[0]
        return "'(" + ", ".join("v_" + o for o in outs) + ")"

    # ---- and / or whose right operand may raise
    def boolop(self, op, values, env, node):
        if len(values) == 1:
            return super().boolop(op, values, env, node)
        first, rest = values[0], values[1:]
        is_or = isinstance(op, ast.Or)
        nt = self.none_test(first, env)
        if nt is not None and ((is_or and nt[1]) or (not is_or and not nt[1])):
            key = nt[0]
            var = env[key]
            if var.ty.elem is None:
                raise Rejected(f"{where(node)}: {key} is only ever None (no assignment of a value precedes this test)")
            env2, nm = self.narrowed(env, key)
            saved, self.pending = self.pending, []
            r, _ = self.boolop(op, rest, env2, node)
            captured, self.pending = self.pending, saved
            dflt = "true" if is_or else "false"
            if not captured:
                return f"(match {var.coq} with None => {dflt} | Some {nm} => {r} end)", BOOL
            return self.raising(f"(match {var.coq} with None => Ok {dflt} | Some {nm} => {self.binds(captured, 'Ok ' + r)} end)"), BOOL
        a, ta = self.expr(first, env)
        if ta != BOOL:
            raise Rejected(f"{where(node)}: operand of and/or is not a boolean")
        saved, self.pending = self.pending, []
        r, _ = self.boolop(op, rest, env, node)
        captured, self.pending = self.pending, saved
        if not captured:
            return f"({'orb' if is_or else 'andb'} {a} {r})", BOOL
        m = self.binds(captured, "Ok " + r)
        if is_or:
            return self.raising(f"(if {a} then Ok true else {m})"), BOOL
        return self.raising(f"(if {a} then {m} else Ok false)"), BOOL

    # ---- statements
    def stmt(self, st, env, tail, in_loop):
        if isinstance(st, ast.Assert):
            c, tc = self.expr(st.test, env)
            if tc != BOOL:
                raise Rejected(f"{where(st)}: assert of a non-boolean")
            pre = self.flush()
            self.closers[-1] += 1
            return pre + [f"rbind (if {c} then Ok tt else Err AssertionError) (fun _ =>"]
        lines = super().stmt(st, env, tail, in_loop)
        return self.flush() + lines

    def if_stmt(self, st, env, tail, in_loop):
        nt = self.none_test(st.test, env)
        a_body, a_else = self.assigned(st.body), self.assigned(st.orelse)
        old = [n for n in env if n in a_body + a_else and not n.startswith("self.") and not n.endswith("()")]
        if nt is not None and env[nt[0]].ty.elem is not None:
            key, is_none = nt
            if key in old:
                raise Rejected(f"{where(st)}: {key} is assigned in a branch of its own `is None` test")
            pre = self.flush()
            env2, nm = self.narrowed(env, key)
            some_b, none_b = (st.orelse, st.body) if is_none else (st.body, st.orelse)
            l1, e1, n1 = self.mblock(some_b, env2, tail, in_loop)
            l2, e2, n2 = self.mblock(none_b, env, tail, in_loop)
            head = env[key].coq
            fmt = lambda x, y: f"match {head} with\n| Some {nm} =>\n{x}\n| None =>\n{y}\nend"
        else:
            c, tc = self.expr(st.test, env)
            if tc != BOOL:
                raise Rejected(f"{where(st)}: the test of `if` is not a boolean expression (type {tc})")
            pre = self.flush()
            l1, e1, n1 = self.mblock(st.body, env, tail, in_loop)
            l2, e2, n2 = self.mblock(st.orelse, env, tail, in_loop)
            fmt = lambda x, y: f"if {c}\nthen (\n{x})\nelse (\n{y})"
        new = [n for n in e1 if n not in env and n in e2]
        for n in new:
            t1, t2 = e1[n].ty, e2[n].ty
            if isinstance(t1, Opt) or isinstance(t2, Opt) or t1 != t2:
                raise Rejected(f"{where(st)}: {n} gets the types {t1} / {t2} in the two branches")
        outs = old + new
        t1 = self.close(l1, "Ok " + self.tuple_of(e1, outs, st), n1)
        t2 = self.close(l2, "Ok " + self.tuple_of(e2, outs, st), n2)
        for n in new:
            env[n] = Var("v_" + n, e1[n].ty)
        for n in old:
            env[n] = Var("v_" + n, env[n].ty)
        self.closers[-1] += 1
        return pre + [f"rbind (\n{fmt(t1, t2)}) (fun {self.fun_pattern(outs)} =>"]

    def emit_loop(self, st, env, loopvars, combinator):
        pre = self.flush()
        carried = [n for n in env if n in self.assigned(st.body) and not n.startswith("self.") and not n.endswith("()")]
        names = [n for n, _ in loopvars]
        if any(n in carried for n in names):
            raise Rejected(f"{where(st)}: the loop variable is assigned in the body")
        if not carried:
            raise Rejected(f"{where(st)}: the loop assigns no variable that exists before it")
        self.nloops += 1
        fname = f"{self.PREFIX}_for{self.nloops}"
        benv = dict(env)
        for n, ty in loopvars:
            self.check_name(n, st)
            benv[n] = Var("v_" + n, ty)
        for n in carried:
            benv[n] = Var("v_" + n, env[n].ty)
        self.uses.append(set())
        lines, eafter, nc = self.mblock(st.body, benv, True, True)
        body = self.close(lines, "Ok " + self.tuple_of(eafter, carried, st), nc)
        used = self.uses.pop()
        free = [k for k in env if k in used and k not in carried and k not in names]
        for k in free:
            self.use(k)
        params = [(env[k].coq, env[k].ty) for k in free]
        sttys = [env[n].ty for n in carried]
        lv = [("v_" + n, ty) for n, ty in loopvars]
        destruct = "" if len(carried) == 1 else f"let {self.pattern_of(carried)} := st in\n"
        stname = ("v_" + carried[0]) if len(carried) == 1 else "st"
        self.defs.append((fname, params, (stname, sttys), lv, destruct + body))
        fapp = "(" + " ".join([fname] + [p for p, _ in params]) + ")"
        for n in carried:
            self.use(n)
        self.closers[-1] += 1
        return pre + [f"rbind {combinator(fapp, self.tuple_of(env, carried, st))} (fun {self.fun_pattern(carried)} =>"]

    def render_defs(self):
        out = []
        for fname, params, (stname, sttys), lv, body in self.defs:
            sty = " * ".join(tytext(t, self.TYTABLE) for t in sttys)
            ps = " ".join(f"({p} : {tytext(t, self.TYTABLE)})" for p, t in params)
            if len(lv) == 1:
                lvs = f"({lv[0][0]} : {tytext(lv[0][1], self.TYTABLE)})"
            else:
                lvs = "(it : " + " * ".join(tytext(t, self.TYTABLE) for _, t in lv) + ")"
                body = "let '(" + ", ".join(p for p, _ in lv) + ") := it in\n" + body
            out.append(f"Definition {fname} {ps} ({stname} : {sty}) {lvs} : result ({sty}) :=\n{body}.\n")
        return out


class LoadEngine(MonadicEngine):
    """load_tools.load_matrix"""
    PREFIX = "gen_load_matrix"
    TYTABLE = LTYTABLE
    NUMBER_TYPES = (HUND,)
    ARGS = [("filename", STR), ("comment_char", CHAR)]
    ORACLES = [("<file>.readlines()", "file_lines", LIST(STR))]

    def __init__(self, module_names):
        super().__init__()
        self.module_names = module_names
        self.files = set()       # names bound by `with open(...) as f`

    def char_const(self, node):
        if isinstance(node, ast.Constant) and isinstance(node.value, str) and len(node.value) == 1 and 32 <= ord(node.value) < 127 \
                and node.value != '"':
            return f'"{node.value}"%char'
        return None

    def compare(self, e, env):
        # <one character> == '<c>' : characters are compared, a one-character constant is a character
        if len(e.ops) == 1 and isinstance(e.ops[0], (ast.Eq, ast.NotEq)):
            lc, rc = self.char_const(e.left), self.char_const(e.comparators[0])
            if (lc is None) != (rc is None):
                other = e.comparators[0] if lc is not None else e.left
                a, ta = self.expr(other, env)
                if ta == CHAR:
                    t = f"(Ascii.eqb {a} {rc})" if rc is not None else f"(Ascii.eqb {lc} {a})"
                    return (t if isinstance(e.ops[0], ast.Eq) else f"(negb {t})"), BOOL
                raise Rejected(f"{where(e)}: comparison of a value of type {ta} with a one-character string")
        return super().compare(e, env)

    def compare_values(self, op, a, ta, b, tb, e):
        if ta == CHAR and tb == CHAR and isinstance(op, (ast.Eq, ast.NotEq)):
            t = f"(Ascii.eqb {a} {b})"
            return (t if isinstance(op, ast.Eq) else f"(negb {t})"), BOOL
        return super().compare_values(op, a, ta, b, tb, e)

    def index_const(self, node):
        if isinstance(node, ast.Constant) and isinstance(node.value, int) and not isinstance(node.value, bool) and node.value >= 0:
            return f"{node.value}%nat"
        return None

    def expr_hook(self, e, env):
        if isinstance(e, ast.Subscript):
            k = self.index_const(e.slice)
            if k is None:
                raise Rejected(f"{where(e)}: subscript that is not a non-negative integer literal")
            a, ta = self.expr(e.value, env)
            if ta == STR:
                return self.raising(f"(str_get {a} {k})"), CHAR
            if isinstance(ta, Lst) and ta.elem is not None:
                return self.raising(f"(list_get {a} {k})"), ta.elem
            raise Rejected(f"{where(e)}: subscript of a value of type {ta}")
        if isinstance(e, ast.Tuple):
            parts = [self.expr(x, env) for x in e.elts]
            for _, t in parts:
                if t == LIT:
                    raise Rejected(f"{where(e)}: literal in a tuple")
            return "(" + ", ".join(p for p, _ in parts) + ")", TUP([t for _, t in parts])
        return super().expr_hook(e, env)

    def call_hook(self, e, env):
        f = e.func
        if isinstance(f, ast.Attribute) and f.attr == "coo_array" and isinstance(f.value, ast.Attribute) and f.value.attr == "sparse" \
                and isinstance(f.value.value, ast.Name) and f.value.value.id == "scipy" and self.module_names.get("scipy") == "scipy.sparse" \
                and "scipy" not in env and len(e.args) == 1 and len(e.keywords) == 1 and e.keywords[0].arg == "shape":
            a, sh = e.args[0], e.keywords[0].value
            ok = (isinstance(a, ast.Tuple) and len(a.elts) == 2 and isinstance(a.elts[1], ast.Tuple) and len(a.elts[1].elts) == 2
                  and isinstance(sh, ast.Tuple) and len(sh.elts) == 2)
            if not ok:
                raise Rejected(f"{where(e)}: expected coo_array((data, (row, col)), shape=(r, c))")
            d, td = self.expr(a.elts[0], env)
            r, tr = self.expr(a.elts[1].elts[0], env)
            c, tc = self.expr(a.elts[1].elts[1], env)
            nr, tnr = self.expr(sh.elts[0], env)
            nc, tnc = self.expr(sh.elts[1], env)
            if td != LIST(HUND) or tr != LIST(NAT) or tc != LIST(NAT):
                raise Rejected(f"{where(e)}: coo_array of values of types {td}, {tr}, {tc}")
            return f"(py_coo_array {d} {r} {c} {self.to_nat(nr, tnr, e)} {self.to_nat(nc, tnc, e)})", COO
        if e.keywords:
            raise Rejected(f"{where(e)}: keyword arguments")
        if isinstance(f, ast.Name) and f.id not in env and len(e.args) == 1 and f.id in ("int", "float", "len"):
            a, ta = self.expr(e.args[0], env)
            if f.id == "len":
                if isinstance(ta, Lst):
                    return f"(List.length {a})", NAT
            elif ta == STR:
                return (self.raising(f"(py_int {a})"), NAT) if f.id == "int" else (self.raising(f"(py_float {a})"), HUND)
            raise Rejected(f"{where(e)}: {f.id}() of a value of type {ta}")
        if isinstance(f, ast.Name) and f.id == "max" and "max" not in env:
            if len(e.args) == 2:
                (a, ta), (b, tb) = self.expr(e.args[0], env), self.expr(e.args[1], env)
                return f"(Nat.max {self.to_nat(a, ta, e)} {self.to_nat(b, tb, e)})", NAT
            if len(e.args) == 1:
                a, ta = self.expr(e.args[0], env)
                if ta == LIST(NAT):
                    return self.raising(f"(list_max_r {a})"), NAT
            raise Rejected(f"{where(e)}: max() of these arguments")
        if isinstance(f, ast.Attribute) and f.attr == "split" and len(e.args) <= 1:
            a, ta = self.expr(f.value, env)
            if ta != STR:
                raise Rejected(f"{where(e)}: .split of a value of type {ta}")
            if not e.args:
                return f"(split_ws {a})", LIST(STR)
            c = self.char_const(e.args[0])
            if c is None:
                raise Rejected(f"{where(e)}: .split(<sep>) with a separator that is not a one-character constant")
            return f"(split_on {c} {a})", LIST(STR)
        if isinstance(f, ast.Attribute) and f.attr == "readlines" and not e.args and isinstance(f.value, ast.Name) \
                and f.value.id in self.files:
            var = self.lookup(env, "<file>.readlines()", e)
            return var.coq, var.ty
        return super().call_hook(e, env)

    def stmt_hook(self, st, env, tail, in_loop):
        if isinstance(st, ast.With) and not in_loop:
            # with open(filename, encoding="utf-8") as f: <statements>   (reading; no new scope)
            if len(st.items) != 1 or "open" in env:
                raise Rejected(f"{where(st)}: with statement")
            c = st.items[0].context_expr
            ok = (isinstance(c, ast.Call) and isinstance(c.func, ast.Name) and c.func.id == "open" and len(c.args) == 1
                  and isinstance(c.args[0], ast.Name) and c.args[0].id == "filename"
                  and all(k.arg == "encoding" and isinstance(k.value, ast.Constant) for k in c.keywords)
                  and isinstance(st.items[0].optional_vars, ast.Name))
            if not ok or self.files:
                raise Rejected(f"{where(st)}: expected a single `with open(filename, encoding=...) as <f>:`")
            self.files.add(st.items[0].optional_vars.id)
            lines = []
            for x in st.body:
                if not is_ignorable(x):
                    lines += self.stmt(x, env, False, False)
            return lines
        return super().stmt_hook(st, env, tail, in_loop)


def translate_load_once(tree, names, force):
    fn = [n for n in tree.body if isinstance(n, ast.FunctionDef) and n.name == "load_matrix"]
    if len(fn) != 1 or fn[0].decorator_list:
        raise Rejected("load_matrix not found exactly once at module level")
    fn = fn[0]
    eng = LoadEngine(names)
    eng.force = dict(force)
    eng.lenient = not force
    a = fn.args
    if [x.arg for x in a.args] != [n for n, _ in eng.ARGS] or a.vararg or a.kwarg or a.kwonlyargs or a.posonlyargs or a.defaults:
        raise Rejected(f"{where(fn)}: signature of load_matrix")
    env0 = initial_env(eng, eng.ARGS)
    env = dict(env0)
    body = [st for st in fn.body if not is_ignorable(st)]
    if not body or not isinstance(body[-1], ast.Return) or body[-1].value is None:
        raise Rejected(f"{where(fn)}: load_matrix does not end with `return <expr>`")
    for st in body[:-1]:
        for x in ast.walk(st):
            if isinstance(x, (ast.Return, ast.Yield, ast.YieldFrom, ast.Raise, ast.Try, ast.While, ast.Break, ast.Global, ast.Nonlocal,
                              ast.Lambda, ast.FunctionDef, ast.Delete, ast.Import, ast.ImportFrom, ast.NamedExpr, ast.Await)):
                raise Rejected(f"{where(x)}: {type(x).__name__} inside load_matrix")
    lines = []
    for st in body[:-1]:
        lines += eng.stmt(st, env, False, False)
    rt, rty = eng.expr(body[-1].value, env)
    lines += eng.flush()
    if rty != TUP([COO, HUND]) and not (eng.lenient and eng.force):
        raise Rejected(f"{where(body[-1])}: load_matrix returns a value of type {rty}")
    text = eng.close(lines, "Ok " + rt, eng.closers[-1])
    # the two wrappers: which comment character they pass
    wrappers = []
    for wname in ("load_qubo_matrix", "load_ising_matrix"):
        w = [n for n in tree.body if isinstance(n, ast.FunctionDef) and n.name == wname]
        if len(w) != 1 or w[0].decorator_list or [x.arg for x in w[0].args.args] != ["filename"] or w[0].args.defaults:
            raise Rejected(f"{wname} not found exactly once with the signature (filename)")
        wb = [st for st in w[0].body if not is_ignorable(st)]
        ok = (len(wb) == 1 and isinstance(wb[0], ast.Return) and isinstance(wb[0].value, ast.Call) and isinstance(wb[0].value.func, ast.Name)
              and wb[0].value.func.id == "load_matrix" and not wb[0].value.keywords and len(wb[0].value.args) == 2
              and isinstance(wb[0].value.args[0], ast.Name) and wb[0].value.args[0].id == "filename")
        cc = eng.char_const(wb[0].value.args[1]) if ok else None
        if cc is None:
            raise Rejected(f"{where(w[0])}: {wname} is not `return load_matrix(filename, '<c>')`")
        wrappers.append(f"Definition gen_{wname} (file_lines : list string) (v_filename : string) : result ((nat * nat * (nat -> nat -> Z)) * Z) :=\n"
                        f"gen_load_matrix file_lines v_filename {cc}.\n")
    return eng, env0, text, wrappers, fn.lineno


def translate_load_source(src, origin="tools/load_tools.py"):
    """-> text of LoadGen.v"""
    try:
        tree = ast.parse(src)
    except SyntaxError as ex:
        raise Rejected(f"syntax error: {ex}")
    names = module_table(tree)
    eng, env0, text, wrappers, lineno = translate_load_once(tree, names, {})
    if eng.force:
        eng, env0, text, wrappers, lineno = translate_load_once(tree, names, eng.force)
        if eng.lenient:
            raise Rejected("internal: second pass is lenient")
    params = " ".join(f"({v.coq} : {tytext(v.ty, eng.TYTABLE)})" for k, v in sorted(env0.items(), key=lambda kv: not kv[0].startswith("<")))
    out = [f"(* GENERATED by harness/translate_export.py from {origin} (load_matrix, line {lineno}).  Do not edit. *)",
           "From Coq Require Import ZArith QArith List Bool String Ascii PeanoNat.",
           "From VQ Require Import Base LinAlg Export PyReport PyExport.",
           "Import ListNotations.",
           "Open Scope Z_scope.",
           ""]
    out += eng.render_defs()
    out.append(f"Definition gen_load_matrix {params} : result ((nat * nat * (nat -> nat -> Z)) * Z) :=\n{text}.\n")
    out += wrappers
    return "\n".join(out) + "\n"


def source_path():
    from vq import core
    return os.path.join(core.REPO, "src/vrpqubo/tools/qubo_tools.py")


def load_source_path():
    from vq import core
    return os.path.join(core.REPO, "src/vrpqubo/tools/load_tools.py")


def translate():
    path = source_path()
    with open(path) as fh:
        src = fh.read()
    lpath = load_source_path()
    with open(lpath) as fh:
        lsrc = fh.read()
    return {"ExportGen.v": translate_source(src, origin=path), "LoadGen.v": translate_load_source(lsrc, origin=lpath)}


if __name__ == "__main__":
    import sys
    root = os.environ.get("VQ_REPO", "/repo")
    if len(sys.argv) > 1 and sys.argv[1] == "load":
        p = os.path.join(root, "src/vrpqubo/tools/load_tools.py")
        print(translate_load_source(open(p).read(), origin=p))
    else:
        p = os.path.join(root, "src/vrpqubo/tools/qubo_tools.py")
        print(translate_source(open(p).read(), origin=p))
