"""translate_arccons.py -- fail-closed translator of the objective / constraint ASSEMBLY of
ArcBasedRoutingProblem (src/vrpqubo/routing_problem/formulations/arc_based_rp.py of the tree under test)
into Gallina: coq/gen/ArcConsGen.v, on top of coq/gen/ArcGen.v (package `arcenum`, produced here too by
calling translate_arcenum).  [C05; the same A, b, c feed C02 / C03]

Translated methods (every one must exist; anything outside the whitelist raises `Rejected`):

    build_objective, build_constraints_quicker, build_constraints, get_objective_data, get_constraint_data

They may call the methods translated by translate_arcenum (enumerate_variables, get_num_variables,
get_var_tuple_index, ...): such a call is printed as a call of the definition in ArcGen.v on the base part
of the object (`b_call self (gen_<m> (b_base self) args)`).

The printer is translate_enumcore.Translator (expressions, types, if/else, lets), subclassed here for the
statement shapes the assembly code needs in addition:

* loops whose body may raise: `for` -> `match py_forx (gen_<fn>_body<k> ..) it state with (state, None) => REST
  | (state, Some e_) => <raise e_> end`; a body returns (XNext | XBreak | XRaise e, state);
* `x = <l.index(v) | self.a[k]>` and `a, _, b, _ = self.a[k]` anywhere (function level or loop body): py_raising,
  an exception leaves the loop body as XRaise / the method as Err;
* `try: x = <l.index(v)>; <straight-line statements that cannot raise>  except C: <block>` inside a loop:
  py_try <expr> (fun x => <rest of try body; REST>) C (<handler; REST>) (<raise>)   -- REST is printed twice;
* `x = self.m(..)`, `(a, b, c, d) = self.m(..)`, `self.m(..)` for methods that change the object and may
  raise and / or return None: the result is matched (`Err e` propagates, unpacking `None` is TypeError);
* a call of a method that changes the object INSIDE an expression (`range(self.get_num_variables())`,
  `np.zeros(self.get_num_variables())`, `shape=(len(b), self.get_num_variables())`) is evaluated in a `let`
  in front of the statement -- accepted only for one such call per statement, non-raising, and when the
  statement reads no other attribute of self (so the evaluation order cannot matter);
* local lists: `x = []` (element type taken from the `x.append(..)` calls: integer constants are Python
  ints = Z), `x.append(e)` -> `let x := py_append x e`, `x = x + [c] * n`; a list that is appended to may not
  be aliased (`y = x`, `self.a = x`, `return x` are rejected);
* `enumerate(l)`, `np.zeros(n)`, `np.array(l)`, `sparse.coo_array((vals, (rows, cols)), shape=(m, n))`,
  `sparse.csr_array((m, n))`, `A.toarray()`, `self.a[k] = v` on the objective array, f-strings of literal text
  and integer variables (a list of pieces, so that the constraint names are compared too).

Operators / constants / argument order are printed from the ast nodes; nothing looks at source text.
coq/genprops/C05_gen.v proves the generated loop bodies and methods equal to the hand model Arc.v.
"""
import ast
import copy
import os
from collections import OrderedDict

import translate_enumcore as E
import translate_arcenum as TA
from translate_enumcore import (ARC, BOOL, EMPTYLIST, EXT, LIT, NAT, NODE, NONE, OPAQUE, REPEATLIT, ZT,  # noqa: F401
                                ClassSpec, Field, Rejected, T_custom, T_dict, T_list, T_ndarray, T_tuple, Val,
                                always_exits, coq_type, eqb_of, ident, indent, is_name, is_none, is_self_attr,
                                is_seq, loaded_names, rej)

VAR = T_tuple(NAT, ZT, NAT, ZT)
KEY = T_tuple(NAT, NAT)
PYSTR = T_custom("pystr")
MAT = T_custom("mat")
UNK = T_custom("_")                 # element type of a `[]` not yet determined (only during type-hint passes)


def T_option(t):
    return ("option", t)


FIELDS = {
    # the base part (record astate of PyArc.v), read through the object
    "time_points": Field(T_ndarray(ZT), "b_time_points", None, item=("total", "b_time_points_item", NAT, ZT)),
    "var_mapping": Field(T_list(VAR), "b_var_mapping", None, item=("raising", NAT, VAR)),
    "nodes": Field(T_list(NODE), "b_nodes", None, item=("total", "b_nodes_item", NAT, NODE)),
    "arcs": Field(T_dict(ARC), "b_arcs", None, item=("total", "b_arcs_item", KEY, ARC)),
    # the attributes the assembly methods assign
    "objective": Field(T_ndarray(ZT), "b_objective", "set_objective", setitem=("py_nd_set", NAT, ZT)),
    "objective_built": Field(BOOL, "b_objective_built", "set_objective_built"),
    "constraints_built": Field(BOOL, "b_constraints_built", "set_constraints_built"),
    "constraint_names": Field(T_list(PYSTR), "b_constraint_names", "set_constraint_names"),
    "constraints_matrix": Field(MAT, "b_constraints_matrix", "set_constraints_matrix"),
    "constraints_rhs": Field(T_ndarray(ZT), "b_constraints_rhs", "set_constraints_rhs"),
}

OBJ_METHODS = dict(TA.OBJ_METHODS)
OBJ_METHODS[(MAT, "toarray")] = (MAT, "(np_toarray {r})")
# get_origin / get_destination need the base object
OBJ_METHODS[(ARC, "get_origin")] = (NODE, "(py_get_origin (b_base {self}) {r})")
OBJ_METHODS[(ARC, "get_destination")] = (NODE, "(py_get_destination (b_base {self}) {r})")

SIGNATURES = OrderedDict([
    ("build_objective", []),
    ("build_constraints_quicker", []),
    ("build_constraints", []),
    ("get_objective_data", []),
    ("get_constraint_data", []),
])


def _np_zeros(tr, e, args):
    if e.keywords or len(args) != 1 or args[0].ty not in (NAT, LIT):
        rej(e, "np.zeros is accepted with one non-negative integer argument only")
    return Val(T_ndarray(ZT), f"(np_zeros {tr.coerce(args[0], NAT, e)})")


def _np_array(tr, e, args):
    if e.keywords or len(args) != 1 or not is_seq(args[0].ty) or args[0].ty[1] != ZT:
        rej(e, "np.array is accepted on a list of integers only")
    return Val(T_ndarray(ZT), f"(np_array {args[0].term})")


def _enumerate(tr, e, args):
    if len(args) != 1 or not is_seq(args[0].ty):
        rej(e, "enumerate() of something that is not a list / array")
    return Val(T_list(T_tuple(NAT, args[0].ty[1])), f"(py_enumerate {args[0].term})")


EXTRA = {"zeros": _np_zeros, "array": _np_array, "enumerate": _enumerate}

SPEC = ClassSpec("ArcBasedRoutingProblem", "bstate", FIELDS, OBJ_METHODS, SIGNATURES, extra_calls=EXTRA)

HEADER = """(* GENERATED by harness/translate_arccons.py from routing_problem/formulations/arc_based_rp.py of the
   tree under test.  Do not edit: the file is rewritten on every run of `bin/check C05`. *)
From Coq Require Import String.
From VQ Require Import Base Vrptw Arc PyEnumCore PyArc PyArcCons.
From VQG Require Import ArcGen.
"""

REL = TA.REL
HOIST_MARK = "'"        # a character no Python identifier contains


# ----------------------------------------------------------------------------------------- ast helpers
def local_appends(stmts):
    """Names x of `x.append(..)` expression statements (x a plain name), in order of first occurrence."""
    out = []
    for st in stmts:
        for sub in ast.walk(st):
            if isinstance(sub, ast.Expr) and isinstance(sub.value, ast.Call) and isinstance(sub.value.func, ast.Attribute) \
                    and sub.value.func.attr == "append" and is_name(sub.value.func.value):
                if sub.value.func.value.id not in out:
                    out.append(sub.value.func.value.id)
    return out


def assigned_names2(stmts):
    """enumcore.assigned_names plus the locals changed by `x.append(..)`; `_` is a wildcard, not a local."""
    out = []

    def add(n):
        if n != "_" and n not in out:
            out.append(n)

    def walk(block):
        for st in block:
            if isinstance(st, ast.Assign):
                for t in st.targets:
                    for sub in ast.walk(t):
                        if isinstance(sub, ast.Name) and isinstance(sub.ctx, ast.Store):
                            add(sub.id)
            elif isinstance(st, ast.AugAssign):
                if isinstance(st.target, ast.Name):
                    add(st.target.id)
            elif isinstance(st, ast.Expr):
                for n in local_appends([st]):
                    add(n)
            elif isinstance(st, ast.If):
                walk(st.body)
                walk(st.orelse)
            elif isinstance(st, ast.For):
                walk(st.body)
            elif isinstance(st, ast.Try):
                walk(st.body)
                for h in st.handlers:
                    walk(h.body)
    walk(stmts)
    return out


def self_refs(node, skip=None):
    """All `self` names below node, not counting the subtree `skip`."""
    out = []

    def walk(n):
        if n is skip:
            return
        if is_name(n, "self"):
            out.append(n)
        for c in ast.iter_child_nodes(n):
            walk(c)
    walk(node)
    return out


class _Normalise(ast.NodeTransformer):
    """`x: T = e` is `x = e`, `x: T` is nothing (type annotations are ignored)."""
    def visit_AnnAssign(self, node):
        if node.value is None:
            return ast.copy_location(ast.Pass(), node)
        if not node.simple:
            return node                     # annotated attribute / subscript target: left as is (rejected later)
        return ast.copy_location(ast.Assign(targets=[node.target], value=node.value), node)


class _Replace(ast.NodeTransformer):
    def __init__(self, target, new):
        self.target, self.new = target, new

    def visit(self, node):
        if node is self.target:
            return self.new
        return self.generic_visit(node)


# ------------------------------------------------------------------------------------------ the printer
class ConsTranslator(E.Translator):
    def __init__(self, spec, class_node, externs, hints):
        super().__init__(spec, class_node)
        self.externs = externs            # name -> FnInfo of the methods translated into ArcGen.v
        self.hints = hints                # (method, local) -> element type of a list initialised with []
        self.hints_changed = False
        self.unk_used = False
        self.hoist_counter = 0
        self.appended = set()

    # ------------------------------------------------------------------ set-up
    def collect(self):
        for name, info in self.externs.items():
            if name in self.spec.signatures:
                raise Rejected(f"{name} is translated by both packages")
            self.fns[name] = info
        order = super().collect()
        return [n for n in order if n not in self.externs]

    def call_term(self, info, e, env):
        if info.name not in self.externs:
            return super().call_term(info, e, env)
        if len(e.args) != len(info.param_types):
            rej(e, f"self.{info.name}() called with {len(e.args)} arguments")
        args = [self.coerce(self.pure(a, env), t, e) for a, t in zip(e.args, info.param_types)]
        inner = "(" + " ".join([f"gen_{info.name}", "(b_base self)"] + args) + ")"
        return inner if info.pure else f"(b_call self {inner})"

    def function(self, name):
        fn = self.fns[name].node
        self.hoist_counter = 0
        self.appended = set(local_appends(fn.body))
        for a in fn.args.args:
            if a.arg in self.appended:
                rej(fn, f"parameter {a.arg} is appended to")
        super().function(name)

    # ------------------------------------------------------------------ expressions
    def expr(self, e, env):
        if isinstance(e, ast.Name) and e.id == "_":
            rej(e, "`_` used as a value")
        if isinstance(e, ast.JoinedStr):
            pieces = []
            for part in e.values:
                if isinstance(part, ast.Constant) and isinstance(part.value, str):
                    s = part.value
                    if not all(32 <= ord(c) < 127 and c != '"' for c in s):
                        rej(e, "f-string text outside printable ASCII (or containing a double quote)")
                    pieces.append(f'SLit "{s}"%string')
                elif isinstance(part, ast.FormattedValue) and part.conversion == -1 and part.format_spec is None:
                    v = self.pure(part.value, env)
                    if v.ty == NAT:
                        pieces.append(f"SNat {v.term}")
                    elif v.ty in (ZT, LIT):
                        pieces.append(f"SInt {self.coerce(v, ZT, e)}")
                    else:
                        rej(e, f"f-string field of type {v.ty!r} (only integers are accepted)")
                else:
                    rej(e, "f-string piece with a conversion / format specification")
            return Val(PYSTR, "[" + "; ".join(pieces) + "]")
        return super().expr(e, env)

    def as_zlist(self, v, node):
        """A list / array of Python integers, as a Coq list of Z."""
        if is_seq(v.ty) and v.ty[1] == ZT:
            return v.term
        if is_seq(v.ty) and v.ty[1] == NAT:
            return f"(map Z.of_nat {v.term})"
        rej(node, f"a list of integers is expected, not a value of type {v.ty!r}")

    def call(self, e, env):
        f = e.func
        if isinstance(f, ast.Attribute) and is_name(f.value, "sparse"):
            if "sparse" in env:
                rej(e, "`sparse` is a local")
            for a in e.args:
                if isinstance(a, ast.Starred):
                    rej(e, "star arguments are not accepted")
            if f.attr == "coo_array":
                kw = {k.arg: k.value for k in e.keywords}
                if len(e.args) != 1 or set(kw) != {"shape"} or len(e.keywords) != 1:
                    rej(e, "sparse.coo_array is accepted as coo_array((vals, (rows, cols)), shape=(m, n)) only")
                a = e.args[0]
                if not (isinstance(a, ast.Tuple) and len(a.elts) == 2 and isinstance(a.elts[1], ast.Tuple)
                        and len(a.elts[1].elts) == 2):
                    rej(e, "sparse.coo_array: the data argument must be written (vals, (rows, cols))")
                vals = self.pure(a.elts[0], env)
                rows = self.pure(a.elts[1].elts[0], env)
                cols = self.pure(a.elts[1].elts[1], env)
                shape = self.pure(kw["shape"], env)
                return Val(MAT, f"(sparse_coo_array {self.as_zlist(vals, e)} {self.as_zlist(rows, e)} {self.as_zlist(cols, e)} "
                                f"{self.coerce(shape, KEY, e)})")
            if f.attr == "csr_array":
                if e.keywords or len(e.args) != 1:
                    rej(e, "sparse.csr_array is accepted as csr_array((m, n)) only")
                shape = self.pure(e.args[0], env)
                if not (isinstance(shape.ty, tuple) and shape.ty[0] == "tuple" and len(shape.ty[1]) == 2):
                    rej(e, "sparse.csr_array: the argument must be a shape (m, n)")
                return Val(MAT, f"(sparse_csr_zeros {self.coerce(shape, KEY, e)})")
            rej(e, f"sparse.{f.attr} is not accepted")
        return super().call(e, env)

    def coerce(self, v, ty, node):
        # a tuple held in a variable, used where a tuple of the same type is expected
        if isinstance(ty, tuple) and ty[0] == "tuple" and v.ty == ty and v.term is not None and not v.raising \
                and v.ty != OPAQUE:
            return v.term
        return super().coerce(v, ty, node)

    def binop(self, e, env):
        if isinstance(e.op, (ast.Add, ast.Mult)):
            a, b = self.pure(e.left, env), self.pure(e.right, env)
            # [c] * n  with a count that was computed with a subtraction (a Python integer: negative -> empty)
            if isinstance(e.op, ast.Mult) and isinstance(e.left, ast.List) and len(e.left.elts) == 1 and b.ty == ZT:
                x = self.pure(e.left.elts[0], env)
                cnt = f"(Z.to_nat {b.term})"
                if x.ty == LIT:
                    return Val(REPEATLIT, cnt, lit=x.lit)
                x = self.settle(x, e)
                return Val(T_list(x.ty), f"(repeat {x.term} {cnt})")
            # l1 + l2 on lists (a new list)
            if isinstance(e.op, ast.Add) and isinstance(a.ty, tuple) and a.ty[0] == "list":
                if a.ty[1] == UNK:
                    rej(e, "concatenation with a list whose element type is not determined yet")
                if b.ty in (REPEATLIT, EMPTYLIST) or (isinstance(b.ty, tuple) and b.ty[0] == "list"):
                    if b.ty == REPEATLIT and a.ty[1] not in (NAT, ZT):
                        rej(e, "integer constants appended to a list of another type")
                    return Val(a.ty, f"(py_list_concat {a.term} {self.coerce(b, a.ty, e)})")
                rej(e, f"list + value of type {b.ty!r}")
        return super().binop(e, env)

    # ------------------------------------------------------------------ statements
    def raise_term(self, var, ctx, node):
        """The term that stands for `an exception of class <var> leaves this block`."""
        if ctx["kind"] == "loop":
            return f"(XRaise {var}, {self.state_pat(ctx['svars'])})"
        if ctx["kind"] == "fn" and not ctx.get("in_loop"):
            if not self.cur.raising:
                rej(node, "internal: raise in a method classified as non-raising")
            return self.err_term(var)
        rej(node, "a statement that may raise inside a branch that is joined is not accepted")

    def finish(self, env, ctx):
        if ctx["kind"] == "loop":
            return f"(XNext, {self.state_pat(ctx['svars'])})"
        return super().finish(env, ctx)

    def join_vars(self, stmts, env):
        svars = []
        if not self.cur.pure:
            svars.append("self")
        for n in assigned_names2(stmts):
            if n in env and env[n] != OPAQUE:
                svars.append(n)
        if not svars:
            rej(stmts[0] if stmts else None, "a branch / loop without any effect on the state")
        return svars

    def impure_calls(self, node):
        out = []
        for sub in ast.walk(node):
            if isinstance(sub, ast.Call) and is_self_attr(sub.func) and sub.func.attr in self.fns \
                    and not self.fns[sub.func.attr].pure:
                out.append(sub)
        return out

    def hoist(self, st, env):
        """If an expression of the statement contains a call of a method that changes the object, return
        (call node, host expression); the whole right-hand side of an assignment / an expression statement
        that IS such a call is handled by the statement rules and is not reported here."""
        if isinstance(st, (ast.Assign, ast.AugAssign, ast.Expr, ast.Return)):
            host = st.value
        elif isinstance(st, ast.For):
            host = st.iter
        elif isinstance(st, ast.If):
            host = st.test
        else:
            return None
        if host is None:
            return None
        calls = self.impure_calls(host)
        if isinstance(st, (ast.Assign, ast.Expr)) and calls and calls[0] is host:
            if len(calls) > 1:
                rej(st, "a call of a method that changes the object inside the arguments of another one")
            return None
        if not calls:
            return None
        if len(calls) > 1:
            rej(st, "more than one call of a method that changes the object in one statement")
        call = calls[0]
        info = self.fns[call.func.attr]
        if info.raising or not info.has_value or info.has_none:
            rej(st, f"self.{info.name}() inside an expression: only methods that always return a value and cannot raise")
        if call.keywords:
            rej(st, "keyword arguments are not accepted")
        if self_refs(host, skip=call):
            rej(st, "the statement reads self next to a call of a method that changes the object (evaluation order)")
        if isinstance(st, ast.AugAssign) and self_refs(st.target):
            rej(st, "augmented assignment to an attribute from a call of a method that changes the object")
        if isinstance(st, ast.Assign):
            for t in st.targets:
                if isinstance(t, ast.Subscript):
                    rej(st, "item assignment from a call of a method that changes the object")
        return call, host

    def block(self, stmts, env, ctx):
        stmts = [s for s in stmts if not E.ignorable_checked(s)]
        if not stmts:
            return self.finish(env, ctx)
        st, rest = stmts[0], stmts[1:]
        found = self.hoist(st, env)
        if found is not None:
            if ctx["kind"] == "join":
                rej(st, "a call of a method that changes the object inside a branch that is joined")
            self.need_mutable_self(st)
            st2 = copy.deepcopy(st)
            call2, _ = self.hoist(st2, env)
            info = self.fns[call2.func.attr]
            self.hoist_counter += 1
            tmp = f"h{self.hoist_counter}{HOIST_MARK}"
            term = self.call_term(info, call2, env)
            new = ast.copy_location(ast.Name(id=tmp, ctx=ast.Load()), call2)
            st2 = _Replace(call2, new).visit(st2)
            ast.fix_missing_locations(st2)
            env2 = dict(env)
            env2[tmp] = info.ret_type
            return f"let '(self, {tmp}) := {term} in\n" + self.block([st2] + rest, env2, ctx)
        inloop = ctx["kind"] == "loop" or ctx.get("in_loop")

        if isinstance(st, ast.Return):
            if rest:
                rej(rest[0], "statement after return")
            if inloop or ctx["kind"] == "join":
                rej(st, "return inside a loop or inside a branch that is joined is not accepted")
            if is_name(st.value) and st.value.id in self.appended:
                rej(st, "a list that is appended to is returned (aliasing)")
            if is_none(st.value):
                return self.ret_term(None, env, ctx, st)
            v = self.expr(st.value, env)
            if v.raising:
                ok = self.ret_term(Val(v.ty, "r_"), env, ctx, st)
                return f"py_raising {v.term}\n  (fun r_ => {ok})\n  (fun e_ => {self.raise_term('e_', ctx, st)})"
            return self.ret_term(v, env, ctx, st)

        if isinstance(st, (ast.Continue, ast.Break)):
            if rest:
                rej(rest[0], "statement after continue/break")
            if ctx["kind"] != "loop":
                rej(st, "continue/break outside a translated loop body (or inside a joined branch)")
            flag = "XNext" if isinstance(st, ast.Continue) else "XBreak"
            return f"({flag}, {self.state_pat(ctx['svars'])})"

        if isinstance(st, ast.Assign):
            if len(st.targets) != 1:
                rej(st, "chained assignment")
            return self.assign(st.targets[0], st.value, st, rest, env, ctx)

        if isinstance(st, ast.AugAssign):
            if type(st.op) not in E.ARITH:
                rej(st, f"augmented assignment with {type(st.op).__name__}")
            load = ast.copy_location(ast.fix_missing_locations(E._as_load(st.target)), st)
            value = ast.copy_location(ast.BinOp(left=load, op=st.op, right=st.value), st)
            ast.fix_missing_locations(value)
            return self.assign(st.target, value, st, rest, env, ctx)

        if isinstance(st, ast.Expr):
            return self.expr_stmt(st, rest, env, ctx)
        if isinstance(st, ast.If):
            return self.if_stmt(st, rest, env, ctx)
        if isinstance(st, ast.For):
            return self.for_stmt(st, rest, env, ctx)
        if isinstance(st, ast.Try):
            return self.try_stmt(st, rest, env, ctx)
        rej(st, f"statement {type(st).__name__} is not accepted")

    def tuple_pattern(self, target, ty, st, env):
        """`a, _, b = <tuple>`: the Coq pattern and the extended environment."""
        if not (isinstance(target, ast.Tuple) and all(is_name(x) for x in target.elts)):
            rej(st, "assignment target is not accepted")
        if not (isinstance(ty, tuple) and ty[0] == "tuple" and len(ty[1]) == len(target.elts)):
            rej(st, "tuple assignment from a value that is not a tuple of the same length")
        names = [x.id for x in target.elts if x.id != "_"]
        if len(set(names)) != len(names):
            rej(st, "a name occurs twice in the assignment target")
        env2 = env
        for x, t in zip(target.elts, ty[1]):
            if x.id != "_":
                env2 = self.bind_local(x.id, t, st, env2)
        pat = "(" + ", ".join("_" if x.id == "_" else ident(x.id) for x in target.elts) + ")"
        return pat, env2

    def bind_local(self, name, ty, node, env):
        if name.endswith(HOIST_MARK) or name == "_":
            rej(node, f"assignment to {name}")
        return super().bind_local(name, ty, node, env)

    def assign(self, target, value, st, rest, env, ctx):
        # aliasing of lists that are appended to
        if is_name(value) and value.id in self.appended:
            rej(st, f"the list {value.id} is appended to somewhere: binding it to a second name / attribute is not accepted")
        if is_name(target) and target.id in self.appended and isinstance(value, (ast.Name, ast.Attribute, ast.Subscript)):
            rej(st, f"the list {target.id} is appended to somewhere: it must be initialised with a new list")
        # <target> = self.m(..) for a method that changes the object
        if isinstance(value, ast.Call) and is_self_attr(value.func) and value.func.attr in self.fns \
                and not self.fns[value.func.attr].pure:
            info = self.fns[value.func.attr]
            if value.keywords:
                rej(st, "keyword arguments are not accepted")
            if not info.has_value:
                rej(st, f"self.{info.name}() returns nothing")
            self.need_mutable_self(st)
            if ctx["kind"] == "join":
                rej(st, "a call of a method that changes the object inside a branch that is joined")
            call = self.call_term(info, value, env)
            optional = info.has_none
            vty = T_option(info.ret_type) if optional else info.ret_type
            if is_name(target):
                env2 = self.bind_local(target.id, vty, st, env)
                if not info.raising:
                    return f"let '(self, {ident(target.id)}) := {call} in\n" + self.block(rest, env2, ctx)
                body = f"(fun {ident(target.id)} =>\n{indent(self.block(rest, env2, ctx), 4)})"
            else:
                pat, env2 = self.tuple_pattern(target, info.ret_type, st, env)
                inner = self.block(rest, env2, ctx)
                if optional:
                    # unpacking None: TypeError
                    inner = (f"match o_ with\n| Some {pat} =>\n{indent(inner)}\n| None => "
                             f"{self.raise_term('TypeError', ctx, st)}\nend")
                    body = f"(fun o_ =>\n{indent(inner, 4)})"
                else:
                    body = f"(fun r_ =>\n    let '{pat} := r_ in\n{indent(inner, 4)})"
                if not info.raising:
                    return f"let '(self, r_) := {call} in\n{body} r_"
            return (f"let '(self, r_) := {call} in\npy_raising r_\n  {body}\n"
                    f"  (fun e_ => {self.raise_term('e_', ctx, st)})")
        if is_name(target) or isinstance(target, ast.Tuple):
            v = self.expr(value, env)
            if v.raising:
                # x = <l.index(..) | a[k]> outside a try: the exception leaves the loop body / the method
                err = self.raise_term("e_", ctx, st)
                if is_name(target):
                    env2 = self.bind_local(target.id, v.ty, st, env)
                    return (f"py_raising {v.term}\n  (fun {ident(target.id)} =>\n{indent(self.block(rest, env2, ctx), 4)})\n"
                            f"  (fun e_ => {err})")
                pat, env2 = self.tuple_pattern(target, v.ty, st, env)
                return (f"py_raising {v.term}\n  (fun r_ =>\n    let '{pat} := r_ in\n{indent(self.block(rest, env2, ctx), 4)})\n"
                        f"  (fun e_ => {err})")
            if isinstance(target, ast.Tuple):
                v = self.settle(v, st)
                pat, env2 = self.tuple_pattern(target, v.ty, st, env)
                return f"let '{pat} := {v.term} in\n" + self.block(rest, env2, ctx)
            if v.ty == EMPTYLIST:
                # x = []: the element type comes from the appends (type-hint passes, see translate_source)
                key = (self.cur.name, target.id)
                ety = self.hints.get(key, UNK)
                if ety == UNK:
                    self.unk_used = True
                env2 = self.bind_local(target.id, T_list(ety), st, env)
                return f"let {ident(target.id)} : {coq_type(T_list(ety))} := [] in\n" + self.block(rest, env2, ctx)
        return super().assign(target, value, st, rest, env, ctx)

    def expr_stmt(self, st, rest, env, ctx):
        v = st.value
        # self.m(..) for a method that changes the object and may raise
        if isinstance(v, ast.Call) and is_self_attr(v.func) and v.func.attr in self.fns \
                and self.fns[v.func.attr].raising and not self.fns[v.func.attr].pure:
            info = self.fns[v.func.attr]
            if v.keywords:
                rej(st, "keyword arguments are not accepted")
            self.need_mutable_self(st)
            if ctx["kind"] == "join":
                rej(st, "a call of a method that may raise inside a branch that is joined")
            return (f"let '(self, r_) := {self.call_term(info, v, env)} in\npy_raising r_\n"
                    f"  (fun _ =>\n{indent(self.block(rest, env, ctx), 4)})\n"
                    f"  (fun e_ => {self.raise_term('e_', ctx, st)})")
        # x.append(e) on a local list
        if isinstance(v, ast.Call) and isinstance(v.func, ast.Attribute) and v.func.attr == "append" \
                and is_name(v.func.value) and len(v.args) == 1 and not v.keywords:
            name = v.func.value.id
            if name not in env or not (isinstance(env[name], tuple) and env[name][0] == "list"):
                rej(st, f"{name}.append: {name} is not a local list")
            x = self.pure(v.args[0], env)
            ety = env[name][1]
            key = (self.cur.name, name)
            xs = Val(ZT, self.coerce(x, ZT, st)) if x.ty == LIT else self.settle(x, st)   # integer constants: Python ints
            if ety == UNK:
                self.hints[key] = xs.ty
                self.hints_changed = True
                return f"let {ident(name)} := py_append {ident(name)} {xs.term} in\n" + self.block(rest, env, ctx)
            if xs.ty != ety and xs.ty in E.NUM_RANK and ety in E.NUM_RANK and E.NUM_RANK[xs.ty] > E.NUM_RANK[ety] \
                    and xs.ty != EXT and self.hints.get(key) == ety:
                # a later append of a wider integer type: widen the list (next pass)
                self.hints[key] = xs.ty
                self.hints_changed = True
            return (f"let {ident(name)} := py_append {ident(name)} {self.coerce(x, ety, st)} in\n"
                    + self.block(rest, env, ctx))
        return super().expr_stmt(st, rest, env, ctx)

    def for_stmt(self, st, rest, env, ctx):
        if st.orelse:
            rej(st, "for ... else is not accepted")
        if ctx["kind"] == "join":
            rej(st, "a loop inside a branch that is joined is not accepted")
        it = self.pure(st.iter, env)
        if isinstance(it.ty, tuple) and it.ty[0] == "dict":
            it = Val(T_list(KEY), f"(py_dict_keys {it.term})")
        if not is_seq(it.ty):
            rej(st, f"iteration over a value of type {it.ty!r}")
        if is_name(st.iter) and st.iter.id in self.appended:
            rej(st, "iteration over a list that is appended to")
        elt = it.ty[1]
        tgt = st.target
        if is_name(tgt):
            names, types = [tgt.id], [elt]
            elem_param, unpack = f"({ident(tgt.id)} : {coq_type(elt)})", ""
        elif isinstance(tgt, ast.Tuple) and all(is_name(x) for x in tgt.elts) and isinstance(elt, tuple) \
                and elt[0] == "tuple" and len(elt[1]) == len(tgt.elts):
            names, types = [x.id for x in tgt.elts], list(elt[1])
            elem_param = f"(k_ : {coq_type(elt)})"
            unpack = "let '(" + ", ".join(ident(n) for n in names) + ") := k_ in\n"
        else:
            rej(st, "loop target is not a name or a tuple of names matching the element type")
        if len(set(names)) != len(names):
            rej(st, "repeated loop variable")
        body_assigned = assigned_names2(st.body)
        for n in names:
            if n in env or n == "self" or n == "_" or n.endswith(HOIST_MARK):
                rej(st, f"loop variable {n} is already bound in the enclosing scope (or is `_`)")
            if n in body_assigned:
                rej(st, f"loop variable {n} is assigned in the loop body")
        # the iterable must not be changed by the body
        read_attrs = {x.attr for x in ast.walk(st.iter) if is_self_attr(x)}
        for sub in ast.walk(ast.Module(body=st.body, type_ignores=[])):
            if isinstance(sub, (ast.Assign, ast.AugAssign)):
                for t in (sub.targets if isinstance(sub, ast.Assign) else [sub.target]):
                    for x in ast.walk(t):
                        if is_self_attr(x) and x.attr in read_attrs:
                            rej(sub, f"the loop body assigns self.{x.attr}, which the loop iterates over")
            if isinstance(sub, ast.Call) and isinstance(sub.func, ast.Attribute) and is_self_attr(sub.func.value) \
                    and sub.func.value.attr in read_attrs and sub.func.attr not in ("keys", "values", "index"):
                rej(sub, f"the loop body calls a method of self.{sub.func.value.attr}, which the loop iterates over")
            if isinstance(sub, ast.Call) and is_self_attr(sub.func) and sub.func.attr in self.fns \
                    and not self.fns[sub.func.attr].pure and read_attrs:
                rej(sub, "the loop body calls a method that changes the object while iterating over one of its attributes")
        svars = self.join_vars(st.body, env)
        self.body_counter += 1
        bname = f"gen_{self.cur.name}_body{self.body_counter}"
        inner_env = dict(env)
        for n, t in zip(names, types):
            inner_env[n] = t
        free = [n for n in env if n in loaded_names(st.body) and n not in svars and env[n] != OPAQUE]
        saved = self.loop_targets
        self.loop_targets = saved | set(names)
        body = self.block(st.body, inner_env, {"kind": "loop", "svars": svars})
        self.loop_targets = saved
        sty = self.state_type(svars, env)
        params = "".join(f" ({ident(n)} : {coq_type(env[n])})" for n in free)
        selfparam = "" if "self" in svars else f" (self : {self.spec.state_type})"
        pat = self.state_pat(svars)
        unpack_state = "" if pat == "st" else (f"let {pat} := st in\n" if len(svars) == 1 else f"let '{pat} := st in\n")
        self.out.append(f"(* body of the `for` loop at line {st.lineno} of {self.cur.name} *)\n"
                        f"Definition {bname}{selfparam}{params} {elem_param} (st : {sty}) : xctl * {sty} :=\n"
                        + indent(unpack + unpack_state + body) + ".\n")
        call = " ".join([bname] + (["self"] if selfparam else []) + [ident(n) for n in free])
        after = self.block(rest, env, ctx)
        return (f"match py_forx ({call}) {it.term} {pat} with\n| ({pat}, None) =>\n{indent(after)}\n"
                f"| ({pat}, Some e_) => {self.raise_term('e_', ctx, st)}\nend")

    def try_stmt(self, st, rest, env, ctx):
        if st.orelse or st.finalbody or len(st.handlers) != 1:
            rej(st, "only try/except with exactly one handler is accepted")
        h = st.handlers[0]
        if not is_name(h.type) or h.type.id not in E.ERRCLS or h.name is not None:
            rej(st, "the handler must name one of the modelled exception classes, without `as`")
        body = [s for s in st.body if not E.ignorable_checked(s)]
        if len(body) == 1 and isinstance(body[0], ast.Return):
            return super().try_stmt(st, rest, env, ctx)
        if ctx["kind"] == "join":
            rej(st, "try inside a branch that is joined is not accepted")
        first = body[0] if body else None
        if not (isinstance(first, ast.Assign) and len(first.targets) == 1 and is_name(first.targets[0])):
            rej(st, "the try block must start with `x = <expression that may raise>`")
        v = self.expr(first.value, env)
        if not v.raising:
            rej(st, "the first statement of the try block cannot raise in the model")
        name = first.targets[0].id
        env2 = self.bind_local(name, v.ty, st, env)
        tail = body[1:]
        # the remaining statements of the try block must be straight-line code that cannot raise: they are
        # translated once in a context that rejects exits and raising statements (result discarded)
        if tail:
            for s in tail:
                if isinstance(s, (ast.For, ast.Try, ast.If)):
                    rej(s, "only simple statements are accepted after the first statement of a try block")
            saved_out, saved_cnt = list(self.out), self.body_counter
            jvars = self.join_vars(tail, env2)
            self.block(tail, env2, {"kind": "join", "svars": jvars, "in_loop": True})
            self.out, self.body_counter = saved_out, saved_cnt
        ok = self.block(tail + rest, env2, ctx)
        handler = self.block(list(h.body) + ([] if always_exits(h.body) else rest), env, ctx)
        return (f"py_try {v.term}\n  (fun {ident(name)} =>\n{indent(ok, 4)})\n  {h.type.id}\n"
                f"  ({indent(handler, 3).lstrip()})\n  (fun e_ => {self.raise_term('e_', ctx, st)})")


# ------------------------------------------------------------------------------------------- driver
def source_path():
    from vq import core
    return os.path.join(core.REPO, REL)


def base_infos(cls):
    """Translate the arcenum methods once more (same class table) to learn their result types."""
    base = E.Translator(TA.SPEC, cls)
    order = base.collect()
    for n in order:
        base.function(n)
    return OrderedDict((n, base.fns[n]) for n in order)


def translate_cons(src):
    cls = ast.fix_missing_locations(_Normalise().visit(E.find_class(src, SPEC.class_name)))
    tree = ast.parse(src)       # `sparse` must be the scipy module imported at the top of the file
    ok_import = False
    for n in tree.body:
        if isinstance(n, ast.ImportFrom) and n.module == "scipy" and any(a.name == "sparse" and a.asname is None for a in n.names):
            ok_import = True
        if isinstance(n, (ast.Assign, ast.FunctionDef, ast.ClassDef)):
            for sub in ast.walk(n) if isinstance(n, ast.Assign) else []:
                if isinstance(sub, ast.Name) and sub.id in ("sparse", "enumerate") and isinstance(sub.ctx, ast.Store):
                    raise Rejected(f"line {n.lineno}: {sub.id} is rebound at module level")
            if isinstance(n, (ast.FunctionDef, ast.ClassDef)) and n.name in ("sparse", "enumerate"):
                raise Rejected(f"line {n.lineno}: {n.name} is redefined at module level")
    if not ok_import:
        raise Rejected("`from scipy import sparse` not found at module level")
    hints = {}
    for _ in range(12):
        tr = ConsTranslator(SPEC, cls, base_infos(cls), hints)
        try:
            order = tr.collect()
            for name in order:
                tr.function(name)
        except Rejected:
            if tr.hints_changed:
                continue            # an element type was learned in this pass: translate again with it
            raise
        if tr.hints_changed:
            continue
        if tr.unk_used:
            raise Rejected("a local list initialised with [] is never appended to: element type unknown")
        return HEADER + "\n" + "\n".join(tr.out)
    raise Rejected("element types of the local lists do not settle")


def translate_source(src):
    return OrderedDict([("ArcGen.v", TA.translate_source(src)), ("ArcConsGen.v", translate_cons(src))])


def translate():
    with open(source_path()) as fh:
        src = fh.read()
    return translate_source(src)


if __name__ == "__main__":
    import sys
    out = translate_source(open(sys.argv[1]).read())
    if len(sys.argv) > 2:
        for k, v in out.items():
            with open(os.path.join(sys.argv[2], k), "w") as fh:
                fh.write(v if v.endswith("\n") else v + "\n")
    else:
        print(out["ArcConsGen.v"])
