"""translate_samplehelper.py -- fail-closed translator  Python ast -> Gallina  for the module-level helper
`sample(vari, size)` of src/vrpqubo/examples/mirp_random.py (property C19, the generic sampling helper).

Entry:  translate() -> {"SampleHelperGen.v": text}     (obligations in coq/genprops/C19_helper_gen.v)

A PRINTER over the combinators of coq/theories/PySampleHelper.v.  The function must have two parameters: the
first is the value (Sampler.pyval), the second the requested size (nat, default an integer literal).
Accepted body: a sequence of

    if COND: return RET          sh_if COND RET (rest)
    return RET                   RET
    raise ValueError(...)        sh_raise ValueError          (the six exception classes of Base.errcls)

    COND ::= isinstance(<value>, <from-imported class>) | np.isscalar(<value>) | NUM == NUM | NUM != NUM
           | not COND | COND and COND | COND or COND
    NUM  ::= <size> | <integer literal> | len(<value>)
    RET  ::= <value>             sh_return v
           | <value>.rvs(NUM)    sh_return_rvs v NUM

Names are resolved, not matched as text: `isinstance` / `len` must be the builtins, `np` the numpy import, the
class a from-import (printed with its canonical dotted name; PySampleHelper.sh_isinstance interprets only
..tools.sampling.Sampleable_Type).  Ignored: docstring, comments, annotations, `pass`, logger calls.
Everything else raises Rejected with the line number.
"""
import ast
import os
from collections import OrderedDict

try:
    from vq import core
    _REPO = core.REPO
except Exception:  # noqa  (stand-alone use)
    _REPO = os.environ.get("VQ_REPO", "/repo")

REL = "src/vrpqubo/examples/mirp_random.py"
FUNC = "sample"
EXCEPTIONS = {"ValueError", "IndexError", "KeyError", "AssertionError", "AttributeError", "TypeError"}


class Rejected(Exception):
    pass


def where(node):
    return f"line {getattr(node, 'lineno', '?')}"


def is_name(node, name=None):
    return isinstance(node, ast.Name) and (name is None or node.id == name)


def coq_string(s):
    if not all(32 <= ord(c) <= 126 and c != '"' for c in s):
        raise Rejected(f"string {s!r} has characters that are not printed")
    return f'"{s}"%string'


class Module:
    def __init__(self, tree):
        self.numpy, self.objects, self.other = set(), {}, set()
        for n in ast.walk(tree):
            if isinstance(n, (ast.Global, ast.Nonlocal)):
                raise Rejected(f"{REL} {where(n)}: global / nonlocal statement")
        for n in tree.body:
            if isinstance(n, ast.Import):
                for a in n.names:
                    if a.name == "numpy":
                        self.numpy.add(a.asname or "numpy")
                    else:
                        self.other.add((a.asname or a.name).split(".")[0])
            elif isinstance(n, ast.ImportFrom):
                for a in n.names:
                    if a.name == "*":
                        raise Rejected(f"{REL} {where(n)}: star import")
                    nm = a.asname or a.name
                    if nm in self.objects:
                        self.other.add(nm)
                    self.objects[nm] = "." * n.level + (n.module or "") + "." + a.name
            elif isinstance(n, (ast.FunctionDef, ast.AsyncFunctionDef, ast.ClassDef)):
                self.other.add(n.name)
            elif isinstance(n, (ast.Assign, ast.AnnAssign, ast.AugAssign)):
                for t in (n.targets if isinstance(n, ast.Assign) else [n.target]):
                    for m in ast.walk(t):
                        if isinstance(m, ast.Name):
                            self.other.add(m.id)
            elif isinstance(n, (ast.Expr, ast.If, ast.Pass)):
                continue
            else:
                raise Rejected(f"{REL} {where(n)}: module-level statement {type(n).__name__}")
        clash = (self.numpy | set(self.objects)) & self.other
        self.numpy -= clash
        for c in clash:
            self.objects.pop(c, None)
        self.rebound = self.other | self.numpy | set(self.objects)


class Printer:
    def __init__(self, fn, module):
        self.fn, self.m = fn, module
        a = fn.args
        if fn.decorator_list or a.vararg or a.kwarg or a.kwonlyargs or a.posonlyargs or len(a.args) != 2:
            raise Rejected(f"{FUNC} {where(fn)}: expected exactly two plain parameters")
        self.val, self.size = a.args[0].arg, a.args[1].arg
        if self.val == self.size or not all(x.isidentifier() and x.isascii() for x in (self.val, self.size)):
            raise Rejected(f"{FUNC}: parameter names")
        if len(a.defaults) > 1:
            raise Rejected(f"{FUNC}: a default for the value parameter")
        self.default = a.defaults[0] if a.defaults else None
        for n in ast.walk(fn):
            if isinstance(n, ast.Name) and isinstance(n.ctx, (ast.Store, ast.Del)):
                raise Rejected(f"{where(n)}: assignment inside {FUNC}")
            if isinstance(n, (ast.Lambda, ast.FunctionDef, ast.ClassDef, ast.NamedExpr)) and n is not fn:
                raise Rejected(f"{where(n)}: nested definition")

    def builtin(self, node, name):
        return is_name(node, name) and name not in self.m.rebound and name not in (self.val, self.size)

    def value(self, e):
        if is_name(e, self.val):
            return "v_" + self.val
        raise Rejected(f"{where(e)}: expected the value parameter {self.val!r}")

    def num(self, e):
        if is_name(e, self.size):
            return f"(sh_nat v_{self.size})"
        if isinstance(e, ast.Constant) and type(e.value) is int and 0 <= e.value < 1000:
            return f"(sh_nat {e.value}%nat)"
        if isinstance(e, ast.Call) and self.builtin(e.func, "len") and len(e.args) == 1 and not e.keywords:
            return f"(sh_len {self.value(e.args[0])})"
        raise Rejected(f"{where(e)}: number expression is not the size parameter, a small literal or len(<value>)")

    def cond(self, e):
        if isinstance(e, ast.UnaryOp) and isinstance(e.op, ast.Not):
            return f"(sh_not {self.cond(e.operand)})"
        if isinstance(e, ast.BoolOp):
            comb = "sh_and" if isinstance(e.op, ast.And) else "sh_or"
            vals = [self.cond(v) for v in e.values]
            out = vals[-1]
            for v in reversed(vals[:-1]):
                out = f"({comb} {v} {out})"
            return out
        if isinstance(e, ast.Compare):
            if len(e.ops) != 1:
                raise Rejected(f"{where(e)}: chained comparison")
            a, b = self.num(e.left), self.num(e.comparators[0])
            if isinstance(e.ops[0], ast.Eq):
                return f"(sh_eq {a} {b})"
            if isinstance(e.ops[0], ast.NotEq):
                return f"(sh_ne {a} {b})"
            raise Rejected(f"{where(e)}: comparison {type(e.ops[0]).__name__}")
        if isinstance(e, ast.Call) and not e.keywords and not any(isinstance(a, ast.Starred) for a in e.args):
            f = e.func
            if self.builtin(f, "isinstance") and len(e.args) == 2:
                c = e.args[1]
                if is_name(c) and c.id in self.m.objects and c.id not in (self.val, self.size):
                    return f"(sh_isinstance {self.value(e.args[0])} {coq_string(self.m.objects[c.id])})"
                raise Rejected(f"{where(e)}: the class of isinstance is not a from-imported name")
            if (isinstance(f, ast.Attribute) and is_name(f.value) and f.value.id in self.m.numpy
                    and f.value.id not in (self.val, self.size) and f.attr == "isscalar" and len(e.args) == 1):
                return f"(sh_isscalar {self.value(e.args[0])})"
        raise Rejected(f"{where(e)}: condition is not supported")

    def ret(self, e):
        if e is None:
            raise Rejected(f"{FUNC}: return without a value")
        if is_name(e):
            return f"(sh_return {self.value(e)})"
        if (isinstance(e, ast.Call) and isinstance(e.func, ast.Attribute) and e.func.attr == "rvs" and len(e.args) == 1
                and not e.keywords and not isinstance(e.args[0], ast.Starred)):
            return f"(sh_return_rvs k1 kadd kmul kdiv kopp d {self.value(e.func.value)} {self.num(e.args[0])})"
        raise Rejected(f"{where(e)}: returned expression is not the value or <value>.rvs(<number>)")

    def block(self, stmts, ind):
        pad = "  " * ind
        stmts = [s for s in stmts if not (isinstance(s, ast.Pass)
                 or (isinstance(s, ast.Expr) and isinstance(s.value, ast.Constant) and isinstance(s.value.value, str))
                 or (isinstance(s, ast.Expr) and isinstance(s.value, ast.Call) and isinstance(s.value.func, ast.Attribute)
                     and is_name(s.value.func.value, "logger")))]
        if not stmts:
            raise Rejected(f"{FUNC}: a path falls off the end of the function (returns None)")
        st, rest = stmts[0], stmts[1:]
        if isinstance(st, ast.Return):
            if rest:
                raise Rejected(f"{where(rest[0])}: statement after return")
            return pad + self.ret(st.value)
        if isinstance(st, ast.Raise):
            exc = st.exc.func if isinstance(st.exc, ast.Call) else st.exc
            if rest or st.cause is not None or not is_name(exc) or exc.id not in EXCEPTIONS or exc.id in self.m.rebound:
                raise Rejected(f"{where(st)}: raise of something else than a builtin exception class of {sorted(EXCEPTIONS)}")
            return pad + f"(sh_raise {exc.id})"
        if isinstance(st, ast.If):
            c = self.cond(st.test)
            a = self.block(st.body, ind + 1)
            b = self.block(list(st.orelse) + rest, ind + 1) if st.orelse else self.block(rest, ind + 1)
            if st.orelse and rest:
                # the else branch falls through to `rest` only if it does not end in return / raise: both branches are
                # required to end the function, so anything after an if/else is dead code
                raise Rejected(f"{where(rest[0])}: statement after an if / else whose branches both end the function")
            return f"{pad}(sh_if {c}\n{a}\n{b})"
        raise Rejected(f"{where(st)}: statement {type(st).__name__} is not supported")

    def text(self):
        binders = ("(K : Type) (k1 : K) (kadd kmul kdiv : K -> K -> K) (kopp : K -> K) (d : nat -> nat -> nat -> list K)")
        out = [f"(* {FUNC} in {REL}, line {self.fn.lineno}; arguments after the carrier: {self.val} {self.size} *)",
               f"Definition gen_sample {binders} (v_{self.val} : pyval K) (v_{self.size} : nat) : M (result (pyval K)) :=",
               self.block(list(self.fn.body), 1) + "."]
        if self.default is not None:
            dv = self.default
            if not (isinstance(dv, ast.Constant) and type(dv.value) is int and 0 <= dv.value < 1000):
                raise Rejected(f"{FUNC}: the default of {self.size} is not a small integer literal")
            out.append(f"Definition gen_sample_default_size : nat := {dv.value}%nat.")
        return "\n".join(out) + "\n"


HEADER = """(* GENERATED by harness/translate_samplehelper.py from the Python source under test
   (src/vrpqubo/examples/mirp_random.py, function sample).  Do not edit. *)
From Coq Require Import List Arith Bool String.
From VQ Require Import Base Sampler PySampleHelper.
Import ListNotations.
Arguments sh_isinstance {K}. Arguments sh_isscalar {K}. Arguments sh_len {K}. Arguments sh_if {K}.
Arguments sh_return {K}. Arguments sh_raise {K}. Arguments sh_return_rvs {K}.

"""


def build(repo=None):
    path = os.path.join(repo or _REPO, REL)
    try:
        with open(path, encoding="utf-8") as fh:
            tree = ast.parse(fh.read())
    except (OSError, SyntaxError, ValueError) as ex:
        raise Rejected(f"{REL}: cannot read / parse: {ex}")
    fns = [n for n in tree.body if isinstance(n, (ast.FunctionDef, ast.AsyncFunctionDef)) and n.name == FUNC]
    if len(fns) != 1 or isinstance(fns[0], ast.AsyncFunctionDef):
        raise Rejected(f"{REL}: function {FUNC} not found exactly once at module level")
    for n in tree.body:
        if isinstance(n, (ast.Assign, ast.AnnAssign, ast.AugAssign)):
            for t in (n.targets if isinstance(n, ast.Assign) else [n.target]):
                if any(isinstance(m, ast.Name) and m.id == FUNC for m in ast.walk(t)):
                    raise Rejected(f"{REL} {where(n)}: {FUNC} is rebound at module level")
    return HEADER + Printer(fns[0], Module(tree)).text()


def translate(repo=None):
    return OrderedDict([("SampleHelperGen.v", build(repo))])


if __name__ == "__main__":
    import sys
    print(build(sys.argv[1] if len(sys.argv) > 1 else None))
