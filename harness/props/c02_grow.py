"""C02, extra stream: a path-based problem that GROWS between two queries.

The path-based class has no build flags: every query recomputes its data from the current node list and route
pool, so "query, add a customer (with or without a route through it), query again" is a legitimate way to reach an
instance, and the property's dimension clause (A is len(b) x n, the QUBO is produced whenever n >= 1) and the identity
must hold for the grown instance as well.  (Seeded change C02_f keeps the node-visit matrix of the first query.)"""
from props import formulation_harness as fh


def grow_variants(rp, desc):
    """Yield (label, mutator) pairs; each mutator changes the problem data of a freshly built, already queried object."""
    depot = desc["nodes"][0][0]

    def add_isolated(o):
        o.add_node("vqZ", 0, (0, float("inf")))

    def add_served(o):
        o.add_node("vqZ", 0, (0, float("inf")))
        o.add_arc(depot, "vqZ", 1, 1)
        o.add_arc("vqZ", depot, 1, 1)
        o.add_route([depot, "vqZ", depot])

    def add_two(o):
        o.add_node("vqZ", 0, (0, float("inf")))
        o.add_node("vqY", 0, (0, 5))

    return [("node-without-route", add_isolated), ("node-with-route", add_served), ("two-nodes", add_two)]


def first_touch(rp, first):
    """One query on an object whose problem data were just changed; returns problems [(sig, msg, extra)]."""
    def shp(M):
        return tuple(int(v) for v in M.shape)
    try:
        if first == "qubo":
            Q, _k = rp.get_qubo(feasibility=False, penalty_parameter=None)
            n = int(rp.get_num_variables())
            ok, what = shp(Q) == (n, n), f"Q{shp(Q)}"
        elif first == "obj":
            c, Qo = rp.get_objective_data()
            n = int(rp.get_num_variables())
            ok, what = (len(c) == n and shp(Qo) == (n, n)), f"len(c)={len(c)}, Qo{shp(Qo)}"
        elif first == "con":
            A, b, R, _r = rp.get_constraint_data()
            n = int(rp.get_num_variables())
            ok, what = (shp(A) == (len(b), n) and shp(R) == (n, n)), f"A{shp(A)}, len(b)={len(b)}, R{shp(R)}"
        else:
            return []
    except Exception as e:  # noqa
        return [("oracle/dims/first-query-raises", f"the first query after the change ({first}) raised {type(e).__name__}: {e}",
                 {"first_query": first})]
    if not ok:
        return [("oracle/dims/first-query-shapes", f"the first query after the change ({first}) returned {what} on a model that then "
                 f"reports n={n} variables", {"first_query": first})]
    return []


def exit_arc_stream(ctx, check_instance, count, reported):
    """Arc-based problems: queried, then the public `check_and_add_exit_arc` gives a customer without an arc back to the
    depot one (what the feasibility heuristic does for a stranded customer), then queried again.  The variable count
    changes; the objective, constraint and QUBO data reported afterwards must have the new, mutually consistent
    dimensions and satisfy the identity.  (Seeded change C02_n resets only the enumeration flag there.)"""
    import random
    rng = random.Random(f"c02-exit-arc-{getattr(ctx, 'seed', 0)}")      # own generator: the draws of the other streams do not move
    done = 0
    for case in fh.gen_objects(rng, 4 * count, 10, kinds=("arc",)):
        if done >= count:
            break
        desc = case["desc"]
        rp = fh.BUILDERS["arc"](desc)
        try:
            stranded = [k for k in range(1, len(rp.nodes)) if not rp.check_arc((k, 0))]
            if not stranded or int(rp.get_num_variables()) < 1:
                continue
            check_instance(rp, rng)
            k = stranded[rng.randrange(len(stranded))]
            cost = rng.choice([0, 1, 3, 7])
            rp.check_and_add_exit_arc(k, cost)
        except Exception:  # noqa: an instance the first round of queries cannot handle is the business of the main stream
            continue
        # the first query after the change may be any of them: what it returns must fit the size reported right after
        first = rng.choice(["qubo", "obj", "con", "num"])
        early = first_touch(rp, first)
        d, S, outs, problems = check_instance(rp, rng)
        problems = early + list(problems)
        done += 1
        for sig, msg, extra in problems:
            full = f"{sig}/arc/exit-arc-after-query"
            if full in reported:
                continue
            reported.add(full)
            ctx.violation(full, f"arc, queried, then check_and_add_exit_arc({k}, {cost}), then queried again: {msg}",
                          dict(fh.describe(case), exit_arc=[k, cost], first_query=first, **{kk: vv for kk, vv in extra.items() if kk != "first_query"},
                               python="build the arc object from desc, props.c02.check_instance(rp, random.Random(0)), "
                                      "rp.check_and_add_exit_arc(k, cost), props.c02_grow.first_touch(rp, first_query), then check_instance again"), True)
    return done


def run_stream(ctx, check_instance, count):
    rng = ctx.rng
    done = 0
    reported = set()
    done += exit_arc_stream(ctx, check_instance, max(6, count), reported)
    for case in fh.gen_objects(rng, count, 10, kinds=("path",)):
        desc = case["desc"]
        for label, mut in grow_variants(case["rp"], desc):
            rp = fh.BUILDERS["path"](desc)
            try:
                if int(rp.get_num_variables()) < 1:
                    continue
                check_instance(rp, rng)           # first round of queries (sizes, data, QUBO in every configuration)
                mut(rp)
            except Exception:  # noqa: a graph the generator's mutator does not fit (name clash): skip
                continue
            d, S, outs, problems = check_instance(rp, rng)
            done += 1
            for sig, msg, extra in problems:
                full = f"{sig}/path/grown"
                if full in reported:
                    continue
                reported.add(full)
                ctx.violation(full, f"path, queried, then {label}, then queried again: {msg}",
                              dict(fh.describe(case), grown_by=label, **extra,
                                   python="build the path object from desc, query it, apply props.c02_grow.grow_variants(...)[label], "
                                          "then props.c02.check_instance(rp, random.Random(0))"), True)
    ctx.count(traces=done)
    ctx.cov.setdefault("input_distribution", {})
    return done
