"""C02, extra stream: a path-based problem that GROWS between two queries.

The path-based class has no build flags: every query recomputes its data from the current node list and route
pool, so "query, add a customer (with or without a route through it), query again" is a legitimate way to reach an
instance, and the property's dimension clause (A is len(b) x n, the QUBO is produced whenever n >= 1) and the identity
must hold for the grown instance as well.  (Seeded change C02_f keeps the node-visit matrix of the first query.)"""
from props import formulation_harness as fh


def grow_variants(rp, desc):
    """Yield (label, mutator) pairs; each mutator changes the problem data of a freshly built, already queried object."""
    depot = desc["nodes"][0][0]

    def add_isolated(o):
        o.add_node("vqZ", 0, (0, float("inf")))

    def add_served(o):
        o.add_node("vqZ", 0, (0, float("inf")))
        o.add_arc(depot, "vqZ", 1, 1)
        o.add_arc("vqZ", depot, 1, 1)
        o.add_route([depot, "vqZ", depot])

    def add_two(o):
        o.add_node("vqZ", 0, (0, float("inf")))
        o.add_node("vqY", 0, (0, 5))

    return [("node-without-route", add_isolated), ("node-with-route", add_served), ("two-nodes", add_two)]


def run_stream(ctx, check_instance, count):
    rng = ctx.rng
    done = 0
    reported = set()
    for case in fh.gen_objects(rng, count, 10, kinds=("path",)):
        desc = case["desc"]
        for label, mut in grow_variants(case["rp"], desc):
            rp = fh.BUILDERS["path"](desc)
            try:
                if int(rp.get_num_variables()) < 1:
                    continue
                check_instance(rp, rng)           # first round of queries (sizes, data, QUBO in every configuration)
                mut(rp)
            except Exception:  # noqa: a graph the generator's mutator does not fit (name clash): skip
                continue
            d, S, outs, problems = check_instance(rp, rng)
            done += 1
            for sig, msg, extra in problems:
                full = f"{sig}/path/grown"
                if full in reported:
                    continue
                reported.add(full)
                ctx.violation(full, f"path, queried, then {label}, then queried again: {msg}",
                              dict(fh.describe(case), grown_by=label, **extra,
                                   python="build the path object from desc, query it, apply props.c02_grow.grow_variants(...)[label], "
                                          "then props.c02.check_instance(rp, random.Random(0))"), True)
    ctx.count(traces=done)
    ctx.cov.setdefault("input_distribution", {})
    return done
