"""Registry of the generated-model packages (DESIGN.md section 13), for checks that re-use another property's package.
key -> (translator module, entry function, genprops file, trusted-base line)."""
import importlib

REG = {
    "getqubo": ("translate_getqubo", "translate", "C02_gen",
                "harness/translate_getqubo.py (ast -> Gallina printer for the matrix expression, default-penalty rule and mode test of "
                "RoutingProblem.get_qubo; meaning of the emitted combinators: coq/theories/PyMat.v)"),
    "suffpen": ("translate_getqubo", "translate_suffpen", "C04_gen",
                "harness/translate_getqubo.py (the three get_sufficient_penalty methods; coq/theories/PyMat.v)"),
    "arcenum": ("translate_arcenum", "translate", "C18_arc_gen",
                "harness/translate_arcenum.py + translate_enumcore.py (enumeration loops, admissibility tests and index lookups of "
                "ArcBasedRoutingProblem; coq/theories/PyEnumCore.v, PyArc.v)"),
    "seqenum": ("translate_seqenum", "translate", "C18_seq_gen",
                "harness/translate_seqenum.py + translate_enumcore.py (fixing rules, enumeration loops and index lookups of "
                "SequenceBasedRoutingProblem; coq/theories/PyEnumCore.v, PySeq.v)"),
    "arccons": ("translate_arccons", "translate", "C05_gen",
                "harness/translate_arccons.py + translate_enumcore.py (objective / constraint assembly loops of "
                "ArcBasedRoutingProblem; coq/theories/PyArcCons.v, sparse.coo_array at its dense meaning)"),
    "seqcons": ("translate_seqcons", "translate", "C07_gen",
                "harness/translate_seqcons.py + translate_enumcore.py (objective / linear / quadratic constraint assembly loops of "
                "SequenceBasedRoutingProblem; coq/theories/PySeqCons.v, sparse.coo_array at its dense meaning)"),
    "heursa": ("translate_heursa", "translate", "C09_gen",
               "harness/translate_heursa.py + translate_enumcore.py (SequenceBasedRoutingProblem.make_feasible; coq/theories/PyHeur.v, PyHeurSeq.v)"),
    "heursa_arc": ("translate_heursa", "translate_arc", "C09_arc_gen",
                   "harness/translate_heursa.py (ArcBasedRoutingProblem.make_feasible, check_and_add_exit_arc; coq/theories/PyHeur.v, PyHeurArc.v)"),
    "heurpath": ("translate_heurpath", "translate", "C09_path_gen",
                 "harness/translate_heurpath.py + translate_path.py (generate_route, add_routes_better, make_feasible, get_sampled_key, get_routes of "
                 "PathBasedRoutingProblem; coq/theories/PyHeurPath.v; the random choice and the dummy names are oracles)"),
    "arcroutes": ("translate_arcroutes", "translate", "C05_routes_gen",
                  "harness/translate_arcroutes.py + translate_routes.py (ArcBasedRoutingProblem.get_routes; numpy meanings in coq/theories/PyRoutes.v)"),
    "seqroutes": ("translate_seqroutes", "translate", "C07_routes_gen",
                  "harness/translate_seqroutes.py + translate_routes.py (SequenceBasedRoutingProblem.get_routes; coq/theories/PyRoutes.v)"),
    "small": ("translate_small", "translate", "C08_small_gen",
              "harness/translate_small.py (examples/small.py read off as the list of add_node / add_arc / add_route calls with their literal "
              "arguments plus the literal defaults of the getters; what the calls do is Vrptw.v / Path.v)"),
}


def steps(ctx, keys):
    out = []
    for key in keys:
        mod, fn, genprops, trusted = REG[key]
        T = importlib.import_module(mod)
        out.append(ctx.gen_step(key, getattr(T, fn), genprops, trusted))
    return out
