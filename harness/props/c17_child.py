"""Child process of the C17 check: build problems in a fresh interpreter under a given
PYTHONHASHSEED and prior state of numpy's global generator; print component digests as JSON.
usage: c17_child.py <prior: fresh|seeded|advanced> <task> [<task> ...]
tasks: small | g1:<horizon> | rand:<ns>:<nd>:<horizon>:<seed> | sym:<k> | randfee:<ns>:<nd>:<horizon>:<seed>"""
import json
import logging
import os
import sys
import tempfile

logging.disable(logging.CRITICAL)
sys.path.insert(0, os.path.join(os.path.dirname(os.path.abspath(__file__)), ".."))
import numpy as np  # noqa: E402
from props import fp_common as fp  # noqa: E402


def exported_lines(Q, c, as_ising):
    from vrpqubo.tools.qubo_tools import QUBOContainer
    qc = QUBOContainer(Q, c)
    d = tempfile.mkdtemp(prefix="vq_c17_")
    try:
        path = os.path.join(d, "x.rudy" if as_ising else "x.qubo")
        qc.export(path, as_ising=as_ising)
        lines = open(path).read().split("\n")
        lines = [ln for ln in lines if not ln.startswith("# Generated")]
        ising = [fp.dense(qc.J), fp.dense(qc.h), fp._num(qc.const_ising)]
    finally:
        for f in os.listdir(d):
            os.remove(os.path.join(d, f))
        os.rmdir(d)
    return lines, ising


def components(rp):
    f = fp.fingerprint(rp, with_qubo=(rp.get_num_variables() <= 700))
    out = {
        "variables": fp.digest(f["vars"]),
        "constraints": fp.digest([f["A"], f["b"], f["R"], f["r"]]),
        "objective": fp.digest([f["c"], f["Qo"]]),
        "feasible_solution": fp.digest(f["feasible_solution"]),
        "graph": fp.digest(f["graph"]),
        "n": f["n"],
    }
    if "Q_False" in f:
        out["qubo"] = fp.digest([f["Q_False"], f["k_False"], f["Q_True"], f["k_True"]])
        Q, c = rp.get_qubo(feasibility=True)
        lines, ising = exported_lines(Q, c, True)
        out["export_f"] = fp.digest(lines)
        out["ising_f"] = fp.digest(ising)
        if f["n"] <= 250:
            Q, c = rp.get_qubo(feasibility=False)
            lines, ising = exported_lines(Q, c, True)
            out["export_o"] = fp.digest(lines)
            out["ising_o"] = fp.digest(ising)
    return out


def three(getters):
    out = {}
    for name, g in getters:
        try:
            out[name] = components(g())
        except Exception as e:  # noqa
            out[name] = {"raised": type(e).__name__}
    return out


def run_task(task):
    parts = task.split(":")
    if parts[0] == "small":
        from vrpqubo.examples import small
        def ab():
            r = small.get_arc_based(); r.make_feasible(small.get_high_cost()); return r
        def pb():
            r = small.get_path_based(); r.make_feasible(small.get_high_cost()); return r
        def sb():
            r = small.get_sequence_based(); r.make_feasible(small.get_high_cost()); return r
        return three([("arc", ab), ("path", pb), ("seq", sb)])
    if parts[0] == "g1":
        from vrpqubo.examples.mirp_g1 import get_mirp
        m = get_mirp(float(parts[1]))
        return three([("arc", m.get_arc_based), ("path", m.get_path_based),
                      ("seq", lambda: m.get_sequence_based(strict=False))])
    if parts[0] == "rand":
        import dataclasses
        from vrpqubo.examples.mirp_random import get_generator
        ns, nd, h, seed = int(parts[1]), int(parts[2]), float(parts[3]), int(parts[4])
        gen = dataclasses.replace(get_generator(ns, nd, h), seed=seed)   # seeds in __post_init__
        m = gen.get_random_mirp()
        out = {"instance": {"mirp": fp.digest(fp.mirp_snapshot(m))}}
        m2 = gen.get_random_mirp(reset_seed=True)
        out["instance"]["reset"] = fp.digest(fp.mirp_snapshot(m2))
        out.update(three([("arc", m.get_arc_based), ("path", m.get_path_based),
                          ("seq", lambda: m.get_sequence_based(strict=False))]))
        return out
    if parts[0] == "randfee":
        # the random generator with BOTH fee fields given as distributions (every optional random field in use): the order in
        # which the fields consume the stream must not depend on hash randomisation
        import dataclasses
        from scipy.stats import randint
        from vrpqubo.examples.mirp_random import get_generator
        ns, nd, h, seed = int(parts[1]), int(parts[2]), float(parts[3]), int(parts[4])
        gen = dataclasses.replace(get_generator(ns, nd, h), supply_port_fees=randint(1, 9), demand_port_fees=randint(1, 9), seed=seed)
        m = gen.get_random_mirp()
        out = {"instance": {"mirp": fp.digest(fp.mirp_snapshot(m))}}
        out["instance"]["reset"] = fp.digest(fp.mirp_snapshot(gen.get_random_mirp(reset_seed=True)))
        out.update(three([("arc", m.get_arc_based)]))
        return out
    if parts[0] == "reexit":
        # exit arcs added, MORE ports added, exit arcs added again: the order in which the new exit arcs enter the graph
        # (hence the arc-based variable order) must not depend on hash randomisation
        from vrpqubo.applications.mirp import MIRP
        m = MIRP(cargo_size=1, time_horizon=5)
        m.add_nodes("S1", 0.5, 0.5, 1.5)
        m.add_nodes("D1", 1.0, -0.5, 1.5)
        m.add_exit_arcs()
        for nm in ("Quay", "Berth", "Alpha"):
            m.add_nodes(nm, 0.5, 0.5, 1.5)
        m.add_nodes("D2", 1.25, -0.25, 1.5)
        m.add_exit_arcs()
        sup = {"S1": 0, "Quay": 0, "Berth": 0, "Alpha": 0}
        m.add_travel_arcs(lambda p, q: 1, vessel_speed=1, cost_per_unit_distance=2, supply_port_fees=sup, demand_port_fees={"D1": 1, "D2": 1})
        m.add_entry_arcs(time_limit=4)
        return three([("arc", m.get_arc_based)])
    if parts[0] == "sym":
        # MIRPs with indistinguishable ports: the greedy construction meets exact ties, so whatever random draw
        # breaks them must come from the re-seeded stream, not from the caller's generator state
        from vrpqubo.applications.mirp import MIRP
        k = int(parts[1])
        m = MIRP(cargo_size=1, time_horizon=6 + k)
        for i in range(2 + k):
            m.add_nodes(f"S{i}", 0.5, 0.25, 1.5)
        m.add_nodes("D1", 1.25, -0.25, 1.5)
        m.add_nodes("D2", 1.5, -0.25, 1.5)
        m.add_travel_arcs(lambda p, q: 1, vessel_speed=1, cost_per_unit_distance=16,
                          supply_port_fees={f"S{i}": 0 for i in range(2 + k)}, demand_port_fees={"D1": 0, "D2": 0})
        m.add_exit_arcs()
        m.add_entry_arcs(time_limit=5)
        return three([("arc", m.get_arc_based), ("path", m.get_path_based),
                      ("seq", lambda: m.get_sequence_based(strict=False))])
    raise SystemExit("unknown task " + task)


def main():
    prior = sys.argv[1]
    res = {}
    for k, t in enumerate(sys.argv[2:]):
        # the prior state is re-established before EVERY task (an earlier task's own re-seeding would otherwise
        # make the later tasks start from the same state in every environment)
        if prior == "seeded":
            np.random.seed(123 + k)
        elif prior == "advanced":
            np.random.seed(7 + k)
            np.random.random(1000 + 13 * k)
        res[t] = run_task(t)
    print("C17CHILD " + json.dumps(res, sort_keys=True))


if __name__ == "__main__":
    main()
