"""Stand-alone driver of the arc half of C18 (testing aid: `bin/check C18A`; the evidence file is then
named after this id).  The real entry point is c18.py, which proves both halves and calls both parts."""
from props import c18_arc


def run(ctx):
    ctx.prove(props=["C18_arc"])
    from props import c18
    c18.gen_steps(ctx, ("arcenum",))
    c18_arc.run_part(ctx)
    if ctx.tier == "thorough":
        ctx.coqchk("VQP.C18_arc")


def replay(ctx, data):
    c18_arc.replay_part(ctx, data)
