"""C20 -- QUBO report statistics equal brute-force values.

Proof: coq/props/C20.v (fold invariant of the scan over any list of values; the loop's assignments
are a duplicate-free enumeration of all bit vectors; structural metrics).
Generated model: harness/translate_report.py prints the body of QUBOContainer.report of the tree under test as
coq/gen/ReportGen.v on every run; coq/genprops/C20_gen.v proves it equal to Report.scan_step / scan / report
and restates the headline theorem for the generated function (obligations of this property).
Tie: QUBOContainer(M, c, pattern).report(obj_stats, tol) of the real code vs Report.report inside Coq.
Oracle: itertools.product enumeration with Fractions on the implementation's output.

Values are multiples of 1/16 (entries k/8, constants k/16), so all float arithmetic in report() is
exact and `abs(a-b) <= 1e-16` is equality; the model receives the numbers multiplied by 16."""
import itertools
from fractions import Fraction as F

from vq import lit

HEADER = "From VQ Require Import Base LinAlg Report."
SCALE = 16
PATTERNS = ["upper-triangular", "symmetric", "general"]
PAT_LIT = {"upper-triangular": "Upper", "symmetric": "Symmetric", "general": "General"}
KINDS = ["ndarray", "csr", "coo_dup", "int_ndarray", "int_csr"]      # int_*: integer dtype when every entry is an integer


# ---------------- running the implementation ----------------
def build_input(M, kind):
    import numpy as np
    import scipy.sparse as sp
    n = len(M)
    dense = np.array([[float(v) for v in row] for row in M], dtype=float).reshape(n, n)
    if kind in ("int_ndarray", "int_csr"):
        if all(v.denominator == 1 for row in M for v in row):
            dense = np.array([[int(v) for v in row] for row in M], dtype=np.int64).reshape(n, n)   # the constant may still be fractional
        kind = kind[4:]
    if kind == "ndarray":
        return dense
    if kind == "csr":
        return sp.csr_array(dense)
    # COO with every non-zero entry split into two stored duplicates (v = (v - 1/8) + 1/8) and one explicit zero
    rows, cols, data = [], [], []
    for i in range(n):
        for j in range(n):
            v = M[i][j]
            if v != 0:
                rows += [i, i]
                cols += [j, j]
                data += [float(v - F(1, 8)), 0.125]
    rows.append(0)
    cols.append(n - 1)
    data.append(0.0)
    return sp.coo_array((data, (rows, cols)), shape=(n, n))


def const_arg(c):
    """The constant as a caller may write it: an even integer value arrives as a Python int (`QUBOContainer(M, 0)`),
    an odd multiple of 3 as a numpy integer, everything else as a float."""
    import numpy as np
    if c.denominator == 1 and c.numerator % 2 == 0:
        return int(c)
    if c.denominator == 1 and c.numerator % 3 == 0:
        return np.int64(int(c))
    return float(c)


def run_impl(case):
    from vrpqubo.tools.qubo_tools import QUBOContainer
    M, c, pat, kind, os_, tol = case
    qc = QUBOContainer(build_input(M, kind), const_arg(c), pat)
    if tol is None:
        return qc.report(obj_stats=os_)
    return qc.report(obj_stats=os_, tol=float(tol))


def density_pair(n, d):
    """The integer pair the reported float is the (correctly rounded) quotient of, or (-1, den)."""
    den = (n + 1) * n
    a = int(round(float(d) * den))
    if a / den == float(d):
        return (a, den)
    return (-1, den)


def observe(case, rep):
    """Canonical, exact observables of the returned dict."""
    M = case[0]
    n = len(M)
    keys = sorted(rep.keys())
    out = {"keys": keys, "size": int(rep["size"]), "nnz": int(rep["num_observables"]),
           "dens": density_pair(int(rep["size"]) if int(rep["size"]) > 0 else n, rep["density"]),
           "dist": int(rep["distinct_eigenvalues"]), "stats": None}
    if "optimal_value" in rep:
        gap = F(float(rep["optimality_gap"])) if "optimality_gap" in rep else None
        out["stats"] = (F(float(rep["expected_value"])) * 2 ** n, F(float(rep["optimal_value"])),
                        int(rep["num_solutions"]), gap)
    return out


# ---------------- direct oracle ----------------
def values_of(M, c):
    n = len(M)
    vals = []
    for x in itertools.product((0, 1), repeat=n):
        vals.append(sum(M[i][j] * x[i] * x[j] for i in range(n) for j in range(n)) + c)
    return vals


def oracle(case, obs):
    """None if the report agrees with brute force, else a description. Not applicable to tol > 0."""
    M, c, pat, kind, os_, tol = case
    n = len(M)
    if obs["size"] != n:
        return f"size {obs['size']} != {n}"
    nnz = sum(1 for i in range(n) for j in range(i, n)
              if (M[i][i] if i == j else M[i][j] + M[j][i]) != 0)
    if obs["nnz"] != nnz:
        return f"num_observables {obs['nnz']} != {nnz} non-zero upper-triangular terms"
    if obs["dens"] != (2 * nnz, (n + 1) * n):
        return f"density is not 2*{nnz}/(({n}+1)*{n})"
    if obs["dist"] != len(set(M[i][i] for i in range(n))):
        return f"distinct_eigenvalues {obs['dist']} != number of distinct diagonal entries"
    if not os_:
        if obs["stats"] is not None:
            return "objective statistics present without obj_stats"
        return None
    if obs["stats"] is None:
        return "objective statistics missing"
    if tol is not None and tol != 0:
        return None
    vals = values_of(M, c)
    sm, opt, cnt, gap = obs["stats"]
    lo = min(vals)
    if opt != lo:
        return f"optimal_value {opt} != brute-force minimum {lo}"
    if cnt != vals.count(lo):
        return f"num_solutions {cnt} != {vals.count(lo)}"
    if sm != sum(vals):
        return f"expected_value*2^n {sm} != sum over all assignments {sum(vals)}"
    above = [v for v in vals if v > lo]
    want = (min(above) - lo) if above else None
    if gap != want:
        return f"optimality_gap {gap} != {want}"
    return None


def branch_tags(M, c):
    """Which branches the visiting order of this instance exercises (coverage accounting only)."""
    vals = values_of(M, c)          # itertools.product order = order of format(v, '0nb')
    opt, sec = vals[0], None
    tags = set()
    for v in vals[1:]:
        if v == opt:
            tags.add("tie_opt")
        elif v < opt:
            tags.add("new_opt_displaces" if sec is not None else "new_opt_first")
            sec, opt = opt, v
        elif sec is None:
            tags.add("first_second")
        elif v < sec:
            tags.add("second_lowered")
        elif v == sec:
            tags.add("tie_second")
        else:
            tags.add("above_second")
    if sec is None:
        tags.add("all_equal")
    return tags


# ---------------- generators ----------------
def diag(ds):
    n = len(ds)
    return [[F(ds[i]) if i == j else F(0) for j in range(n)] for i in range(n)]


def fixed_cases():
    """Instances whose visiting order forces each branch of the scan (x = digits of v, most significant first)."""
    out = []
    Z = F(0)
    out.append(([[F(1)]], Z))                         # n = 1: values 0, 1
    out.append(([[F(-1)]], Z))                        # n = 1: new optimum
    out.append(([[Z]], F(3, 16)))                     # n = 1, all equal (no gap key)
    out.append((diag([3, 5]), Z))                     # values 0, 5, 3, 8: runner-up lowered
    out.append((diag([-2, -1]), Z))                   # 0, -1, -2, -3: each new optimum displaces the old one
    out.append((diag([3, -1, 4]), Z))                 # 0,4,-1,3,3,7,2,6: value between optimum and runner-up later
    out.append(([[F(1), F(-1)], [F(-1), F(1)]], Z))   # 0, 1, 1, 0: ties for optimum and for runner-up
    out.append((diag([0, 0, 0]), F(-5, 8)))           # all equal
    out.append(([[Z, F(1)], [F(-1), Z]], F(1, 2)))    # off-diagonal entries cancel: nnz 0, all equal
    out.append(([[F(1, 2)]], Z))                      # fractional values next to a constant written as the int 0
    out.append((diag([F(1, 4), F(-3, 4)]), F(3)))     # ... and as a numpy integer
    out.append((diag([F(1, 8), F(-1, 8), F(1, 8), F(1, 4)]), F(1, 16)))
    out.append(([[F(2), F(-4), Z], [Z, F(2), F(-4)], [Z, Z, F(2)]], Z))
    # large magnitudes with closely spaced values: exact comparison (|a - b| <= 1e-16) must not become a relative one
    out.append((diag([F(1, 4), F(1, 2)]), F(65536)))                 # 65536, +1/2, +1/4, +3/4
    out.append((diag([F(-65536), F(1, 4), F(-1, 4)]), Z))            # optimum -65536.25 next to -65536
    out.append(([[F(1 << 30), F(1, 8)], [Z, F(-(1 << 30))]], F(1, 8)))
    # two different problems whose CSR forms share shape, row pointers and stored values but not the column indices,
    # reported one after the other in the same process (statistics must be those of the matrix at hand)
    out.append(([[F(-1), F(2), Z], [Z, F(-1), Z], [Z, Z, Z]], Z))     # -x0 - x1 + 2 x0 x1
    out.append(([[Z, F(-1), F(2)], [Z, Z, F(-1)], [Z, Z, Z]], Z))     # -x0 x1 + 2 x0 x2 - x1 x2
    return out


def gen_matrix(rng):
    n = rng.choice([1, 2, 2, 3, 3, 4, 4, 5, 6])
    style = rng.random()
    rngk = rng.choice([2, 4, 8, 24])
    p_zero = rng.choice([0.0, 0.3, 0.6])
    integer = rng.random() < 0.4

    def entry():
        if rng.random() < p_zero:
            return F(0)
        k = rng.randint(-rngk, rngk)
        return F(k) if integer else F(k, 8)

    M = [[entry() for _ in range(n)] for _ in range(n)]
    if style < 0.15:      # lower triangle cancels part of the upper one
        for i in range(n):
            for j in range(i):
                if rng.random() < 0.5:
                    M[i][j] = -M[j][i]
    elif style < 0.3:     # diagonal only
        M = [[M[i][j] if i == j else F(0) for j in range(n)] for i in range(n)]
    elif style < 0.4:     # zero last row and column
        for i in range(n):
            M[i][n - 1] = F(0)
            M[n - 1][i] = F(0)
    c = F(rng.randint(-16, 16), rng.choice([1, 1, 8, 16]))
    if rng.random() < 0.12:       # a large offset next to eighth-sized differences
        c += rng.choice([-1, 1]) * (1 << rng.choice([16, 20, 30]))
    return M, c


def gen_cases(rng, n_random):
    cases = []
    for M, c in fixed_cases():
        for pat in PATTERNS:
            cases.append((M, c, pat, "ndarray", True, None))
        cases.append((M, c, "upper-triangular", "csr", True, F(0)))
        cases.append((M, c, "general", "coo_dup", False, None))
        # integer-typed matrix with a fractional constant (values must not be coerced to the matrix dtype)
        cases.append((M, c + F(1, 2), "upper-triangular", "int_csr", True, None))
        cases.append((M, c + F(1, 4), "general", "int_ndarray", True, None))
    for _ in range(n_random):
        M, c = gen_matrix(rng)
        pat = rng.choice(PATTERNS)
        kind = rng.choice(KINDS)
        r = rng.random()
        if r < 0.2:
            os_, tol = False, None
        elif r < 0.65:
            os_, tol = True, None
        elif r < 0.8:
            os_, tol = True, F(0)
        else:
            os_, tol = True, F(rng.choice([1, 2, 4, 8, 16]), 8)
        cases.append((M, c, pat, kind, os_, tol))
    return cases


# ---------------- Coq literals ----------------
def sc(v):
    return lit.exact_int(F(v) * SCALE)


def stats_lit(st):
    if st is None:
        return "None"
    sm, opt, cnt, gap = st
    return "(Some " + lit.tup(lit.z(sc(sm)), lit.z(sc(opt)), lit.nat(cnt), lit.opt(gap, lambda g: lit.z(sc(g)))) + ")"


def model_args(case):
    M, c, pat, kind, os_, tol = case
    rows = lit.lst([lit.lst([lit.z(sc(v)) for v in row]) for row in M])
    return PAT_LIT[pat], lit.nat(len(M)), rows, lit.z(sc(c)), lit.boolean(os_), lit.z(sc(tol or 0))


def case_lit(case, obs):
    o = lit.tup(lit.nat(obs["size"]), lit.z(obs["nnz"]), lit.pair(lit.z(obs["dens"][0]), lit.z(obs["dens"][1])),
                lit.nat(obs["dist"]), stats_lit(obs["stats"]))
    return lit.tup(*model_args(case), o)


def case_json(case):
    M, c, pat, kind, os_, tol = case
    return {"matrix": [[str(v) for v in row] for row in M], "constant": str(c), "pattern": pat,
            "input_kind": kind, "obj_stats": os_, "tol": None if tol is None else str(tol)}


def case_from_json(d):
    return ([[F(v) for v in row] for row in d["matrix"]], F(d["constant"]), d["pattern"], d["input_kind"],
            d["obj_stats"], None if d["tol"] is None else F(d["tol"]))


def check_impl(case):
    """(observables, oracle message or None); an exception of report() is an oracle failure."""
    try:
        rep = run_impl(case)
        obs = observe(case, rep)
    except Exception as e:  # noqa
        return None, f"report raised {type(e).__name__}: {e}"
    return obs, oracle(case, obs)


def shrink(case):
    """Zero entries / drop the last variable / simplify the constant while the oracle still fails."""
    def fails(cs):
        return check_impl(cs)[1] is not None
    M, c, pat, kind, os_, tol = case
    changed = True
    while changed:
        changed = False
        n = len(M)
        if n > 1:
            for drop in range(n):
                sub = [[M[i][j] for j in range(n) if j != drop] for i in range(n) if i != drop]
                if fails((sub, c, pat, kind, os_, tol)):
                    M, changed = sub, True
                    break
            if changed:
                continue
        for i in range(n):
            for j in range(n):
                if M[i][j] != 0:
                    M2 = [row[:] for row in M]
                    M2[i][j] = F(0)
                    if fails((M2, c, pat, kind, os_, tol)):
                        M, changed = M2, True
        if c != 0 and fails((M, F(0), pat, kind, os_, tol)):
            c, changed = F(0), True
        if kind != "ndarray" and fails((M, c, pat, "ndarray", os_, tol)):
            kind, changed = "ndarray", True
    return (M, c, pat, kind, os_, tol)


def run(ctx):
    ctx.prove()
    import translate_report as T
    ctx.gen_step("report", T.translate, "C20_gen",
                 "harness/translate_report.py (ast -> Gallina printer for QUBOContainer.report: let-chains, if/elif chains, "
                 "`for v in range(a, b)` with a generated body, result-dictionary assignments; combinators in coq/theories/PyReport.v)")
    from props import pysem; pysem.run(ctx, pysem.GROUPS_FOR.get(ctx.pid, ()))
    rng = ctx.rng
    n_random = 500 if ctx.quick else 9000
    cases = gen_cases(rng, n_random)
    terms, kept = [], []
    dist = {"n": {}, "pattern": {}, "input_kind": {}, "obj_stats": 0, "tol_default": 0, "tol_zero": 0, "tol_positive": 0,
            "branches": {}, "nnz_cancellation": 0}
    seen = set()
    reported = 0
    for case in cases:
        M, c, pat, kind, os_, tol = case
        n = len(M)
        obs, msg = check_impl(case)
        if msg is not None:
            if reported < 3:
                small = shrink(case)
                obs2, msg2 = check_impl(small)
                ctx.violation("oracle/" + (msg2 or msg).split(" ")[0], msg2 or msg,
                              {"input": case_json(small), "report": None if obs2 is None else repr(obs2),
                               "python": "props.c20.check_impl(props.c20.case_from_json(input))"}, True)
                reported += 1
            if obs is None:
                continue
        kept.append((case, obs))
        terms.append(case_lit(case, obs))
        dist["n"][n] = dist["n"].get(n, 0) + 1
        dist["pattern"][pat] = dist["pattern"].get(pat, 0) + 1
        dist["input_kind"][kind] = dist["input_kind"].get(kind, 0) + 1
        if any(M[i][j] + M[j][i] == 0 and M[i][j] != 0 for i in range(n) for j in range(i)):
            dist["nnz_cancellation"] += 1
        tags = set()
        if os_:
            dist["obj_stats"] += 1
            dist["tol_default" if tol is None else ("tol_zero" if tol == 0 else "tol_positive")] += 1
            tags = branch_tags(M, c)
            for t in tags:
                dist["branches"][t] = dist["branches"].get(t, 0) + 1
        key = repr(case)
        if key not in seen:
            seen.add(key)
            if os_ and len(tags - {"first_second", "above_second"}) > 0:
                ctx.count(nontrivial=1)
    ctx.count(evaluations=len(kept), traces=len(kept))
    need = {"tie_opt", "new_opt_displaces", "new_opt_first", "first_second", "second_lowered", "tie_second",
            "above_second", "all_equal"}
    missing = need - set(dist["branches"])
    if missing or set(dist["n"]) != {1, 2, 3, 4, 5, 6}:
        ctx.tooling_failure("coverage", f"generator did not reach: {sorted(missing)} sizes {sorted(dist['n'])}")
    ctx.cov["input_distribution"] = dist
    ctx.cov["rule"] = ("QUBOContainer(M, c, pattern).report(obj_stats, tol) for n = 1..6, entries k/8 or integers, constants k/16, three "
                       "patterns, dense / CSR / COO-with-duplicates input, tol default / 0 / positive; fixed instances force every branch of "
                       "the scan; non-trivial = distinct case with obj_stats whose visiting order hits a tie, a displaced optimum, "
                       "a lowered runner-up or all-equal values")
    ctx.assumptions.append("values are multiples of 1/16, so float arithmetic in report() is exact and tol=1e-16 acts as equality; "
                           "the model works on the values times 16")
    ctx.assumptions.append("the float density is identified with the integer pair (a, (n+1)n) whose correctly rounded quotient it is")
    for case, obs in kept[33:36]:
        ctx.sample({"input": case_json(case), "report": repr(obs)})
    mism, err = ctx.coq_mismatches("rep", HEADER, "rcase", "check_rcase", terms, shard=150)
    for idx, tags in mism[:3]:
        case, obs = kept[idx]
        msg = oracle(case, obs)
        args = " ".join(model_args(case)[:2]) + " (mat_of " + model_args(case)[2] + ") " + " ".join(model_args(case)[3:])
        model = ctx.coq_eval(HEADER, f"report {args}")
        body = {"correspondence": "Report.check_rcase", "fields": "1 size 2 nnz 3 density 4 distinct 5 stats-presence 6 sum 7 opt 8 count 9 gap",
                "tags": tags, "input": case_json(case), "implementation": repr(obs), "model_times_16": model}
        if msg:
            ctx.violation("oracle/" + msg.split(" ")[0], msg, body, True)
        else:
            ctx.violation(f"correspondence/report/tags{tags}", "model and implementation disagree on report(); "
                          "the brute-force oracle does not apply to or does not fail on this input", body, False)
    if ctx.tier == "thorough":
        ctx.coqchk("VQP.C20")


def replay(ctx, data):
    r = data["replay"]
    case = case_from_json(r["input"])
    print(check_impl(case))
