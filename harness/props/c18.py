"""C18 -- variable index maps enumerate exactly the admissible decisions.
Arc half: props/C18_arc.v + c18_arc.run_part; sequence half: props/C18_seq.v + c18_seq.run_part."""
from props import c18_arc, c18_seq


GEN = {
    "arcenum": ("translate_arcenum", "C18_arc_gen",
                "harness/translate_arcenum.py + translate_enumcore.py (ast -> Gallina printer for the enumeration loops, "
                "admissibility tests and index lookups of ArcBasedRoutingProblem; Python semantics of the emitted "
                "combinators: coq/theories/PyEnumCore.v, PyArc.v)"),
    "seqenum": ("translate_seqenum", "C18_seq_gen",
                "harness/translate_seqenum.py + translate_enumcore.py (ast -> Gallina printer for the six fixing rules, the "
                "enumeration loops, fixed_values / var_mapping / var_mapping_inverse and the index lookups of "
                "SequenceBasedRoutingProblem; Python semantics of the emitted combinators: coq/theories/PyEnumCore.v, PySeq.v)"),
}


def gen_steps(ctx, keys):
    """Models regenerated from the source of the tree under test, proved equal to the hand models
    (DEV_GEN.md).  Failures are deferred by ctx.gen_step: the oracle / correspondence below still run."""
    import importlib
    for key in keys:
        mod, genprops, trusted = GEN[key]
        T = importlib.import_module(mod)
        ctx.gen_step(key, T.translate, genprops, trusted)


def run(ctx):
    ctx.prove(props=["C18_arc", "C18_seq"])
    gen_steps(ctx, ("arcenum", "seqenum"))
    from props import pysem; pysem.run(ctx, pysem.GROUPS_FOR.get(ctx.pid, ()))
    c18_arc.run_part(ctx)
    c18_seq.run_part(ctx)
    if ctx.tier == "thorough":
        ctx.coqchk("VQP.C18_arc")
        ctx.coqchk("VQP.C18_seq")


def replay(ctx, data):
    print(data)
