"""C18 -- variable index maps enumerate exactly the admissible decisions.
Arc half: props/C18_arc.v + c18_arc.run_part; sequence half: props/C18_seq.v + c18_seq.run_part."""
from props import c18_arc, c18_seq


def run(ctx):
    ctx.prove(props=["C18_arc", "C18_seq"])
    c18_arc.run_part(ctx)
    c18_seq.run_part(ctx)
    if ctx.tier == "thorough":
        ctx.coqchk("VQP.C18_arc")
        ctx.coqchk("VQP.C18_seq")


def replay(ctx, data):
    print(data)
