"""C12 -- MIRP graph enforces load/unload alternation and carries correct arc data.

Proof: coq/props/C12.v (invariant over every history of add_nodes / add_travel_arcs / add_exit_arcs /
add_entry_arcs; load along depot-to-depot paths; exact arc set of the canonical build order).
Generated model: harness/translate_mirp.py regenerates the four operations (and __init__, add_arc, estimate_high_cost)
from the source into coq/gen/MirpGen.v; coq/genprops/C12_gen.v proves them equal to the hand model and restates the
headline theorems for the generated operations (ctx.gen_step, notes/C11_gen.md).
Tie: the real MIRP is driven with exact rationals (props/xq.py) through canonical builds and through
arbitrary histories (repeated / reordered calls, missing fees, zero speed); the value of every call and the
complete final state (node table, arc table in dict order, port lists, port_mapping) are compared with the
Gallina model inside Coq.
Oracle: the property's own clauses on real graphs -- the exact builds above, mirp_g1.get_mirp(h) for a sweep
of horizons and mirp_random.get_generator(...) seeds (floats; the arguments the examples pass to the MIRP
methods are recorded by wrapping the methods, and times/costs are recomputed with the same float operations)."""
import contextlib
from fractions import Fraction as F

from vq import lit
from props import mirp_common as mc

HEADER = mc.HEADER
INF = float("inf")


# ---------------- recording what a builder passes to the MIRP methods ----------------
@contextlib.contextmanager
def recorded_calls(log):
    from vrpqubo.applications.mirp import MIRP
    names = ["add_nodes", "add_travel_arcs", "add_exit_arcs", "add_entry_arcs"]
    orig = {n: getattr(MIRP, n) for n in names}

    def wrap(n):
        def f(self, *a, **k):
            log.append((n, a, k))
            return orig[n](self, *a, **k)
        return f
    try:
        for n in names:
            setattr(MIRP, n, wrap(n))
        yield
    finally:
        for n in names:
            setattr(MIRP, n, orig[n])


def spec_from_log(log):
    """Canonical build order (nodes..., travel, exit, entry) -> the data of the build, else None."""
    kinds = [c[0] for c in log]
    nn = sum(1 for k in kinds if k == "add_nodes")
    if kinds != ["add_nodes"] * nn + ["add_travel_arcs", "add_exit_arcs", "add_entry_arcs"]:
        return None

    def args(call, names, defaults):
        _, a, k = call
        d = dict(defaults)
        d.update(dict(zip(names, a)))
        d.update(k)
        return d
    ports = [args(c, ["name", "inventory_init", "inventory_rate", "inventory_cap"], {}) for c in log[:nn]]
    tr = args(log[nn], ["distance_function", "vessel_speed", "cost_per_unit_distance", "supply_port_fees", "demand_port_fees"], {})
    ex = args(log[nn + 1], ["travel_time", "cost"], {"travel_time": 0, "cost": 0})
    en = args(log[nn + 2], ["time_limit", "travel_time", "cost"], {"travel_time": 0, "cost": 0})
    return {"ports": ports, "travel": tr, "exit": ex, "entry": en}


# ---------------- the property, evaluated directly on a MIRP object ----------------
def node_kind(name, demand):
    p = mc.parse_name(name)
    if p[0] == "depot":
        return "depot"
    if p[0] == "dum":
        return "dum"
    return "supply" if demand < 0 else "demand"


ARC_SHAPES = {("depot", "supply"), ("depot", "dum"), ("supply", "demand"), ("demand", "supply"),
              ("dum", "demand"), ("supply", "depot"), ("demand", "depot")}


def check_alternation(m, max_len=8, stats=None):
    """Clauses that hold for every history: node demands, arc shapes, filing, timing filter,
    and the vessel load along every depot-to-depot simple path.  Returns a message or None."""
    g = m.vrptw
    size = m.cargo_size
    if g.node_names[0] != "Depot" or g.depot_index != 0:
        return "the depot is not the first node"
    if len(set(g.node_names)) != len(g.node_names):
        return "duplicate node names"
    kinds = []
    for n in g.nodes:
        k = node_kind(n.name, n.demand)
        kinds.append(k)
        want = {"depot": 0, "dum": -size, "supply": -size, "demand": size}[k]
        if not (n.demand == want):
            return f"node {n.name} ({k}) has demand {n.demand}, expected {want}"
    for (i, j), a in g.arcs.items():
        if not (0 <= i < len(g.nodes) and 0 <= j < len(g.nodes)):
            return f"arc key {(i, j)} out of range"
        if g.nodes[i] is not a.origin or g.nodes[j] is not a.destination:
            return f"arc {a.origin.name}->{a.destination.name} is filed under {(g.node_names[i], g.node_names[j])}"
        if (kinds[i], kinds[j]) not in ARC_SHAPES:
            return f"arc {a.origin.name} ({kinds[i]}) -> {a.destination.name} ({kinds[j]}) is not an admissible shape"
        if not (a.origin.time_window[0] + a.travel_time <= a.destination.time_window[1]):
            return f"stored arc {a.origin.name}->{a.destination.name} violates the timing filter"
    # loads along depot-to-depot simple paths (every prefix is checked on the way)
    adj = {}
    for (i, j) in g.arcs:
        adj.setdefault(i, []).append(j)
    bad = []
    count = [0]

    def dfs(path, load, depth):
        for j in adj.get(path[-1], []):
            l2 = load - g.nodes[j].demand
            if not (l2 == 0 or l2 == size):
                bad.append((path + [j], l2))
                return
            if j == 0:
                count[0] += 1
                continue
            if j in path or depth + 1 >= max_len:
                continue
            dfs(path + [j], l2, depth + 1)
            if bad:
                return
    dfs([0], 0, 0)
    if stats is not None:
        stats["paths"] = stats.get("paths", 0) + count[0]
    if bad:
        p, l = bad[0]
        return f"path {[g.node_names[i] for i in p]}: vessel load {l} is not in {{0, {size}}}"
    return None


def expected_arcs(m, spec):
    """The specified arc set of a canonical build, from the nodes present: {(origin, destination): (time, cost)}
    and the expected dummy nodes."""
    g = m.vrptw
    node = {n.name: n for n in g.nodes}
    sup = [p["name"] for p in spec["ports"] if p["inventory_rate"] > 0]
    dmd = [p["name"] for p in spec["ports"] if not (p["inventory_rate"] > 0)]
    visits = {}
    for n in g.nodes:
        p = mc.parse_name(n.name)
        if p[0] == "visit":
            visits.setdefault(p[1], []).append(n.name)
    exp = {}
    tr = spec["travel"]
    for sp in sup:
        for dp in dmd:
            if not visits.get(sp) or not visits.get(dp):
                continue
            dist = tr["distance_function"](sp, dp)
            tt = dist / tr["vessel_speed"]
            base = dist * tr["cost_per_unit_distance"]
            for s in visits[sp]:
                for d in visits[dp]:
                    if node[s].time_window[0] + tt <= node[d].time_window[1]:
                        exp[(s, d)] = (tt, base + tr["demand_port_fees"][dp])
                    if node[d].time_window[0] + tt <= node[s].time_window[1]:
                        exp[(d, s)] = (tt, base + tr["supply_port_fees"][sp])
    ex = spec["exit"]
    for p in sup + dmd:
        for v in visits.get(p, []):
            exp[(v, "Depot")] = (ex["travel_time"], ex["cost"])      # the depot window is (0, inf): always passes
    en = spec["entry"]
    for p in sup:
        for v in visits.get(p, []):
            if node[v].time_window[1] < en["time_limit"] and 0 + en["travel_time"] <= node[v].time_window[1]:
                exp[("Depot", v)] = (en["travel_time"], en["cost"])
    dums = []
    for p in dmd:
        for v in visits.get(p, []):
            if node[v].time_window[1] < en["time_limit"]:
                d = f"Dum{len(dums)}"
                dums.append(d)
                exp[("Depot", d)] = (0, 0)
                if 0 + en["travel_time"] <= node[v].time_window[1]:
                    exp[(d, v)] = (en["travel_time"], en["cost"])
    return exp, dums


def check_arcset(m, spec):
    g = m.vrptw
    exp, dums = expected_arcs(m, spec)
    got = {(a.origin.name, a.destination.name): (a.travel_time, a.cost) for a in g.arcs.values()}
    have_dums = [n.name for n in g.nodes if mc.parse_name(n.name)[0] == "dum"]
    if have_dums != dums:
        return f"dummy nodes {have_dums}, expected {dums}"
    for n in g.nodes:
        if n.name in dums and not (n.time_window[0] == 0 and n.time_window[1] == INF):
            return f"dummy node {n.name} has window {n.time_window}"
    for k in exp:
        if k not in got:
            return f"specified arc {k[0]}->{k[1]} is missing"
    for k in got:
        if k not in exp:
            return f"arc {k[0]}->{k[1]} is stored but not specified"
    for k, (tt, c) in exp.items():
        if not (got[k][0] == tt):
            return f"arc {k[0]}->{k[1]} has travel time {got[k][0]}, expected {tt}"
        if not (got[k][1] == c):
            return f"arc {k[0]}->{k[1]} has cost {got[k][1]}, expected {c}"
    for i, n in enumerate(g.nodes):
        if mc.parse_name(n.name)[0] == "visit" and (i, 0) not in g.arcs:
            return f"regular node {n.name} has no exit arc"
    return None


# ---------------- exact builds ----------------
def run_history(size, H, ops):
    m = mc.make_mirp(size, H)
    rs = [mc.apply_op(m, op) for op in ops]
    return m, rs, mc.snapshot(m)


def spec_of_ops(ops):
    """The build data of a canonical history of exact ops (as XQ values), else None."""
    kinds = [o[0] for o in ops]
    nn = sum(1 for k in kinds if k == "nodes")
    tail = kinds[nn:]
    # the three arc-building calls in ANY order (the specified arc set does not depend on it), the exit call possibly repeated
    if kinds[:nn] != ["nodes"] * nn or sorted(set(tail)) != ["entry", "exit", "travel"] or tail.count("travel") != 1 \
            or tail.count("entry") != 1 or len(tail) > 4:
        return None
    if tail.count("exit") == 2 and ops[nn + tail.index("exit")] != ops[nn + len(tail) - 1 - tail[::-1].index("exit")]:
        return None
    ops = ops[:nn] + [ops[nn + tail.index("travel")], ops[nn + tail.index("exit")], ops[nn + tail.index("entry")]]
    tr = ops[nn]
    table = {k: mc.xq(v) for k, v in tr[1]}
    return {"ports": [{"name": o[1], "inventory_init": o[2], "inventory_rate": o[3], "inventory_cap": o[4]} for o in ops[:nn]],
            "travel": {"distance_function": lambda a, b: table[(a, b)], "vessel_speed": mc.xq(tr[2]),
                       "cost_per_unit_distance": mc.xq(tr[3]),
                       "supply_port_fees": {k: mc.xq(v) for k, v in tr[4]}, "demand_port_fees": {k: mc.xq(v) for k, v in tr[5]}},
            "exit": {"travel_time": mc.xq(ops[nn + 1][1]), "cost": mc.xq(ops[nn + 1][2])},
            "entry": {"time_limit": mc.xq(ops[nn + 2][1]), "travel_time": mc.xq(ops[nn + 2][2]), "cost": mc.xq(ops[nn + 2][3])}}


def q4(rng, lo, hi):
    return F(rng.randint(int(lo * 4), int(hi * 4)), 4)


def gen_port(rng, name, supply, size):
    mode = rng.random()
    if mode < 0.15:
        cap = size
    elif mode < 0.7:
        cap = size + q4(rng, 0.25, 2)
    else:
        cap = size * 2 + q4(rng, 0, 2)
    init = rng.choice([F(0), cap, q4(rng, 0, float(cap))])
    rate = rng.choice([F(1, 4), F(1, 2), F(3, 4), F(1), F(3, 2), F(2), F(5, 4)])
    return ("nodes", name, init, rate if supply else -rate, cap)


def window_ends(size, op, H):
    """Ends of the windows the port will get (used to aim entry limits / horizons)."""
    _, name, init, rate, cap = op
    out = []
    k = 0
    while k < 12:
        b = (cap + k * size - init) / rate if rate > 0 else (-k * size - init) / rate
        if b > H:
            break
        out.append(b)
        k += 1
    return out


def gen_tables(rng, sup, dmd, complete=True):
    dist = []
    vals = rng.sample(range(1, 60), 2 * len(sup) * len(dmd))          # all distances distinct
    for s in sup:
        for d in dmd:
            dist.append(((s, d), F(vals.pop(), 4)))
    for s in sup:
        for d in dmd:
            dist.append(((d, s), F(vals.pop(), 4) + 20))           # a swapped call would show
    fvals = rng.sample(range(1, 40), len(sup) + len(dmd))             # all fees distinct
    fs = [(s, F(fvals.pop(), 2)) for s in sup]
    fd = [(d, F(fvals.pop(), 2) + 30) for d in dmd]
    return dist, fs, fd


def gen_canonical(rng):
    size = rng.choice([F(1), F(2), F(3), F(5, 2), F(3, 2)])
    ns, nd = rng.randint(1, 3), rng.randint(1, 3)
    sup = [f"S{i + 1}" for i in range(ns)]
    dmd = [f"D{i + 1}" for i in range(nd)]
    ports = [gen_port(rng, p, True, size) for p in sup] + [gen_port(rng, p, False, size) for p in dmd]
    if rng.random() < 0.5:
        rng.shuffle(ports)                                              # G1 adds demand ports first
    # horizon: each port gets 0..3 visits
    H = q4(rng, 2, 14)
    ends = sorted(e for p in ports for e in window_ends(size, p, H))
    if ends and rng.random() < 0.3:
        H = rng.choice(ends)
    while sum(len(window_ends(size, p, H)) for p in ports) > 12 and H > 1:
        H = H / 2
    ends = sorted(e for p in ports for e in window_ends(size, p, H))
    dist, fs, fd = gen_tables(rng, sup, dmd)
    speed = rng.choice([F(1), F(2), F(1, 2), F(4), F(3)])
    unit = rng.choice([F(1), F(1, 2), F(3, 4), F(2), F(0)])
    r = rng.random()
    if ends and r < 0.6:
        limit = rng.choice(ends)                                        # hits a window end exactly
    elif r < 0.8:
        limit = q4(rng, 0, float(H) + 1)
    else:
        limit = H + 1
    ett, ec = (F(0), F(0)) if rng.random() < 0.6 else (q4(rng, 0, 2), q4(rng, 0, 5))
    ntt, nc = (F(0), F(0)) if rng.random() < 0.6 else (q4(rng, 0, 3), q4(rng, 0, 5))
    ops = ports + [("travel", dist, speed, unit, fs, fd), ("exit", ett, ec), ("entry", limit, ntt, nc)]
    return size, H, ops


def gen_history(rng):
    """Arbitrary history: reordered / repeated calls, ports added late, missing table entries, zero speed,
    occasionally a re-used port name."""
    size = rng.choice([F(1), F(2), F(3, 2)])
    H = q4(rng, 2, 9)
    names = ["S1", "S2", "D1", "D2", "S3", "D3"]
    used = []
    ops = []
    n = rng.randint(3, 8)
    for _ in range(n):
        r = rng.random()
        if r < 0.4:
            fresh = [x for x in names if x not in used]
            if used and (rng.random() < 0.1 or not fresh):
                name = rng.choice(used)
            else:
                name = rng.choice(fresh)
            used.append(name)
            op = gen_port(rng, name, rng.random() < 0.5, size)
            z = rng.random()
            if z < 0.06:
                op = op[:4] + (size - F(1, 2),)              # cargo exceeds the tank
            elif z < 0.1:
                op = op[:3] + (F(0),) + op[4:]               # rate 0
            ops.append(op)
        elif r < 0.6:
            ports = sorted(set(used)) or ["S1", "D1"]
            dist = [((a, b), q4(rng, 0.25, 6)) for a in ports for b in ports if a != b or rng.random() < 0.5]
            fs = [(p, q4(rng, 0, 9)) for p in ports]
            fd = [(p, q4(rng, 10, 19)) for p in ports]
            z = rng.random()
            if z < 0.1 and dist:
                dist.pop(rng.randrange(len(dist)))
            elif z < 0.2 and fs:
                fs.pop(rng.randrange(len(fs)))
            elif z < 0.3 and fd:
                fd.pop(rng.randrange(len(fd)))
            speed = F(0) if rng.random() < 0.07 else rng.choice([F(1), F(2), F(1, 2)])
            ops.append(("travel", dist, speed, rng.choice([F(1), F(1, 2)]), fs, fd))
        elif r < 0.8:
            ops.append(("exit", q4(rng, 0, 2), q4(rng, 0, 3)))
        else:
            ops.append(("entry", q4(rng, 0, float(H) + 1), q4(rng, 0, 2), q4(rng, 0, 3)))
    return size, H, ops


def case_lit(size, H, ops, rs, st):
    return lit.tup(lit.q(size), lit.q(H), lit.lst([mc.op_lit(o) for o in ops]),
                   lit.lst([mc.mresult_lit(r) for r in rs]), mc.sobs_lit(st))


def ops_json(ops):
    return mc.jsonable([list(o) for o in ops])


def shrink_history(size, H, ops, pred):
    """Drop operations / ports while the predicate keeps failing."""
    ops = list(ops)
    changed = True
    while changed:
        changed = False
        for i in range(len(ops)):
            cand = ops[:i] + ops[i + 1:]
            if cand and pred(size, H, cand):
                ops = cand
                changed = True
                break
    return ops


def exact_failure(size, H, ops):
    """Run a history exactly and evaluate the property's clauses; returns message or None."""
    m, rs, st = run_history(size, H, ops)
    port_names = [o[1] for o in ops if o[0] == "nodes"]
    if len(set(port_names)) != len(port_names):
        return None                         # a port *set* has distinct names: outside the quantifier
    msg = check_alternation(m)
    if msg:
        return msg
    spec = spec_of_ops(ops)
    if spec is not None and all(r[0] == "ok" for r in rs):
        return check_arcset(m, spec)
    return None


# ---------------- main ----------------
def run(ctx):
    ctx.prove()
    import translate_mirp as TM
    ctx.gen_step("mirp", TM.translate, "C12_gen",
                 "harness/translate_mirp.py (ast -> Gallina printer for the plain-Python methods of class MIRP: __init__, "
                 "add_node, add_arc, add_nodes, add_travel_arcs, add_entry_arcs, add_exit_arcs, estimate_high_cost) and the "
                 "meaning given to its combinators in coq/theories/PyMirp.v")
    import translate_examples as TE
    ex = ctx.gen_step("examples", TE.translate, "C12_examples_gen",
                      "harness/translate_examples.py (ast -> Gallina printer for the example builders mirp_g1.get_mirp and "
                      "RandomMIRP.get_random_mirp as logs of the calls they make on their MIRP object; drawn values are oracle "
                      "parameters) and the meaning given to its combinators in coq/theories/PyExamples.v")
    from props import pysem; pysem.run(ctx, pysem.GROUPS_FOR.get(ctx.pid, ()))
    TE.crosscheck(ctx, ex, recorded_calls)       # generated G1 call list at 3 horizons == the calls of the real get_mirp
    rng = ctx.rng
    n_canon = 140 if ctx.quick else 2100
    n_hist = 60 if ctx.quick else 900
    dist = {"canonical": 0, "arbitrary": 0, "ops": 0, "errors": {}, "max_nodes": 0, "max_arcs": 0, "dummies": 0,
            "entry_limit_at_window_end": 0, "reused_port_name": 0, "paths_checked": 0,
            "g1_horizons": 0, "random_generator_instances": 0}
    stats = {}
    reported = set()

    def report(sig, msg, replay, found=True):
        if sig in reported:
            return
        reported.add(sig)
        ctx.violation(sig, msg, replay, found)

    def sig_of(msg):
        for key, s in (("vessel load", "load"), ("admissible shape", "arc-shape"), ("timing filter", "filter"),
                       ("missing", "arc-missing"), ("not specified", "arc-extra"), ("cost", "arc-cost"),
                       ("travel time", "arc-time"), ("demand", "node-demand"), ("exit arc", "exit"), ("dummy", "dummy")):
            if key in msg:
                return "oracle/" + s
        return "oracle/other"

    # ---- 1. oracle on the example builders (floats) ----
    from vrpqubo.examples.mirp_g1 import get_mirp
    from vrpqubo.examples import mirp_random
    step = 2.5 if ctx.quick else 0.5
    h = 10.0
    while h <= 40.0:
        log = []
        with recorded_calls(log):
            m = get_mirp(h)
        spec = spec_from_log(log)
        msg = check_alternation(m, stats=stats)
        if not msg:
            msg = "get_mirp does not build in the order nodes, travel, exit, entry" if spec is None else check_arcset(m, spec)
        if msg:
            report(sig_of(msg) + "/g1", f"mirp_g1.get_mirp({h}): {msg}",
                   {"input": {"builder": "vrpqubo.examples.mirp_g1.get_mirp", "time_horizon": h},
                    "python": "props.c12.check_alternation / check_arcset on get_mirp(h)"})
        dist["g1_horizons"] += 1
        dist["max_nodes"] = max(dist["max_nodes"], len(m.vrptw.nodes))
        dist["max_arcs"] = max(dist["max_arcs"], len(m.vrptw.arcs))
        h += step
    seeds = range(6) if ctx.quick else range(40)
    for seed in seeds:
        for (ns, nd, hz) in ((1, 1, 60.0), (2, 2, 50.0), (2, 3, 40.0), (3, 2, 80.0)):
            gen = mirp_random.get_generator(ns, nd, hz)
            gen.seed = seed
            log = []
            with recorded_calls(log):
                m = gen.get_random_mirp(reset_seed=True)
            spec = spec_from_log(log)
            msg = check_alternation(m, stats=stats)
            if not msg:
                msg = "the random generator does not build in the order nodes, travel, exit, entry" if spec is None else check_arcset(m, spec)
            if msg:
                report(sig_of(msg) + "/random", f"mirp_random.get_generator({ns},{nd},{hz}) seed {seed}: {msg}",
                       {"input": {"builder": "vrpqubo.examples.mirp_random.get_generator", "num_supply_ports": ns,
                                  "num_demand_ports": nd, "time_horizon": hz, "seed": seed},
                        "python": "gen = get_generator(ns, nd, hz); gen.seed = seed; gen.get_random_mirp(reset_seed=True)"})
            dist["random_generator_instances"] += 1
            dist["max_nodes"] = max(dist["max_nodes"], len(m.vrptw.nodes))
            dist["max_arcs"] = max(dist["max_arcs"], len(m.vrptw.arcs))

    # ---- 1b. float builds far from the clock origin: the timing filter is an exact comparison, also when every time is
    #          large (cargo 2^16: windows at multiples of 65536) and an arrival is late by a quarter of a unit ----
    from vrpqubo.applications.mirp import MIRP
    big = 65536.0
    for extra in (0.0, 0.25, 1.0, -0.25, 8.0):
        log = []
        with recorded_calls(log):
            m = MIRP(cargo_size=big, time_horizon=3 * big)
            m.add_nodes("S1", 0.0, 1.0, 2 * big)            # visit windows (65536, 131072), (131072, 196608)
            m.add_nodes("D1", 2 * big, -1.0, 2 * big)       # the same windows on the demand side
            m.add_travel_arcs(lambda a, b, e=extra: big + e, 1.0, 1.0, {"S1": 1.0}, {"D1": 2.0})
            m.add_exit_arcs()
            m.add_entry_arcs(time_limit=2 * big + extra, travel_time=2 * big + extra)
        spec = spec_from_log(log)
        msg = check_alternation(m, stats=stats) or check_arcset(m, spec)
        if msg:
            report(sig_of(msg) + "/far-from-origin", f"MIRP with cargo size 65536 and distance 65536 + {extra}: {msg}",
                   {"input": {"cargo_size": big, "time_horizon": 3 * big, "ports": [["S1", 0.0, 1.0, 2 * big], ["D1", 2 * big, -1.0, 2 * big]],
                              "distance": big + extra, "speed": 1.0, "entry": {"time_limit": 2 * big + extra, "travel_time": 2 * big + extra}},
                    "python": "props.c12.check_arcset on the MIRP built as in section 1b of props/c12.py"})
        dist["far_from_origin_builds"] = dist.get("far_from_origin_builds", 0) + 1

    # ---- 1c. float builds with port names of any spelling (a real port may be called "Dumai": only the helper's own
    #          "Dum<k>" nodes are dummies) and an INTEGER-valued distance table next to fractional unit costs and fees ----
    for (sname, dname, unit, fee_s, fee_d) in (("Tuban", "Dumai", 0.75, 0.25, 1.5), ("Dum", "S", 0.5, 1.25, 0.75), ("A-1", "Dum7x", 1.25, 0.5, 0.25)):
        log = []
        with recorded_calls(log):
            m = MIRP(cargo_size=2, time_horizon=12)
            m.add_nodes(sname, 1, 1, 4)
            m.add_nodes(dname, 3, -1, 4)
            m.add_travel_arcs(lambda a, b: 1 if a == sname else 2, 1, unit, {sname: fee_s}, {dname: fee_d})    # Python ints
            m.add_exit_arcs()
            m.add_entry_arcs(time_limit=7)
        spec = spec_from_log(log)
        msg = check_alternation(m, stats=stats) or check_arcset(m, spec)
        if msg:
            report(sig_of(msg) + "/names-and-int-distances", f"MIRP with ports {sname!r} (supply) and {dname!r} (demand), integer distances, "
                   f"unit cost {unit}: {msg}",
                   {"input": {"cargo_size": 2, "time_horizon": 12, "ports": [[sname, 1, 1, 4], [dname, 3, -1, 4]],
                              "distance": f"1 from {sname}, 2 from {dname} (ints)", "speed": 1, "unit_cost": unit,
                              "fees": {sname: fee_s, dname: fee_d}, "entry_limit": 7},
                    "python": "props.c12.check_arcset on the MIRP built as in section 1c of props/c12.py"})
        dist["named_port_builds"] = dist.get("named_port_builds", 0) + 1

    # ---- 1d. the helper's own graph still has exactly the specified arc set after the formulations were requested (the
    #          heuristics add dummy arcs to THEIR copies; e.g. a depot -> demand-visit arc in the helper's graph would break
    #          "arcs leaving the depot lead only to loading nodes") ----
    for (size, H, ports, limit) in ((2, 9, [("S1", 0, 1, 3), ("D1", 3, -1, 3), ("D2", 2, -1, 3)], 4),
                                    (1, 6, [("S1", 0.5, 0.5, 1.5), ("D1", 1.0, -0.5, 1.5)], 3)):
        log = []
        with recorded_calls(log):
            m = MIRP(cargo_size=size, time_horizon=H)
            for pt in ports:
                m.add_nodes(*pt)
            m.add_travel_arcs(lambda a, b: 1.0, 1.0, 1.0, {pt[0]: 1.0 for pt in ports if pt[2] > 0}, {pt[0]: 2.0 for pt in ports if pt[2] < 0})
            m.add_exit_arcs()
            m.add_entry_arcs(time_limit=limit)
        spec = spec_from_log(log)
        for getter in ("get_arc_based", "get_sequence_based", "get_path_based"):
            try:
                getattr(m, getter)()
            except Exception:  # noqa: a heuristic may fail loudly; the helper's graph must be intact anyway
                pass
            msg = check_alternation(m, stats=stats) or check_arcset(m, spec)
            if msg:
                report(sig_of(msg) + "/after-getters", f"MIRP (cargo {size}, horizon {H}, ports {ports}) after {getter}(): {msg}",
                       {"input": {"cargo_size": size, "time_horizon": H, "ports": [list(pt) for pt in ports], "entry_limit": limit,
                                  "calls": ["get_arc_based", "get_sequence_based", "get_path_based"]},
                        "python": "props.c12.check_arcset on the MIRP of section 1d of props/c12.py after the getters"})
                break
        dist["builds_rechecked_after_getters"] = dist.get("builds_rechecked_after_getters", 0) + 1

    # ---- 2. exact builds: oracle + correspondence ----
    cases = []
    terms = []
    seen = set()
    for k in range(n_canon + n_hist):
        canonical = k < n_canon
        size, H, ops = gen_canonical(rng) if canonical else gen_history(rng)
        if canonical and k % 4 == 3:
            # the same build with the three arc-building calls in another order / the exit call repeated: same specified arc set
            nn_ = sum(1 for o in ops if o[0] == "nodes")
            tr_, ex_, en_ = ops[nn_:nn_ + 3]
            ops = ops[:nn_] + rng.choice([[tr_, en_, ex_], [en_, tr_, ex_], [tr_, ex_, en_, ex_], [en_, ex_, tr_], [ex_, en_, tr_]])
        m, rs, st = run_history(size, H, ops)
        dist["canonical" if canonical else "arbitrary"] += 1
        dist["ops"] += len(ops)
        for r in rs:
            if r[0] == "err":
                dist["errors"][r[1]] = dist["errors"].get(r[1], 0) + 1
        dist["max_nodes"] = max(dist["max_nodes"], len(st["nodes"]))
        dist["max_arcs"] = max(dist["max_arcs"], len(st["arcs"]))
        dist["dummies"] += sum(1 for n in st["nodes"] if n[0].startswith("Dum"))
        pn = [o[1] for o in ops if o[0] == "nodes"]
        if len(set(pn)) != len(pn):
            dist["reused_port_name"] += 1
        for o in ops:
            if o[0] == "entry" and any(n[3] == o[1] for n in st["nodes"][1:]):
                dist["entry_limit_at_window_end"] += 1
        msg = None
        if len(set(pn)) == len(pn):
            msg = check_alternation(m, stats=stats)
            spec = spec_of_ops(ops)
            if not msg and spec is not None and all(r[0] == "ok" for r in rs):
                msg = check_arcset(m, spec)
        if msg and sig_of(msg) not in reported:
            small = shrink_history(size, H, ops, lambda s, h, o: exact_failure(s, h, o) is not None)
            msg2 = exact_failure(size, H, small) or msg
            report(sig_of(msg2), msg2, {"input": {"cargo_size": str(size), "time_horizon": str(H), "history": ops_json(small)},
                                        "python": "props.c12.exact_failure(size, H, history) with Fractions"})
        cases.append((size, H, ops, rs, st))
        terms.append(case_lit(size, H, ops, rs, st))
        key = repr((size, H, ops))
        if key not in seen and len(st["arcs"]) >= 4 and any(n[0].startswith("Dum") for n in st["nodes"]):
            seen.add(key)
            ctx.count(nontrivial=1)
    dist["paths_checked"] = stats.get("paths", 0)
    ctx.count(evaluations=len(cases) + dist["g1_horizons"] + dist["random_generator_instances"], traces=len(cases))
    ctx.cov["input_distribution"] = dist
    ctx.cov["rule"] = ("exact (rational) builds: canonical order with 1-3 supply and 1-3 demand ports (k/4 data, all distances and fees "
                       "distinct, distance table asymmetric, entry limit aimed at a window end in 60% of the cases, ports possibly added "
                       "demand-first), and arbitrary histories of 3-8 calls (reordered / repeated calls, missing table entries, zero speed, "
                       "cargo > tank, rate 0, occasionally a re-used port name); non-trivial = distinct build with >= 4 arcs and a dummy node. "
                       "Float builds (G1 horizon sweep, random generator) go through the oracle only.")
    for c in cases[:2]:
        ctx.sample({"cargo_size": str(c[0]), "time_horizon": str(c[1]), "history": ops_json(c[2]),
                    "nodes": len(c[4]["nodes"]), "arcs": len(c[4]["arcs"])})

    mism, err = ctx.coq_mismatches("hist", HEADER, "c12case", "check_c12case", terms, shard=25)
    for idx, tags in mism[:1]:
        size, H, ops, rs, st = cases[idx]

        def disagrees(s, h, o):
            m2, rs2, st2 = run_history(s, h, o)
            mm, e2 = ctx.coq_mismatches("shrink", HEADER, "c12case", "check_c12case", [case_lit(s, h, o, rs2, st2)])
            return bool(mm)
        small = shrink_history(size, H, ops, disagrees) if len(ops) <= 10 else ops
        if not exact_failure(size, H, small) and exact_failure(size, H, ops):
            small = ops                     # keep the history on which the property itself fails
        m2, rs2, st2 = run_history(size, H, small)
        model = ctx.coq_eval(HEADER, f"let ops := {lit.lst([mc.op_lit(o) for o in small])} in "
                                     f"(mtrace ops (init_state {lit.q(size)} {lit.q(H)}), "
                                     f"observe_state (mrun ops (init_state {lit.q(size)} {lit.q(H)})))")
        omsg = exact_failure(size, H, small)
        ctx.violation(f"correspondence/tags{tags}",
                      f"model and implementation disagree on a history (fields {tags} of: 1 nodes, 2 arcs, 3 supply_ports, "
                      "4 demand_ports, 5 port_mapping, 6 values of the calls); "
                      + (f"the property oracle fails on it: {omsg}" if omsg else "the property oracle found no failing input on it"),
                      {"correspondence": "Mirp.check_c12case", "input": {"cargo_size": str(size), "time_horizon": str(H),
                                                                         "history": ops_json(small)},
                       "implementation": {"results": mc.jsonable([list(r) for r in rs2]), "state": mc.jsonable(st2)},
                       "model": model, "mismatching_cases": len(mism)}, bool(omsg))
    if ctx.tier == "thorough":
        ctx.coqchk("VQP.C12")


def ops_from_json(js):
    out = []
    for o in js:
        if o[0] == "nodes":
            out.append(("nodes", o[1], F(o[2]), F(o[3]), F(o[4])))
        elif o[0] == "travel":
            out.append(("travel", [((k[0], k[1]), F(v)) for k, v in o[1]], F(o[2]), F(o[3]),
                        [(k, F(v)) for k, v in o[4]], [(k, F(v)) for k, v in o[5]]))
        elif o[0] == "exit":
            out.append(("exit", F(o[1]), F(o[2])))
        else:
            out.append(("entry", F(o[1]), F(o[2]), F(o[3])))
    return out


def replay(ctx, data):
    r = data["replay"]["input"]
    if "history" in r:
        print(exact_failure(F(r["cargo_size"]), F(r["time_horizon"]), ops_from_json(r["history"])))
    else:
        print(r)
