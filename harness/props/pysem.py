"""Combinator correspondence ("pysem"): a differential check that ties the MEANING the coq/theories/Py*.v files give
to Python / numpy / scipy operations (DESIGN 12.5: "modelled, not verified") to the real libraries.

For every group of combinators (lists, dicts, sorting, sparse, numbers, truthiness, strings) structured random inputs are drawn
from a generator seeded like ctx.rng (seed, property id; a stream of its own so that the check's own draws are unchanged), the real operation is run in-process (exceptions mapped with core.exc_cls), and inputs AND observed
results are written as Gallina literals into one case list; coq/theories/PySem.v evaluates every combinator that
stands for that operation and returns the tags of those that disagree (one coqc call per check).  A mismatch means
that a model reads a library call wrongly: it is reported as `pysem/<group>/<combinator>` (no failing input for the
property itself).  Notes, tag table, input distribution, what is not covered: notes/PySem.md.

Wiring: every check that carries generated models calls  pysem.run(ctx, pysem.GROUPS_FOR.get(ctx.pid, ()))  once."""
import itertools
import math
import time
from fractions import Fraction

from vq import core, lit

HEADER = ("From Coq Require Import ZArith QArith List Bool String.\n"
          "From VQ Require Import Base PySem.\nFrom VQ Require Mirp Seq Heur.\n"
          "Import ListNotations.\nOpen Scope Z_scope.\n")

# check id -> groups (the combinators its generated models are printed into)
GROUPS_FOR = {
    "C01": ("sparse",), "C13": ("sparse",), "C02": ("sparse", "truthiness"),
    "C05": ("sorting", "sparse", "lists"), "C06": ("lists", "dicts", "numbers"),
    "C07": ("sorting", "lists", "dicts", "sparse"), "C09": ("lists", "dicts", "sorting", "numbers"),
    "C10": ("numbers", "sparse", "dicts", "strings"), "C11": ("numbers", "lists", "dicts"), "C12": ("numbers", "lists", "dicts"),
    "C14": ("truthiness", "dicts"), "C15": ("lists", "dicts", "numbers"), "C16": ("dicts", "truthiness"), "C17": ("truthiness",),
    "C18": ("lists", "dicts", "sorting"), "C19": ("truthiness", "numbers"), "C20": ("numbers", "sparse", "sorting"),
}

INF = float("inf")


# ---------------------------------------------------------------- literals
def zl(l):
    return lit.lst([lit.z(x) for x in l])


def nl(l):
    return lit.lst([lit.nat(x) for x in l])


def bl(l):
    return lit.lst([lit.boolean(bool(x)) for x in l])


def zll(rows):
    return lit.lst([zl(r) for r in rows])


def codes(s):
    return nl([ord(ch) for ch in s])


def pairl(l, fa, fb):
    return lit.lst([lit.pair(fa(a), fb(b)) for a, b in l])


def attempt(f):
    """('ok', value) or ('err', class name as in Base.errcls)."""
    try:
        return ("ok", f())
    except Exception as e:  # noqa: the class is the observation
        return ("err", core.exc_cls(e))


def res(r, f):
    return lit.ok(f(r[1])) if r[0] == "ok" else lit.err(r[1])


def opt_err(e):
    return "None" if e is None else f"(Some {e})"


def exact(x):
    """Exact integer value of a numpy / Python number that must be integral."""
    return lit.exact_int(x)


def exl(a):
    return [exact(x) for x in a]


def small(rng, maxlen=5, lo=0, hi=4):
    """A short list over a small alphabet (duplicates and ties are likely); empty and singleton lists are frequent."""
    n = rng.choice([0, 1, 1, 2, 3, 3, 4, maxlen])
    return [rng.randint(lo, hi) for _ in range(n)]


class Cases:
    def __init__(self, group):
        self.group = group
        self.items = []          # (group, op, term, meta)

    def add(self, op, ctor, term, **meta):
        wrap = {"lists": "CL", "dicts": "CD", "sorting": "CS", "sparse": "CP", "numbers": "CN", "truthiness": "CT", "strings": "CX"}[self.group]
        self.items.append((self.group, op, f"{wrap} ({ctor} {term})", meta))


# ---------------------------------------------------------------- loop programs (exec)
FOR_SRC = """
def prog(l, acc):
    for x in l:
        if x == {c}:
            continue
        if x == {b1}:
            {brk}
        acc.append(x)
        if x == {r}:
            raise ValueError
        if x == {b2}:
            {brk}
    return 'fell'
"""
WHILE_SRC = """
def prog(l, acc):
    i = 0
    while i < len(l):
        x = l[i]
        i += 1
        if x == {c}:
            continue
        if x == {b1}:
            break
        acc.append(x)
        if x == {r}:
            raise ValueError
        if x == {b2}:
            break
    return 'fell'
"""
OBJ_SRC = """
def prog(l, acc):
    for x in l:
        acc.append(x)
        if x == {r}:
            raise ValueError
    return 'fell'
"""
TRY_SRC = """
def prog(l, x):
    try:
        return l.index(x)
    except {cls}:
        return -1
"""


def run_prog(src, *args):
    env = {}
    exec(compile(src, "<pysem-loop>", "exec"), env)      # noqa: S102 -- a program generated right here
    acc = []
    try:
        out = env["prog"](*args, acc) if "acc" in src else env["prog"](*args)
        return acc, out, None
    except Exception as e:  # noqa
        return acc, None, core.exc_cls(e)


# ---------------------------------------------------------------- group: lists
def gen_lists(rng):
    import numpy as np
    C = Cases("lists")
    for _ in range(8):
        l = small(rng)
        x = rng.randint(0, 5)
        C.add("list.index", "LIndex", f"{lit.nat(x)} {nl(l)} {res(attempt(lambda: l.index(x)), lit.nat)}", l=l, x=x)
        C.add("in", "LIn", f"{lit.nat(x)} {nl(l)} {lit.boolean(x in l)}", l=l, x=x)
        C.add("list.remove", "LRemove", f"{lit.nat(x)} {nl(l)} {res(attempt(lambda: (lambda m: (m.remove(x), m)[1])(list(l))), nl)}", l=l, x=x)
        cls = rng.choice(["ValueError", "KeyError", "IndexError"])
        r = attempt(lambda: run_prog(TRY_SRC.format(cls=cls), l, x))
        r = ("ok", r[1][1]) if r[1][2] is None else ("err", r[1][2])
        C.add("try/except", "LTry", f"{lit.nat(x)} {nl(l)} {cls} {res(r, lit.z)}", l=l, x=x, cls=cls)
    for _ in range(10):
        l = small(rng, lo=-3, hi=4)
        n = len(l)
        i = rng.choice([0, 0, n // 2, max(n - 1, 0), n, n + 1, rng.randint(0, 6)])
        z = rng.choice([0, -1, n - 1, n, -n, -n - 1, rng.randint(-7, 7)])
        v = rng.randint(-9, 9)
        C.add("l[i]", "LGetNat", f"{zl(l)} {lit.nat(i)} {res(attempt(lambda: l[i]), lit.z)}", l=l, i=i)
        C.add("l[z]", "LGetZ", f"{zl(l)} {lit.z(z)} {res(attempt(lambda: l[z]), lit.z)}", l=l, z=z)

        def setz():
            m = list(l)
            m[z] = v
            return m

        def npset(k):
            a = np.array(l, dtype=int)
            a[k] = v
            return exl(a)
        C.add("l[z]=v", "LSetZ", f"{zl(l)} {lit.z(z)} {lit.z(v)} {res(attempt(setz), zl)}", l=l, z=z, v=v)
        C.add("ndarray a[z]=v", "LNpSetZ", f"{zl(l)} {lit.z(z)} {lit.z(v)} {res(attempt(lambda: npset(z)), zl)}", l=l, z=z, v=v)
        rl, ra = attempt(lambda: (lambda m: (m.__setitem__(i, v), m)[1])(list(l))), attempt(lambda: npset(i))
        assert rl == ra, (l, i, v, rl, ra)                 # list and ndarray agree for i >= 0
        C.add("l[i]=v", "LSetNat", f"{zl(l)} {lit.nat(i)} {lit.z(v)} {res(rl, zl)}", l=l, i=i, v=v)

        def pop(k):
            m = list(l)
            y = m.pop(k)
            return y, m
        pr = lambda t: lit.pair(lit.z(t[0]), zl(t[1]))    # noqa: E731
        C.add("l.pop(i)", "LPopNat", f"{zl(l)} {lit.nat(i)} {res(attempt(lambda: pop(i)), pr)}", l=l, i=i)
        C.add("l.pop(z)", "LPopZ", f"{zl(l)} {lit.z(z)} {res(attempt(lambda: pop(z)), pr)}", l=l, z=z)
        m = list(l)
        m.insert(i, v)
        C.add("l.insert(i,x)", "LInsert", f"{lit.nat(i)} {lit.z(v)} {zl(l)} {zl(m)}", l=l, i=i, v=v)
        C.add("l.append(x)", "LAppend", f"{zl(l)} {lit.z(v)} {zl(l + [v])}", l=l, v=v)
        C.add("l[-1]", "LLast", f"{zl(l)} {res(attempt(lambda: l[-1]), lit.z)}", l=l)
        C.add("max(l, default=d)", "LMaxDefault", f"{zl(l)} {lit.z(v)} {lit.z(max(l, default=v))}", l=l, d=v)
        C.add("l[k:]", "LSlice", f"{lit.nat(i)} {zl(l)} {zl(l[i:])}", l=l, k=i)
        C.add("enumerate", "LEnumerate", f"{zl(l)} {pairl(list(enumerate(l)), lit.nat, lit.z)}", l=l)
        C.add("len", "LLen", f"{zl(l)} {lit.nat(len(l))}", l=l)
        C.add("np.flatnonzero", "LFlatnonzero", f"{zl(l)} {nl(exl(np.flatnonzero(np.array(l, dtype=int))))}", l=l)
        assert exl(np.nonzero(np.array(l, dtype=int))[0]) == exl(np.flatnonzero(np.array(l, dtype=int)))
        ge = (np.array(l, dtype=int) >= v).tolist()
        C.add("arr >= x", "LGeScalar", f"{zl(l)} {lit.z(v)} {bl(ge)}", l=l, x=v)
        for idx in (None, z):
            def aug(set_):
                a = np.array(l, dtype=int)
                if set_:
                    a[idx] = v
                else:
                    a[idx] += v
                return exl(a)
            C.add("a[i]+=v / a[i]=v (i int or None)", "LNpVecAug",
                  f"{zl(l)} {lit.opt(idx, lit.z)} {lit.z(v)} {res(attempt(lambda: aug(False)), zl)} {res(attempt(lambda: aug(True)), zl)}",
                  l=l, i=idx, v=v)
    return C.items + gen_lists2(rng)


def gen_lists2(rng):
    import numpy as np
    C = Cases("lists")
    for _ in range(8):
        a, b = small(rng, lo=-2, hi=3), small(rng, lo=-2, hi=3)
        c3 = small(rng, lo=-2, hi=3)
        C.add("a + b", "LConcat", f"{zl(a)} {zl(b)} {zl(a + b)}", a=a, b=b)
        n = rng.choice([-2, -1, 0, 1, 2, 3])
        l1 = rng.choice([a, [rng.randint(-3, 3)]])
        C.add("l * n", "LRepeat", f"{zl(l1)} {lit.z(n)} {zl(l1 * n)}", l=l1, n=n)
        C.add("zip(a,b)", "LZip", f"{zl(a)} {zl(b)} {pairl(list(zip(a, b)), lit.z, lit.z)}", a=a, b=b)
        z3 = lit.lst([lit.tup(lit.z(p), lit.z(q), lit.z(r)) for p, q, r in zip(a, b, c3)])
        C.add("zip(a,b,c)", "LZip3", f"{zl(a)} {zl(b)} {zl(c3)} {z3}", a=a, b=b, c=c3)
        C.add("itertools.product", "LProduct", f"{zl(a)} {zl(b)} {pairl(list(itertools.product(a, b)), lit.z, lit.z)}", a=a, b=b)
        lo, hi = rng.randint(0, 4), rng.randint(-3, 6)
        C.add("range(a,b)", "LRange", f"{lit.z(lo)} {lit.z(hi)} {zl(list(range(lo, hi)))}", a=lo, b=hi)
        C.add("range(n)", "LRange1", f"{lit.z(hi)} {zl(list(range(hi)))}", n=hi)
        nn = small(rng, hi=9)
        C.add("max(l)", "LListMax", f"{nl(nn)} {res(attempt(lambda: max(nn)), lit.nat)}", l=nn)
        bs = [rng.random() < 0.5 for _ in range(rng.choice([0, 1, 2, 3, 4]))]
        nb = np.array(bs, dtype=bool)       # the code applies any() to numpy boolean arrays
        assert any(nb) == any(bs) and all(nb) == all(bs)
        C.add("any/all", "LAnyAll", f"{bl(bs)} {lit.boolean(any(nb))} {lit.boolean(all(nb))}", l=bs)
        bad = rng.choice([99] + a)

        def f(k):
            if k == bad:
                raise KeyError(k)
            return 2 * k
        C.add("[f(k) for k in l]", "LMapE", f"{zl(a)} {lit.z(bad)} {res(attempt(lambda: [f(k) for k in a]), zl)}", l=a, bad=bad)
        C.add("[f(k) for k in l]", "LMapE", f"{zl(a)} {lit.z(bad)} {res(attempt(lambda: list(map(f, a))), zl)}", l=a, bad=bad)
        cnt = [0]

        def g(k):
            if k == bad:
                raise KeyError(k)
            cnt[0] += k
            return cnt[0]
        r = attempt(lambda: [g(k) for k in a])
        r = ("ok", (cnt[0], r[1])) if r[0] == "ok" else r
        C.add("[f(k) for k in l] (stateful f)", "LMapM", f"{zl(a)} {lit.z(bad)} {res(r, lambda t: lit.pair(lit.z(t[0]), zl(t[1])))}", l=a, bad=bad)
        s = "".join(rng.choice("ab 1.") for _ in range(rng.randint(0, 4)))
        k = rng.randint(0, 5)
        C.add("s[k]", "LStrGet", f"{codes(s)} {lit.nat(k)} {res(attempt(lambda: ord(s[k])), lit.nat)}", s=s, k=k)
        t = rng.choice([None, (rng.randint(-5, 5),)])
        C.add("t[0] (tuple or None)", "LTupleOf", f"{lit.opt(None if t is None else t[0], lit.z)} {res(attempt(lambda: t[0]), lit.z)}", t=t)
    # numpy arrays of get_math_program_data
    for _ in range(8):
        n, j = rng.choice([-1, 0, 1, 3]), rng.randint(-2, 4)
        C.add("j*np.ones(n)", "LOnes", f"{lit.z(n)} {lit.z(j)} {res(attempt(lambda: exl(j * np.ones(n, dtype=int))), zl)}", n=n, j=j)
        nr, nc = rng.choice([-1, 0, 1, 2, 3]), rng.choice([-1, 0, 1, 2, 3])
        r_, c_ = rng.randint(-4, 4), rng.randint(-4, 4)
        v = rng.randint(1, 5)

        def set1():
            M = np.zeros((nr, nc))
            M[r_, c_] = v
            return [exl(row) for row in M]
        C.add("M[r,c]=v", "LMatSet1", f"{lit.z(nr)} {lit.z(nc)} {lit.z(r_)} {lit.z(c_)} {lit.z(v)} {res(attempt(set1), zll)}",
              nr=nr, nc=nc, r=r_, c=c_, v=v)
        # documented domain of mat_set_pairs: index arrays of equal length, or of different lengths neither of which is 1
        kr = rng.choice([0, 2, 3])
        kc = rng.choice([kr, kr, kr, 0, 2, 3])
        rows = [rng.randint(0, 3) for _ in range(kr)]
        cols = [rng.randint(-3, 3) for _ in range(kc)]

        def setp():
            M = np.zeros((nr, nc))
            M[np.array(rows, dtype=int), np.array(cols, dtype=int)] = v
            return [exl(row) for row in M]
        C.add("M[rows,cols]=v", "LMatSet", f"{lit.z(nr)} {lit.z(nc)} {nl(rows)} {zl(cols)} {lit.z(v)} {res(attempt(setp), zll)}",
              nr=nr, nc=nc, rows=rows, cols=cols, v=v)
        mr, mc = rng.randint(0, 3), rng.randint(0, 3)
        M = [[rng.randint(-2, 2) for _ in range(mc)] for _ in range(mr)]
        # used domain (get_math_program_data builds the mask with np.ones(num_nodes)): numpy accepts an EMPTY boolean mask
        # for any number of rows (result: no rows) where mat_mask_rows answers IndexError -- notes/PySem.md, finding F1
        ml = rng.choice([mr, mr, mr, mr + 1, max(mr - 1, 1 if mr else 0)])
        mask = [rng.random() < 0.5 for _ in range(ml)]
        C.add("M[mask,:]", "LMaskRows",
              f"{zll(M)} {lit.nat(mc)} {bl(mask)} "
              f"{res(attempt(lambda: [exl(r) for r in np.array(M, dtype=int).reshape(mr, mc)[np.array(mask, dtype=bool), :]]), zll)}",
              M=M, mask=mask)
    # loops
    for _ in range(26):
        l = small(rng, maxlen=6, hi=5)
        pick = lambda: rng.choice([99, 99] + list(range(6)))     # noqa: E731 -- 99 switches the statement off
        c, b1, b2, r = pick(), pick(), pick(), pick()
        acc, out, exc = run_prog(FOR_SRC.format(c=c, b1=b1, b2=b2, r=r, brk="break"), l)
        args = f"{zl(l)} {lit.z(c)} {lit.z(b1)} {lit.z(b2)} {lit.z(r)}"
        C.add("for (break/continue/raise)", "LFor", f"{args} {lit.pair(zl(acc), opt_err(exc))}", l=l, c=c, b1=b1, b2=b2, r=r)
        acc, out, exc = run_prog(FOR_SRC.format(c=c, b1=b1, b2=b2, r=r, brk="return 'ret'"), l)
        C.add("for (early return)", "LForRet", f"{args} {lit.boolean(out == 'fell')} {lit.pair(zl(acc), opt_err(exc))}",
              l=l, c=c, b1=b1, b2=b2, r=r)
        acc, out, exc = run_prog(WHILE_SRC.format(c=c, b1=b1, b2=b2, r=r), l)
        C.add("while (break/continue/raise)", "LWhile", f"{args} {lit.pair(zl(acc), opt_err(exc))}", l=l, c=c, b1=b1, b2=b2, r=r)
        acc, out, exc = run_prog(OBJ_SRC.format(r=r), l)
        C.add("for (object state kept at a raise)", "LForObj", f"{nl(l)} {lit.nat(r)} {nl(acc)} {opt_err(exc)}", l=l, r=r)
    return C.items


# ---------------------------------------------------------------- tags of PySem.v -> combinator names
TAGS = {
    101: "PyVrptw.py_index", 102: "PyEnumCore.py_list_index", 103: "PyVrptw.py_in", 104: "PyEnumCore.py_list_contains",
    105: "PyVrptw.py_getitem", 106: "PyEnumCore.py_list_item", 107: "PyExport.list_get", 108: "PyHeurPath.py_nth",
    109: "PyPath.py_getitem", 110: "PyRoutes.py_list_getitem_z", 111: "PySeqCons.py_list_getitem_z", 112: "PyTestSet.py_index",
    114: "PyPath.py_setitem", 115: "PyRoutes.py_list_setitem_z", 116: "PySeqCons.py_list_setitem_z",
    117: "PyHeur.np_set_item", 118: "PySeqCons.np_vec_setitem", 119: "PyHeurPath.py_set_nth", 120: "PyMirpWrap.list_set_m",
    121: "PyArcCons.py_nd_set", 122: "PyRoutes.list_update", 123: "PyVrptw.py_pop", 124: "PyRoutes.py_list_pop",
    125: "PyVrptw.py_remove", 126: "PyHeur.py_list_remove", 127: "PyHeurPath.py_list_remove", 128: "PyVrptw.py_insert",
    129: "PyVrptw.py_append", 130: "PyEnumCore.py_append", 131: "PyRoutes.py_list_concat", 132: "PyArcCons.py_list_concat",
    133: "PyPath.py_list_repeat", 134: "PyHeurPath.py_repeat", 135: "PyMirpWrap.list_mul", 136: "PyRoutes.py_slice_from",
    137: "PyRoutes.py_enumerate", 138: "PyArcCons.py_enumerate", 139: "PyPath.py_enumerate",
    140: "PyEnumCore.py_range2_z", 141: "PyEnumCore.py_range2", 142: "PyEnumCore.py_range", 143: "PyEnumCore.py_range_z",
    144: "PyPath.py_range", 145: "PyMirpWrap.py_range", 146: "PyHeurPath.py_nat_range", 147: "PyReport.range_fold",
    148: "PyExport.range_fold_r", 149: "PyPath.py_len", 150: "PyMirpWrap.py_len", 151: "PyReport.zip2", 152: "PyMirpWrap.py_zip",
    153: "PyReport.zip3", 154: "PySeqCons.py_product", 155: "PyMirp.py_last", 156: "PyHeurPath.py_max_default",
    157: "PyExport.list_max_r", 158: "PyEnumCore.py_any", 159: "PyEnumCore.py_all", 160: "PyEnumCore.np_map_scalar",
    161: "PyEnumCore.py_try", 163: "PyRoutes.py_mapE", 164: "PyHeurPath.py_map_list", 165: "PyExport.str_get",
    166: "PyRoutes.py_tuple_of", 167: "PyPath.np_ones+np_scale", 169: "PyPath.mat_zeros+mat_set1",
    170: "PyPath.mat_set_pairs", 171: "PyPath.mat_mask_rows", 173: "PySeqCons.np_vec_augitem", 174: "PySeqCons.np_vec_setitem(None)",
    176: "PyRoutes.np_flatnonzero", 177: "PyRoutes.np_nonzero",
    180: "PyEnumCore.py_for", 181: "PyRoutes.py_forE", 182: "PySeqCons.py_forE", 183: "PyHeur.py_forM", 184: "PyArcCons.py_forx",
    185: "PyHeurPath.py_for", 186: "PyPath.for_each", 187: "PyVrptw.for_each", 188: "PyReport.for_each", 189: "PyExport.for_each_r",
    190: "PyMirp.for_each", 191: "PyRoutes.py_whileE", 192: "PyHeur.py_whileM", 193: "PyHeurPath.py_while", 194: "PyMirp.while_true",
    195: "PyRoutes.py_mapM", 196: "PyMirpWrap.for_each",
    201: "Base.dict_set", 202: "PyVrptw.dict_update", 203: "PyVrptw.dict_items", 204: "PyVrptw.dict_keys", 205: "PyVrptw.dict_values",
    206: "PyEnumCore.py_dict_keys", 207: "PyEnumCore.py_dict_values", 208: "PyRoutes.py_items", 209: "PyVrptw.py_dict_getitem",
    210: "PySeqCons.py_dict_getitem", 211: "PyVrptw.dict_in", 212: "PyEnumCore.py_dict_contains", 213: "Base.dict_mem",
    214: "PyVrptw.dict_clear/dict_new", 215: "PySeq.py_tdict_set", 216: "PySeqCons.py_tdict_getitem", 217: "PyReport.dict_set",
    218: "PyTestSet.dict_set", 219: "PyReport.dict_get", 220: "PyTestSet.dict_get", 221: "PyTestSet.t_setitem",
    222: "PyTestSet.t_subscript(dict)", 223: "PyHeurPath.py_kv_getitem", 224: "PyHeurPath.py_min_key",
    225: "PyHeurPath.kv_keys/kv_values", 226: "PyHeurPath.py_dict_truth", 227: "PySeq.np_ones3/np_neg3/py_nd3_set/py_nd3_get",
    301: "PyRoutes.np_array_rows+np_flip+np_T+np_lexsort+np_iter", 302: "PyRoutes.np_lexsort", 303: "PyRoutes.np_flip",
    304: "PyRoutes.np_T", 305: "PyArc.np_sort", 306: "PyArc.np_unique", 307: "PyReport.py_unique", 308: "PyMirpWrap.py_sort",
    309: "PyMirpWrap.py_set+py_list+py_sort", 310: "PyHeur.py_list_sort_key(Z)", 311: "PyHeur.py_list_sort_key(ext)",
    312: "PyEnumCore.np_argmax_bool",
    401: "PyArcCons.sparse_coo_array", 402: "PyArcCons.mat_vec", 403: "PyArcCons.sparse_csr_zeros", 404: "PySeqCons.sp_coo_array",
    405: "PyExport.py_coo_array", 406: "PyExport.sp_find", 407: "PyExport.qdiag", 408: "PyReport.py_diagonal",
    409: "Report.nnz", 410: "PyTestSet.t_getattr(nnz)", 411: "PyQubo.diagonal", 412: "PyQubo.mtranspose", 413: "PyQubo.setdiag",
    414: "PyQubo.tril", 415: "PyQubo.triu", 416: "PyQubo.msum0", 417: "PyQubo.msum1", 418: "PyQubo.msum", 419: "PyQubo.mscal",
    420: "PyQubo.mscal_r", 421: "PyQubo.mneg", 422: "PyQubo.as_sparse/to_format/eliminate_zeros", 423: "PyQubo.madd",
    424: "PyQubo.msub", 425: "PyQubo.mdot", 426: "PyQubo.diags", 427: "PyQubo.vdot", 428: "PyQubo.vsum",
    429: "PyQubo.vadd/vsub/vneg/vscal/vscal_r/svadd/svsub/vsadd/vssub", 436: "PyMat.py_transpose", 437: "PyMat.py_dot",
    441: "PyMat.py_diags", 442: "PyMat.py_add", 443: "PyMat.py_sub", 444: "PyMat.py_mul", 445: "PyMat.py_neg", 446: "PyMat.py_pow",
    447: "PyMat.py_atleast_1d", 448: "PyMat.py_fabs", 449: "PyMat.py_len", 450: "PyMat.py_sum", 451: "PyTestSet.t_dot",
    452: "PyTestSet.np_dot", 453: "PyMat.py_float", 454: "Export.coo_dense (PyTestSet.dense_of)",
    501: "Base.ext_leb", 502: "PyEnumCore.ext_ltb", 503: "PyEnumCore.ext_gtb", 504: "PyEnumCore.ext_geb", 505: "PyEnumCore.ext_neb",
    506: "Base.ext_eqb", 507: "PyVrptw.fl_le", 508: "PyVrptw.fl_lt", 509: "PyVrptw.fl_ge", 510: "PyVrptw.fl_gt", 511: "PyVrptw.fl_eq",
    512: "PyVrptw.fl_ne", 513: "PyPath.ext_ltb", 514: "PyPath.ext_gtb", 515: "PyPath.ext_geb", 516: "PyEnumCore.ext_max",
    517: "PyEnumCore.ext_min", 518: "PyVrptw.fl_plus", 519: "PyVrptw.fl_isinf", 520: "PyMirpWrap.np_ceil", 521: "PyMirpWrap.np_floor",
    522: "PyMirpWrap.py_int", 523: "PyMirpWrap.np_floor_ext", 524: "PyMirpWrap.np_arange+np_tolist", 525: "PyExport.py_int",
    526: "PyExport.py_float", 527: "Export.fmt2(space)", 528: "Export.fmt2(plain)", 529: "Export.print_nat", 530: "PyReport.format_0b+int_of_digit",
    531: "PyTestSet.t_str(int)", 532: "PyMirp.q_gt", 533: "PyMirp.q_lt", 534: "PyMirp.q_le", 535: "PyMirp.q_ge", 536: "PyMirp.q_eq",
    537: "PyMirp.q_ne", 538: "PyMirp.np_fabs", 539: "PyMirp.q_div", 540: "PyMirpWrap.q_div", 541: "PyMirp.ext_le_q", 542: "PyMirp.ext_gt_q",
    543: "PyMirp.ext_ge_q", 544: "PyMirp.ext_eq_q", 545: "PyMirp.ext_ne_q", 546: "PyMirpWrap.np_isinf", 547: "PyMirp.py_min_m/PyMirpWrap.py_min_m",
    548: "PyMirp.py_max_m/PyMirpWrap.py_max_m", 550: "PyHeur.py_finite",
    600: "PyMat.py_truth", 601: "PyTestSet.t_truth", 602: "PyMat.py_not", 603: "PyMat.e_if", 604: "PyMat.e_and", 605: "PyMat.e_or",
    606: "PyMat.py_is_none", 607: "PyMat.py_is_bool", 608: "PyTestSet.p_not", 609: "PyReport.is_none/PySeqCons.py_is_none/PyMirpWrap.is_none",
    610: "PyRoutes.py_and_optnat", 611: "PyRoutes.py_or_optnat",
}
GROUP_OF_TAG = {1: "lists", 2: "dicts", 3: "sorting", 4: "sparse", 5: "numbers", 6: "truthiness", 7: "strings"}
TAGS.update({700: "PyTestSet.t_split", 701: "PyTestSet.t_join", 702: "PyTestSet.path_join", 703: "PyTestSet.path_splitext",
             704: "PyTestSet.t_len", 705: "PyTestSet.t_iter", 706: "PyTestSet.t_zip", 707: "PyTestSet.t_unpack(2)",
             708: "PyTestSet.t_unpack(3)", 709: "PyTestSet.t_eq", 710: "PyTestSet.t_ne", 711: "PyTestSet.t_sum", 712: "PyTestSet.t_item0",
             713: "PyTestSet.t_add", 714: "PyTestSet.t_sub", 715: "PyTestSet.t_mul", 716: "PyTestSet.t_neg", 717: "PyTestSet.t_subscript",
             718: "PyTestSet.t_int", 719: "PyTestSet.t_issparse", 720: "PyTestSet.t_lt", 721: "PyTestSet.t_le", 722: "PyTestSet.t_gt",
             723: "PyTestSet.t_ge", 724: "PyTestSet.str_mem", 725: "Export.split_ws"})

GENERATORS = {}


def run(ctx, groups):
    """One differential run for the groups of this check; see the module docstring."""
    import random
    groups = [g for g in groups if g in GENERATORS]
    if not groups:
        return
    t0 = time.time()
    # a stream of its own, derived from the seed and the property id like ctx.rng, so that the inputs the check
    # itself draws from ctx.rng afterwards are the same with and without this step
    rng = random.Random(ctx.seed * 1000003 + sum(ord(c) for c in ctx.pid) + 7919)
    items = []
    for g in groups:
        items += GENERATORS[g](rng)
    terms = [t for (_, _, t, _) in items]
    mism, err = ctx.coq_mismatches("pysem", HEADER, "PySem.case", "PySem.check_case", terms, shard=max(len(terms), 1))
    cov = ctx.cov.setdefault("combinator_semantics", {})
    for g in groups:
        mine = [it for it in items if it[0] == g]
        cov[g] = {"cases": len(mine), "operations": sorted({it[1] for it in mine}),
                  "combinators": sorted(n for t, n in TAGS.items() if GROUP_OF_TAG[t // 100] == g)}
    ctx.count(evaluations=len(terms))
    if err is None:
        seen = {}
        for idx, tags in mism:
            g, op, term, meta = items[idx]
            for t in tags:
                name = TAGS.get(t, f"tag{t}")
                sig = f"pysem/{GROUP_OF_TAG.get(t // 100, g)}/{name}"
                seen[sig] = seen.get(sig, 0) + 1
                if seen[sig] > 2:
                    continue
                ctx.violation(sig, f"the model's reading of a library call is wrong: combinator {name} disagrees with the real "
                                   f"Python / numpy / scipy operation `{op}` on a generated input", 
                              {"group": g, "operation": op, "combinator": name, "tag": t, "inputs": meta, "case": term,
                               "disagreeing_cases_with_this_signature": sum(1 for _, ts in mism if t in ts)}, False)
    cov["wall_s"] = round(cov.get("wall_s", 0) + time.time() - t0, 2)
    ctx.log(f"pysem: groups {','.join(groups)}: {len(terms)} cases, {len(mism)} disagreeing, {cov['wall_s']} s")


GENERATORS["lists"] = gen_lists


# ---------------------------------------------------------------- group: dicts
def pk(k):
    return lit.pair(lit.nat(k[0]), lit.nat(k[1]))


def tk(k):
    return lit.tup(lit.nat(k[0]), lit.nat(k[1]), lit.nat(k[2]))


def gen_dicts(rng):
    import numpy as np
    C = Cases("dicts")
    pit = lambda items: pairl(items, pk, lit.z)                       # noqa: E731
    tit = lambda items: pairl(items, tk, lit.z)                       # noqa: E731
    sit = lambda items: pairl(items, codes, lit.z)                    # noqa: E731
    rkey = lambda: (rng.randint(0, 2), rng.randint(0, 2))            # noqa: E731 -- 9 keys: repeats are frequent
    for _ in range(12):
        d0 = {}
        for _k in range(rng.choice([0, 0, 1, 2, 3])):
            d0[rkey()] = rng.randint(-5, 5)
        ops = [(rkey(), rng.randint(-5, 5)) for _k in range(rng.choice([0, 1, 2, 4, 6]))]
        d = dict(d0)
        for k, v in ops:
            d[k] = v
        C.add("d[k]=v", "DBuild", f"{pit(list(d0.items()))} {pit(ops)} {pit(list(d.items()))}", d0=list(d0.items()), ops=ops)
        d2 = dict(d0)
        d2.update(ops)
        C.add("d.update(kvs)", "DUpdate", f"{pit(list(d0.items()))} {pit(ops)} {pit(list(d2.items()))}", d0=list(d0.items()), kvs=ops)
        assert list(d) == list(d.keys())
        C.add("keys/values/items", "DViews", f"{pit(list(d.items()))} {lit.lst([pk(k) for k in d.keys()])} {zl(list(d.values()))}",
              d=list(d.items()))
        for k in (rkey(), rkey()):
            C.add("d[k], k in d", "DGet", f"{pit(list(d.items()))} {pk(k)} {res(attempt(lambda: d[k]), lit.z)} {lit.boolean(k in d)}",
                  d=list(d.items()), k=k)
        d3 = dict(d)
        d3.clear()
        C.add("d.clear()", "DClear", f"{pit(list(d.items()))} {pit(list(d3.items()))}", d=list(d.items()))
        # triples
        rt = lambda: (rng.randint(0, 1), rng.randint(0, 1), rng.randint(0, 2))     # noqa: E731
        tops = [(rt(), rng.randint(-3, 3)) for _k in range(rng.choice([0, 1, 3, 6]))]
        td = {}
        for k, v in tops:
            td[k] = v
        C.add("d[(a,b,c)]=v", "DTBuild", f"{tit(tops)} {tit(list(td.items()))}", ops=tops)
        k = rt()
        C.add("d[(a,b,c)]", "DTGet", f"{tit(list(td.items()))} {tk(k)} {res(attempt(lambda: td[k]), lit.z)}", d=list(td.items()), k=k)
        # strings
        rs = lambda: rng.choice(["size", "density", "a", "", "ab", "b"])             # noqa: E731
        sops = [(rs(), rng.randint(-3, 3)) for _k in range(rng.choice([0, 1, 3, 6]))]
        sd = {}
        for k, v in sops:
            sd[k] = v
        C.add("d[str]=v", "DSBuild", f"{sit(sops)} {sit(list(sd.items()))}", ops=sops)
        k = rs()
        C.add("d[str]", "DSGet", f"{sit(list(sd.items()))} {codes(k)} {res(attempt(lambda: sd[k]), lit.z)}", d=list(sd.items()), k=k)
        # int keys: the candidate dict of the path heuristic
        kv = {}
        for _k in range(rng.choice([0, 1, 2, 4, 5])):
            kv[rng.randint(0, 5)] = rng.randint(-2, 2)        # ties between values are frequent
        kvl = pairl(list(kv.items()), lit.nat, lit.z)
        k = rng.randint(0, 5)
        C.add("d[int]", "DKvGet", f"{kvl} {lit.nat(k)} {res(attempt(lambda: kv[k]), lit.z)}", d=list(kv.items()), k=k)
        C.add("min(d, key=d.get)", "DKvMin",
              f"{kvl} {res(attempt(lambda: min(kv, key=kv.get)), lit.nat)} {nl(list(kv.keys()))} {zl(list(kv.values()))} {lit.boolean(bool(kv))}",
              d=list(kv.items()))
        # 3-d integer array: -np.ones(shape, dtype=int), item assignments inside the shape, reads with natural indices
        shape = (rng.randint(0, 2), rng.randint(1, 2), rng.randint(1, 3))
        a = -np.ones(shape, dtype=int)
        aops = []
        if shape[0]:
            for _k in range(rng.choice([0, 2, 4])):
                kk = tuple(rng.randrange(s) for s in shape)
                vv = rng.randint(0, 9)
                a[kk] = vv
                aops.append((kk, vv))
        qs = [tuple(rng.randint(0, s) for s in shape) for _k in range(4)]
        exp = [attempt(lambda q=q: int(a[q])) for q in qs]
        C.add("nd3 a[v,s,n]", "DNd3", f"{tk(shape)} {tit(aops)} {lit.lst([tk(q) for q in qs])} {lit.lst([res(r, lit.z) for r in exp])}",
              shape=shape, ops=aops, qs=qs)
    return C.items


# ---------------------------------------------------------------- group: sorting
def ext_lit(x):
    return lit.ext(x)


def gen_sorting(rng):
    import numpy as np
    C = Cases("sorting")
    for _ in range(14):
        # rows as both get_routes build them: tuples of small ints with many ties -- or None entries
        w = rng.choice([2, 3, 4])
        n = rng.choice([0, 1, 2, 3, 5, 6])
        rows = [tuple(rng.randint(0, 2) for _k in range(w)) for _i in range(n)]
        kind = rng.choice(["rows", "rows", "rows", "rows", "none", "mixed"])
        if kind == "none" and n:
            rows = [None] * n
        if kind == "mixed" and n >= 2:
            rows[rng.randrange(n)] = None

        def pipeline():
            return [int(k) for k in np.lexsort(np.flip(np.array(rows), -1).T)]
        rl = lit.lst([lit.opt(r, lambda t: zl(list(t))) for r in rows])
        C.add("np.lexsort(np.flip(np.array(rows),-1).T)", "SPipeline", f"{rl} {res(attempt(pipeline), nl)}", rows=rows)
        nk, m = rng.choice([1, 2, 3]), rng.choice([0, 1, 2, 4, 6])
        keys = [[rng.randint(0, 2) for _k in range(m)] for _i in range(nk)]
        C.add("np.lexsort(keys)", "SLexKeys", f"{zll(keys)} {nl([int(k) for k in np.lexsort(np.array(keys, dtype=int).reshape(nk, m))])}", keys=keys)
        r2, c2 = rng.randint(1, 3), rng.randint(1, 3)
        A = np.array([[rng.randint(-3, 3) for _k in range(c2)] for _i in range(r2)], dtype=int)
        tol = lambda X: [exl(r) for r in X]                         # noqa: E731
        C.add("np.flip / .T", "SFlipT", f"{zll(tol(A))} {zll(tol(np.flip(A, 0)))} {zll(tol(np.flip(A, -1)))} {zll(tol(A.T))}", A=tol(A))
        l = small(rng, maxlen=7, lo=-3, hi=3)
        ls = list(l)
        ls.sort()
        assert exl(np.sort(np.array(l, dtype=int))) == ls
        C.add("np.sort / np.unique / sorted(set)", "SSort",
              f"{zl(l)} {zl(ls)} {zl(exl(np.unique(np.array(l, dtype=int))))} {zl(sorted(set(float(x) for x in l)))}", l=l)
        pl = [(i, rng.randint(0, 2)) for i in range(rng.choice([0, 1, 3, 5, 6]))]
        rng.shuffle(pl)
        ps = list(pl)
        ps.sort(key=lambda p: p[1])
        C.add("l.sort(key=) stable", "SSortKey", f"{pairl(pl, lit.nat, lit.z)} {pairl(ps, lit.nat, lit.z)}", l=pl)
        el = [(i, rng.choice([0, 1, 2, INF, INF])) for i in range(rng.choice([0, 1, 3, 5, 6]))]
        rng.shuffle(el)
        es = list(el)
        es.sort(key=lambda p: float(p[1]))
        C.add("l.sort(key=) with inf", "SSortKeyExt", f"{pairl(el, lit.nat, ext_lit)} {pairl(es, lit.nat, ext_lit)}", l=el)
        # used domain of np_argmax_bool: a non-empty array (the code tests any() first; np.argmax([]) raises)
        bs = [rng.random() < 0.4 for _k in range(rng.randint(1, 5))]
        C.add("np.argmax(bools)", "SArgmax", f"{bl(bs)} {lit.nat(int(np.argmax(np.array(bs, dtype=bool))))}", l=bs)
    return C.items


GENERATORS["dicts"] = gen_dicts
GENERATORS["sorting"] = gen_sorting


# ---------------------------------------------------------------- group: sparse
def obs(x):
    """A Python / numpy / scipy value as the `oval` literal of PySem.v (dense meaning of containers)."""
    import numpy as np
    from scipy import sparse
    if x is None:
        return "ONone"
    if isinstance(x, (bool, np.bool_)):
        return f"(OBool {lit.boolean(bool(x))})"
    if sparse.issparse(x):
        x = x.toarray()
    if isinstance(x, np.ndarray) and x.ndim == 2:
        return f"(OMat {zll([exl(r) for r in x])} {lit.nat(x.shape[1])})"
    if isinstance(x, np.ndarray) and x.ndim == 1:
        return f"(OVec {zl(exl(x))})"
    return f"(ONum {lit.z(exact(x))})"


def rmat(rng, r, c, lo=-3, hi=3, zero=0.4):
    return [[0 if rng.random() < zero else rng.randint(lo, hi) for _ in range(c)] for _ in range(r)]


def triples(rng, r, c, n):
    """COO triples inside an r x c shape with duplicates (also cancelling ones) and explicit zeros."""
    t = []
    for _ in range(n):
        if t and rng.random() < 0.35:
            i, j, v = rng.choice(t)
            t.append((i, j, rng.choice([v, -v, 0, 1])))
        else:
            t.append((rng.randrange(r), rng.randrange(c), rng.choice([0, 1, 1, -1, 2, -2, 3])))
    return t


def gen_sparse(rng):
    import numpy as np
    from scipy import sparse
    import scipy.sparse as sp
    C = Cases("sparse")
    tol = lambda X: [exl(r) for r in (X.toarray() if sparse.issparse(X) else np.asarray(X))]     # noqa: E731
    for _ in range(10):
        m, n = rng.randint(1, 3), rng.randint(1, 4)
        t = triples(rng, m, n, rng.choice([0, 1, 3, 5, 7]))
        vals, rows, cols = [v for _, _, v in t], [i for i, _, _ in t], [j for _, j, _ in t]
        A = sparse.coo_array((vals, (rows, cols)), shape=(m, n)) if t else sparse.coo_array((m, n))
        x = [rng.randint(-2, 2) for _ in range(n)]
        ax = exl(np.atleast_1d(A.tocsr().dot(np.array(x))))     # a ONE-ROW coo_array.dot(vector) is a 0-d scalar in this scipy
        C.add("coo_array(...).toarray() / .dot(x)", "PCooArc",
              f"{zl(vals)} {zl(rows)} {zl(cols)} {lit.pair(lit.nat(m), lit.nat(n))} {zl(x)} {zll(tol(A))} {zl(ax)}", triples=t, shape=(m, n), x=x)
        # one defect at most: unequal lengths, an index outside the shape, a None index
        rows2, cols2, vals2 = [*rows], [*cols], [*vals]
        defect = rng.choice(["none", "none", "len", "big", "neg", "None"])
        if t and defect == "len":
            rng.choice([rows2, cols2, vals2]).pop()
        if t and defect in ("big", "neg", "None"):
            tgt, dim = rng.choice([(rows2, m), (cols2, n)])
            tgt[rng.randrange(len(tgt))] = {"big": dim + rng.randint(0, 1), "neg": -1, "None": None}[defect]
        r = attempt(lambda: tol(sparse.coo_array((vals2, (rows2, cols2)), shape=(m, n))))
        ol = lambda l: lit.lst([lit.opt(v, lit.z) for v in l])           # noqa: E731
        C.add("coo_array with bad indices", "PCooSeq",
              f"{zl(vals2)} {ol(rows2)} {ol(cols2)} {lit.pair(lit.nat(m), lit.nat(n))} {res(r, zll)}",
              vals=vals2, rows=rows2, cols=cols2, shape=(m, n), defect=defect)
        # square: the loader's coo_array, nnz after eliminate_zeros, stored-entry count, sp.find, diagonal
        k = rng.randint(1, 4)
        t = triples(rng, k, k, rng.choice([0, 2, 4, 6, 8]))
        vals, rows, cols = [v for _, _, v in t], [i for i, _, _ in t], [j for _, j, _ in t]
        A = sparse.coo_array((vals, (rows, cols)), shape=(k, k)) if t else sparse.coo_array((k, k))
        E = A.tocsr()
        E.eliminate_zeros()
        C.add("coo_array square / nnz", "PCooExport",
              f"{zl(vals)} {nl(rows)} {nl(cols)} {lit.nat(k)} {zll(tol(A))} {lit.z(E.nnz)} {lit.nat(A.nnz)}", triples=t, n=k)
        q = [Fraction(v, rng.choice([1, 2, 4])) for v in vals]
        Aq = sparse.coo_array(([float(v) for v in q], (rows, cols)), shape=(k, k)) if t else sparse.coo_array((k, k))
        fr, fc, fv = sp.find(Aq)
        found = sorted((int(i), int(j), Fraction(float(v))) for i, j, v in zip(fr, fc, fv))     # sp.find: order unspecified
        dense = [[Fraction(float(v)) for v in row] for row in Aq.toarray()]
        ql = lambda l: lit.lst([lit.q(v) for v in l])                     # noqa: E731
        C.add("sp.find / diagonal", "PFind",
              f"{lit.nat(k)} {lit.lst([ql(r) for r in dense])} {lit.lst([lit.tup(lit.nat(i), lit.nat(j), lit.q(v)) for i, j, v in found])} "
              f"{ql([Fraction(float(v)) for v in Aq.tocsr().diagonal()])}", triples=list(zip(rows, cols, q)), n=k)
    for _ in range(14):
        nr, nc = rng.choice([(1, 1), (2, 2), (3, 3), (3, 3), (4, 4), (2, 3), (3, 2), (1, 3)])
        A = rmat(rng, nr, nc, zero=0.25)
        S = sparse.csr_array(np.array(A, dtype=float))
        k, c = rng.choice([-1, -1, 0, 1, -2, 2]), rng.randint(-3, 3)       # the code uses tril(k=-1), setdiag(0)
        L = sparse.lil_array(S)
        L.setdiag(c)
        S2 = S.copy()
        S2.setdiag(c)
        assert tol(L) == tol(S2)
        assert tol(c * S) == tol(S * c)
        C.add("diagonal/transpose/setdiag/tril/triu/sum/scale", "PQubo",
              f"{zll(A)} {lit.nat(nc)} {lit.z(k)} {lit.z(c)} {zl(exl(S.diagonal()))} {zll(tol(S.transpose()))} {zll(tol(L))} "
              f"{zll(tol(sp.tril(S, k=k)))} {zll(tol(sp.triu(S, k=k)))} {zl(exl(np.asarray(S.sum(0)).ravel()))} "
              f"{zl(exl(np.asarray(S.sum(1)).ravel()))} {lit.z(exact(S.sum()))} {zll(tol(c * S))} {zll(tol(-S))}", A=A, k=k, c=c)
        B = rmat(rng, nr, nc)
        T = sparse.csr_array(np.array(B, dtype=float))
        C.add("A+B / A-B", "PQubo2", f"{zll(A)} {zll(B)} {lit.nat(nc)} {zll(tol(S + T))} {zll(tol(S - T))}", A=A, B=B)
        v = np.array([rng.randint(-3, 3) for _ in range(nc)], dtype=float)
        u = np.array([rng.randint(-3, 3) for _ in range(nc)], dtype=float)
        ops = [u + v, u - v, -v, c * v, v * c, c + v, c - v, v + c, v - c]
        C.add("M.dot(v), diags, vector arithmetic", "PQuboV",
              f"{zll(A)} {zl(exl(v))} {zl(exl(u))} {lit.z(c)} {zl(exl(S.dot(v)))} {zll(tol(sp.diags(v)))} {lit.z(exact(u.dot(v)))} "
              f"{lit.z(exact(v.sum()))} {lit.lst([zl(exl(o)) for o in ops])}", A=A, v=exl(v), u=exl(u), c=c)
    return C.items + gen_sparse2(rng)


def gen_sparse2(rng):
    """The dynamically typed values of PyMat.v (get_qubo) and PyTestSet.v: a number is a Python float, a Vec a 1-d ndarray,
    a Mat a scipy sparse array (its dense ndarray where noted)."""
    import numpy as np
    from scipy import sparse
    C = Cases("sparse")

    def mk(kind, r=None, c=None):
        if kind == "num":
            return float(rng.randint(-4, 4))
        if kind == "vec":
            return np.array([rng.randint(-3, 3) for _ in range(r)], dtype=float)
        return sparse.csr_array(np.array(rmat(rng, r, c), dtype=float).reshape(r, c))

    def same(results):
        """All realisations of one operation must agree (value or exception class)."""
        lits = [res(r, obs) for r in results]
        assert all(x == lits[0] for x in lits), lits
        return lits[0]
    for _ in range(9):
        n, m = rng.randint(2, 3), rng.randint(2, 3)
        v, M, x = mk("vec", n), mk("mat", n, m), mk("num")
        C.add("M.transpose()", "PMat1", f"0%nat {obs(M)} {res(attempt(lambda: M.transpose()), obs)}", a=obs(M))
        C.add("v.transpose()", "PMat1", f"0%nat {obs(v)} {res(attempt(lambda: v.transpose()), obs)}", a=obs(v))
        C.add("sparse.diags(v)", "PMat1", f"1%nat {obs(v)} {res(attempt(lambda: sparse.diags(v)), obs)}", a=obs(v))
        C.add("sparse.diags(number)", "PMat1", f"1%nat {obs(x)} {res(attempt(lambda: sparse.diags(x)), obs)}", a=obs(x))
        for a in (x, v, M):
            C.add("-a", "PMat1", f"2%nat {obs(a)} {res(attempt(lambda: -a), obs)}", a=obs(a))
            d = a.toarray() if sparse.issparse(a) else a
            C.add("np.atleast_1d(a)", "PMat1", f"3%nat {obs(a)} {res(attempt(lambda: np.atleast_1d(d)), obs)}", a=obs(a))
            C.add("float(a)", "PMat1", f"5%nat {obs(a)} {res(attempt(lambda: float(a)), obs)}", a=obs(a))
            C.add("len(a)", "PMat1", f"6%nat {obs(a)} {res(attempt(lambda: float(len(a))), obs)}", a=obs(a))
        C.add("float(None)", "PMat1", f"5%nat ONone {res(attempt(lambda: float(None)), obs)}", a=None)
        C.add("len(None)", "PMat1", f"6%nat ONone {res(attempt(lambda: len(None)), obs)}", a=None)
        for a in (x, v):
            C.add("np.fabs(a)", "PMat1", f"4%nat {obs(a)} {same([attempt(lambda: np.fabs(a)), attempt(lambda: abs(a))])}", a=obs(a))
        C.add("a ** 2", "PMat1", f"7%nat {obs(x)} {res(attempt(lambda: x ** 2), obs)}", a=obs(x))
        C.add("a ** 3", "PMat1", f"8%nat {obs(x)} {res(attempt(lambda: x ** 3), obs)}", a=obs(x))
        # dot: inner sizes agree or not (ValueError)
        k = rng.choice([m, m, m + 1])
        N, w, u = mk("mat", k, rng.randint(1, 3)), mk("vec", k), mk("vec", rng.choice([n, n, n + 1]))
        Md, Nd = M.toarray(), N.toarray()
        C.add("M.dot(N)", "PMat2", f"0%nat {obs(M)} {obs(N)} {same([attempt(lambda: M.dot(N)), attempt(lambda: Md.dot(Nd)), attempt(lambda: np.dot(Md, Nd))])}",
              a=obs(M), b=obs(N))
        C.add("M.dot(v)", "PMat2", f"0%nat {obs(M)} {obs(w)} {same([attempt(lambda: M.dot(w)), attempt(lambda: Md.dot(w)), attempt(lambda: np.dot(Md, w))])}",
              a=obs(M), b=obs(w))
        C.add("v.dot(M) (dense M)", "PMat2", f"0%nat {obs(u)} {obs(M)} {same([attempt(lambda: u.dot(Md)), attempt(lambda: np.dot(u, Md))])}",
              a=obs(u), b=obs(M))
        C.add("u.dot(v)", "PMat2", f"0%nat {obs(u)} {obs(v)} {same([attempt(lambda: u.dot(v)), attempt(lambda: np.dot(u, v))])}", a=obs(u), b=obs(v))
        # + and -: equal shapes, or shapes that differ with no dimension of size 1 (numpy broadcasts a length-1 array where
        # py_add answers ValueError -- notes/PySem.md, finding F3)
        P = mk("mat", *rng.choice([(n, m), (n, m), (n + 1, m), (n, m + 1)]))
        y = mk("num")
        for op, f in ((1, lambda p, q: p + q), (2, lambda p, q: p - q)):
            C.add("+/- numbers", "PMat2", f"{op}%nat {obs(x)} {obs(y)} {res(attempt(lambda: f(x, y)), obs)}", a=obs(x), b=obs(y))
            C.add("+/- vectors", "PMat2", f"{op}%nat {obs(u)} {obs(v)} {res(attempt(lambda: f(u, v)), obs)}", a=obs(u), b=obs(v))
            C.add("+/- sparse matrices", "PMat2", f"{op}%nat {obs(M)} {obs(P)} {res(attempt(lambda: f(M, P)), obs)}", a=obs(M), b=obs(P))
        for a, b in ((x, y), (x, v), (v, x), (x, M), (M, x)):
            C.add("number * x", "PMat2", f"3%nat {obs(a)} {obs(b)} {res(attempt(lambda: a * b), obs)}", a=obs(a), b=obs(b))
        l = [rng.randint(-3, 3) for _ in range(rng.randint(0, 4))]
        C.add("sum(iterable)", "PSum", f"{zl(l)} {lit.z(exact(sum(float(t) for t in l)))}", l=l)
        # a COO container with its stored entries (test_feasibility): .dot(vector) at the dense meaning
        r_, c_ = rng.randint(2, 3), rng.randint(1, 3)      # (a one-row coo .dot(vector) is a 0-d scalar in this scipy: rows >= 2)
        t = triples(rng, r_, c_, rng.choice([0, 2, 4, 6]))
        A = sparse.coo_array(([float(z) for _, _, z in t], ([i for i, _, _ in t], [j for _, j, _ in t])), shape=(r_, c_)) if t \
            else sparse.coo_array((r_, c_))
        b = mk("vec", rng.choice([c_, c_, c_ + 1]))
        es = lit.lst([lit.tup(lit.nat(i), lit.nat(j), lit.z(z)) for i, j, z in t])
        C.add("coo.dot(v)", "PTDot", f"{lit.nat(r_)} {lit.nat(c_)} {es} {obs(b)} {res(attempt(lambda: A.dot(b)), obs)} "
              f"{zll([exl(row) for row in A.toarray()])}", triples=t, b=obs(b))
    return C.items


GENERATORS["sparse"] = gen_sparse


# ---------------------------------------------------------------- group: numbers
def qx(x):
    """qext literal (Mirp.v): a float that may be inf, as an exact rational."""
    return "Mirp.QInf" if isinstance(x, float) and math.isinf(x) else f"(Mirp.QFin {lit.q(Fraction(x))})"


def gen_numbers(rng):
    import numpy as np
    C = Cases("numbers")
    B = lit.boolean
    num = lambda: rng.choice([INF, INF, float(rng.randint(-3, 3)), rng.randint(-3, 3)])      # noqa: E731
    for _ in range(16):
        a, b = num(), num()
        C.add("comparisons with inf", "NCmp", f"{lit.ext(a)} {lit.ext(b)} {B(a <= b)} {B(a < b)} {B(a >= b)} {B(a > b)} {B(a == b)} {B(a != b)}", a=a, b=b)
        C.add("max/min", "NMaxMin", f"{lit.ext(a)} {lit.ext(b)} {lit.ext(max(a, b))} {lit.ext(min(a, b))}", a=a, b=b)
        z = rng.randint(-4, 4)
        C.add("inf + z, np.isinf", "NPlus", f"{lit.ext(a)} {lit.z(z)} {lit.ext(a + z)} {B(bool(np.isinf(a)))}", a=a, z=z)
        x = rng.randint(-14, 14) / 4.0
        C.add("np.ceil/np.floor/int", "NRound", f"{lit.q(Fraction(x))} {lit.z(exact(np.ceil(x)))} {lit.z(exact(np.floor(x)))} {lit.z(int(x))}", x=x)
        lo, hi = rng.randint(-3, 4), rng.randint(-3, 6)
        C.add("np.arange", "NArange", f"{lit.z(lo)} {lit.z(hi)} {zl(exl(np.arange(float(lo), float(hi)).tolist()))}", a=lo, b=hi)
        # int(text) / float(text): the formats export writes, and text both sides reject (documented domain of Export.parse_*)
        s = rng.choice(["0", "7", "007", "12", "120", str(rng.randint(0, 4000)), "", "x", "1x", "1.5", "-", "1 2", "#"])
        C.add("int(text)", "NParseInt", f"{codes(s)} {res(attempt(lambda: int(s)), lit.nat)}", s=s)
        v = rng.choice([rng.randint(-2000, 2000) / 8.0, rng.randint(-300, 300) / 100.0, 0.0, -0.001, 1234567.891])
        s = rng.choice([f"{v: .2f}", f"{v:.2f}", " " * rng.randint(0, 2) + f"{v:.2f}" + rng.choice(["", " ", "\t", "\n"]),
                        "", "abc", "1.2.3", "--1.00", "1.0x", "- 1.00", "1,00", "x.00"])
        C.add("float(text)", "NParseFloat", f"{codes(s)} {res(attempt(lambda: round(Fraction(float(s)) * 100)), lit.z)}", s=s)
        # '.2f': exactly representable ties (k + 1/8, 3/8, 5/8, 7/8 -> half-even on the digit), halves, quarters, arbitrary doubles
        k = rng.randint(-30, 30)
        x = rng.choice([k + rng.choice([0.125, 0.375, 0.625, 0.875]), k / 4.0, k / 8.0, rng.randint(-99999, 99999) / 1000.0,
                        rng.choice([0.005, 0.015, 2.675, -0.001, -0.004, -0.005, 1e-3, 0.994999, 0.995, 12345.678, -9999.995, 1e6 + 0.125]),
                        rng.uniform(-50, 50)])
        C.add("'.2f' formatting", "NFmt", f"{lit.q(Fraction(x))} {codes(f'{x: .2f}')} {codes(f'{x:.2f}')}", x=x)
        i, zz = rng.choice([0, 9, 10, 99, 100, rng.randint(0, 1500)]), rng.randint(-600, 600)
        C.add("'{:d}' / str(int)", "NFmtInt", f"{lit.nat(i)} {lit.z(zz)} {codes(f'{i:d}')} {codes(str(zz))}", i=i, z=zz)
        w, vv = rng.randint(0, 5), rng.choice([0, 1, 2, 3, 5, 8, rng.randint(0, 40)])
        C.add("format(v,'0nb')", "NFormat0b", f"{lit.nat(w)} {lit.nat(vv)} {bl([int(ch) for ch in format(vv, '0{}b'.format(w))])}", w=w, v=vv)
        # exact numbers of the MIRP code (dyadic floats; the divisor is a power of two or zero, so a / b is exact)
        qa, qb = rng.randint(-12, 12) / 4.0, rng.choice([0.0, 0.0, 1.0, -1.0, 2.0, -2.0, 0.5, 4.0, -0.25])
        q = lambda t: lit.q(Fraction(t))                                   # noqa: E731
        C.add("float comparisons / fabs / division", "NQCmp",
              f"{q(qa)} {q(qb)} {B(qa > qb)} {B(qa < qb)} {B(qa <= qb)} {B(qa >= qb)} {B(qa == qb)} {B(qa != qb)} {q(float(np.fabs(qa)))} "
              f"{res(attempt(lambda: qa / qb), q)}", a=qa, b=qb)
        e = rng.choice([INF, rng.randint(-8, 8) / 4.0])
        C.add("window end vs number", "NQExt", f"{qx(e)} {q(qa)} {B(e <= qa)} {B(e > qa)} {B(e >= qa)} {B(e == qa)} {B(e != qa)} {B(bool(np.isinf(e)))}",
              a=e, b=qa)
        l = [rng.randint(-6, 6) / 4.0 for _k in range(rng.choice([0, 1, 2, 4]))]
        C.add("min/max of a list", "NQMinMax", f"{lit.lst([q(t) for t in l])} {res(attempt(lambda: min(l)), q)} {res(attempt(lambda: max(l)), q)}", l=l)
    return C.items


# ---------------------------------------------------------------- group: truthiness
def pyv(v):
    """pyv literal of PySem.v for a Python value."""
    import numpy as np
    if v is None:
        return "PNone"
    if isinstance(v, np.bool_):
        return f"(PNpBool {lit.boolean(bool(v))})"
    if isinstance(v, bool):
        return f"(PBool {lit.boolean(v)})"
    if isinstance(v, (int, float, np.integer, np.floating)):
        return f"(PNum {lit.z(exact(v))})"
    if isinstance(v, list):
        return f"(PList {lit.nat(len(v))})"
    if isinstance(v, tuple):
        return f"(PTuple {lit.nat(len(v))})"
    if isinstance(v, dict):
        return f"(PDict {lit.nat(len(v))})"
    if isinstance(v, str):
        return f"(PStr {codes(v)})"
    return f"(PVecv {zl(exl(v))})"


def gen_truthiness(rng):
    import numpy as np
    C = Cases("truthiness")
    B = lit.boolean
    marker = object()

    def value():
        n = rng.choice([0, 0, 1, 2, 3])
        return rng.choice([None, True, False, np.True_, np.False_, 0, 1, -2, 0.0, 3.0, np.int64(0), np.int64(4), np.float64(0.0),
                           [None] * n, {str(i): None for i in range(n)}, (None,) * n, "", "ab",
                           # used domain of py_truth on arrays: length 0 or >= 2 (bool() of a ONE-element array is the truth of
                           # that element in this numpy, the model answers ValueError -- notes/PySem.md, finding F2)
                           np.array([float(rng.randint(0, 1)) for _ in range(rng.choice([0, 2, 3]))])])
    for _ in range(40):
        v = value()
        C.add("bool(v), v is None", "TTruth", f"{pyv(v)} {res(attempt(lambda: bool(v)), B)} {B(v is None)}", v=repr(v))
        if not isinstance(v, str) and not isinstance(v, tuple):
            r = attempt(lambda: (v and marker) is v), attempt(lambda: (v or marker) is v)
            C.add("and / or", "TAndOr", f"{pyv(v)} {res(r[0], B)} {res(r[1], B)}", v=repr(v))
    for v in (None, True, False, 0, 1, 2, [], {}):
        # Python's own bool singletons (a numpy bool is never `is True`; the models use py_is_bool for Python bools only)
        C.add("v is True / v is False", "TIsBool", f"{pyv(v)} {B(v is True)} {B(v is False)}", v=repr(v))
    for x in (None, 0, 1, 5):
        for k in (True, False):
            C.add("int-or-None and/or", "TIntNone", f"{lit.opt(x, lit.nat)} {B(k)} {B(bool(x and k))} {B(bool(x or k))}", x=x, k=k)
    for z in (0, 1, -3, np.int64(0), np.int64(7), 0.0, -0.0, 2.0, np.float64(0.0)):
        C.add("bool(number)", "TIntTruth", f"{lit.z(exact(z))} {B(bool(z))}", z=repr(z))
    return C.items


GENERATORS["numbers"] = gen_numbers
GENERATORS["truthiness"] = gen_truthiness


# ---------------------------------------------------------------- group: strings (the value universe of PyTestSet.v)
class Sparse:
    """Marker for a scipy container argument (only issparse looks at it)."""


def tv(x):
    """PyTestSet.tv literal of a Python / numpy value: int -> TInt, float -> number, str, list, tuple, 1-d float array,
    1-d bool array, dict with string keys."""
    import numpy as np
    T = "PyTestSet."
    if x is None:
        return T + "tnone"
    if isinstance(x, Sparse):
        return f"({T}TSparse 2%nat 2%nat [])"
    if isinstance(x, (bool, np.bool_)):
        return f"({T}tbool {lit.boolean(bool(x))})"
    if isinstance(x, (int, np.integer)):
        return f"({T}TInt {lit.z(int(x))})"
    if isinstance(x, (float, np.floating)):
        return f"({T}tnum {lit.z(exact(x))})"
    if isinstance(x, str):
        return f"({T}TStr (str_of {codes(x)}))"
    if isinstance(x, list):
        return f"({T}TList {lit.lst([tv(e) for e in x])})"
    if isinstance(x, tuple):
        return f"({T}TTuple {lit.lst([tv(e) for e in x])})"
    if isinstance(x, dict):
        return f"({T}TDict {lit.lst([lit.pair('str_of ' + codes(k), tv(v)) for k, v in x.items()])})"
    if isinstance(x, np.ndarray) and x.dtype == bool and x.ndim == 1:
        return f"({T}TBools {bl(x.tolist())})"
    if isinstance(x, np.ndarray) and x.ndim == 1:
        return f"({T}tvec {zl(exl(x))})"
    if isinstance(x, np.ndarray) and x.ndim == 2:
        return f"({T}tmat {zll([exl(r) for r in x])} {lit.nat(x.shape[1])})"
    raise TypeError(f"no tv literal for {x!r}")


XOPS = {0: "str.split(sep)", 1: "sep.join(l)", 2: "os.path.join", 3: "os.path.splitext", 4: "len", 5: "list(x)", 6: "zip",
        7: "a, b = x", 8: "a, b, c = x", 9: "==", 10: "!=", 11: "sum", 12: ".item(0)", 13: "+", 14: "-", 15: "*", 16: "unary -",
        17: "x[k]", 18: "int(x)", 19: "sparse.issparse", 20: "<", 21: "<=", 22: ">", 23: ">=", 24: "str in list", 25: "str.split()"}


def gen_strings(rng):
    import os
    import numpy as np
    from scipy import sparse
    C = Cases("strings")

    def add(op, f, *args):
        C.add(XOPS[op], "XOp", f"{lit.nat(op)} {lit.lst([tv(a) for a in args])} {res(attempt(lambda: f(*args)), tv)}",
              args=[repr(a) for a in args])
    word = lambda: "".join(rng.choice("ab_. /") for _ in range(rng.randint(0, 5)))          # noqa: E731
    vec = lambda n: np.array([float(rng.randint(-2, 2)) for _ in range(n)])                 # noqa: E731
    for _ in range(6):
        s, sep = word(), rng.choice(["_", ".", " ", "/", ""])
        add(0, lambda a, b: a.split(b), s, sep)
        add(25, lambda a: a.split(), rng.choice([s, " " + s + "\t", "1 2  3.50\n"]))
        parts = [word() for _ in range(rng.randint(0, 3))]
        add(1, lambda a, b: a.join(b), sep, rng.choice([parts, tuple(parts)]))
        add(1, lambda a, b: a.join(b), sep, parts + [3])                                       # a non-string item: TypeError
        add(2, os.path.join, rng.choice(["", "dir", "dir/", "/abs", "a/b"]), rng.choice(["f.txt", "/x", "", "sub/f"]))
        # documented domain of path_splitext: a file name without directory part that does not start with '.'
        add(3, os.path.splitext, rng.choice(["f.txt", "f", "a.b.c", "name.", "x" + word().replace("/", "").replace(" ", "")]))
        n = rng.randint(0, 3)
        things = [s, parts, tuple(parts), {w: 1 for w in parts}, vec(n), vec(n) > 0]
        for x in things:
            add(4, len, x)
            add(5, list, x)
        add(4, len, rng.choice([3, 2.0, None, True]))
        add(5, list, rng.choice([3, 2.0, None, True]))
        add(6, lambda a, b: list(zip(a, b)), rng.choice(things[:3] + [vec(2)]), rng.choice([parts, vec(3), "xy"]))
        for k, op in ((2, 7), (3, 8)):
            x = rng.choice([tuple(range(rng.randint(1, 4))), list(range(rng.randint(1, 4))), vec(rng.randint(1, 4)), 5])
            add(op, lambda a: list(a), x) if (hasattr(x, "__len__") and len(x) == k) else \
                add(op, (lambda a, k=k: (lambda *t: list(t))(*_unpack(a, k))), x)
        # == / != : numbers, strings, arrays with numpy's broadcasting of a length-1 operand; other lengths: ValueError
        u, v = vec(rng.choice([1, 2, 3])), vec(rng.choice([1, 2, 3]))
        for a, b in ((u, v), (rng.randint(0, 2), rng.randint(0, 2)), (rng.randint(0, 2), float(rng.randint(0, 2))), (word(), word()), (s, s)):
            add(9, lambda p, q: p == q, a, b)
            add(10, lambda p, q: p != q, a, b)
        add(11, sum, vec(n) > 0)
        # sum() of an EMPTY float array is the int 0 in Python (the start value); t_sum answers the float-kind number 0 --
        # notes/PySem.md, finding F4; the code sums boolean arrays
        add(11, sum, vec(max(n, 1)))
        for x in (vec(n), vec(n) > 0, np.float64(rng.randint(-3, 3)), np.array([[float(rng.randint(0, 3))] * rng.randint(1, 2)] * rng.randint(1, 2))):
            add(12, lambda a: a.item(0), x)
        i1, i2, f1 = rng.randint(-4, 4), rng.randint(-4, 4), float(rng.randint(-4, 4))
        u, v = vec(3), vec(rng.choice([3, 3, 2]))
        # number +/- array is not modelled by t_add / t_sub (Err OtherError, fail closed): not generated
        for a, b in ((i1, i2), (i1, f1), (f1, i2), (f1, float(i2)), (u, v)):
            add(13, lambda p, q: p + q, a, b)
            add(14, lambda p, q: p - q, a, b)
        for a, b in ((i1, i2), (i1, f1), (f1, i2), (i1, u), (u, f1)):
            add(15, lambda p, q: p * q, a, b)
        add(13, lambda p, q: p + q, s, word())
        add(13, lambda p, q: p + q, s, f1)
        for a in (i1, f1, u):
            add(16, lambda p: -p, a)
        seq = rng.choice([parts, tuple(parts), s])
        add(17, lambda a, k: a[k], seq, rng.randint(-4, 4))
        d = {w: i for i, w in enumerate(parts)}
        add(17, lambda a, k: a[k], d, rng.choice(parts + ["zz"]))
        for x in (f1, i1, True, np.bool_(False)):
            add(18, int, x)
        for x in (Sparse(), u, i1, s, parts, None):
            C.add(XOPS[19], "XOp", f"19%nat {lit.lst([tv(x)])} (Ok {tv(sparse.issparse(sparse.csr_array((2, 2)) if isinstance(x, Sparse) else x))})", x=repr(x))
        for op, f in ((20, lambda p, q: p < q), (21, lambda p, q: p <= q), (22, lambda p, q: p > q), (23, lambda p, q: p >= q)):
            add(op, f, rng.choice([i1, f1]), rng.choice([i2, float(i2)]))
        add(24, lambda a, l: a in l, rng.choice(parts + ["q"]), parts)
    return C.items


def _unpack(a, k):
    if k == 2:
        p, q = a
        return p, q
    p, q, r = a
    return p, q, r


GENERATORS["strings"] = gen_strings
