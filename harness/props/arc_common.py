"""Shared pieces of the arc-based checks (C05, C18-arc): instance generators, the driver of the real
ArcBasedRoutingProblem, Gallina literals of Arc.v, and oracles that are independent of the code."""
import itertools
import math

from vq import lit
from vq.core import exc_cls

HEADER = "From VQ Require Import Base Vrptw Arc.\nOpen Scope nat_scope."   # nat_scope on top: core.py parses the printed `(k, [tags])` pairs without %nat
INF = float("inf")
NAMES = ["D", "a", "b", "c", "d"]
CODE = {n: 10 + i for i, n in enumerate(NAMES)}


# ---------------------------------------------------------------- instances
def gen_instance(rng, ncust=None, kind=None, pos_cc=None, depot_self=None, max_t=8):
    """A description of an instance: nodes (name, demand, lo, hi) in insertion order, the depot name,
    arcs (origin, destination, travel time, cost) in insertion order, grid (list of ints, any order)."""
    if ncust is None:
        ncust = rng.choice([1, 1, 2, 2, 2, 3, 3, 4])
    cust = NAMES[1:1 + ncust]
    if rng.random() < 0.7:
        dwin = (0, INF)
    else:
        lo = rng.randint(0, 2)
        dwin = (lo, rng.randint(lo + 2, max_t))
    nodes = [("D", 0, dwin[0], dwin[1])]
    for c in cust:
        lo = rng.randint(0, max_t)
        hi = INF if rng.random() < 0.1 else rng.randint(lo, max_t)
        nodes.append((c, rng.randint(1, 3), lo, hi))
    order = list(nodes)
    late_depot = rng.random() < 0.25
    if late_depot:
        rng.shuffle(order)
    if pos_cc is None:
        pos_cc = rng.random() < 0.6
    if depot_self is None:
        depot_self = rng.random() < 0.3
    dens = rng.uniform(0.2, 1.0)
    arcs = []
    allnames = ["D"] + cust
    pairs = [(o, d) for o in allnames for d in allnames if o != d]
    rng.shuffle(pairs)
    for (o, d) in pairs:
        if rng.random() < dens or "D" in (o, d) and rng.random() < 0.5:
            cc = o != "D" and d != "D"
            tt = rng.randint(1, 3) if (cc and pos_cc) else rng.choice([0, 0, 1, 1, 2, 3])
            arcs.append((o, d, tt, rng.randint(-2, 9)))
    if depot_self:
        arcs.insert(rng.randint(0, len(arcs)), ("D", "D", rng.choice([0, 0, 1, 2]), rng.randint(0, 4)))
    if not pos_cc and rng.random() < 0.3 and cust:
        c = rng.choice(cust)
        arcs.insert(rng.randint(0, len(arcs)), (c, c, rng.choice([0, 1]), rng.randint(0, 4)))
    if arcs and rng.random() < 0.1:          # the same key twice: the value is overwritten in place
        o, d, _, _ = rng.choice(arcs)
        arcs.append((o, d, rng.randint(0, 3) if not (pos_cc and o != "D" and d != "D") else rng.randint(1, 3),
                     rng.randint(-2, 9)))
    grid = gen_grid(rng, nodes, kind, max_t)
    return {"nodes": order, "depot": "D", "arcs": arcs, "grid": grid, "pos_cc": pos_cc,
            "depot_last": bool(late_depot and len(arcs) % 2 == 0)}


def shift_instance(inst, t0):
    """The same instance with the clock origin moved by t0 (every finite window bound and grid point + t0).  Admissibility
    of a move is invariant under this translation, but a comparison with a RELATIVE tolerance is not."""
    out = dict(inst)
    out["nodes"] = [(nm, dem, lo + t0, hi if hi == INF else hi + t0) for (nm, dem, lo, hi) in inst["nodes"]]
    out["grid"] = [t + t0 for t in inst["grid"]]
    out["shift"] = t0
    return out


def gen_grid(rng, nodes, kind=None, max_t=8):
    if kind is None:
        kind = rng.choice(["ends", "ends", "random", "random", "sparse", "complete", "miss"])
    pts = set()
    finite = [x for n in nodes for x in (n[2], n[3]) if x != INF]
    if kind == "ends":                       # window starts/ends exactly on grid points
        pts.update(rng.sample(finite, min(len(finite), rng.randint(2, 5))))
        pts.update(rng.sample(range(0, max_t + 2), rng.randint(0, 3)))
    elif kind == "random":
        pts.update(rng.sample(range(0, max_t + 2), rng.randint(2, 6)))
    elif kind == "sparse":
        pts.update(rng.sample(range(0, max_t + 2), rng.randint(1, 2)))
    elif kind == "complete":
        pts.update(range(0, rng.randint(3, 6)))
    else:                                    # some customer's window contains no grid point
        victim = rng.choice(nodes[1:]) if len(nodes) > 1 else nodes[0]
        cand = [t for t in range(0, max_t + 2) if not (victim[2] <= t <= victim[3])]
        pts.update(rng.sample(cand, min(len(cand), rng.randint(1, 4))))
        if not pts:
            pts.add(max_t + 1)
    grid = sorted(pts)
    o = rng.random()
    if o < 0.4:
        rng.shuffle(grid)
    elif o < 0.6:
        grid.reverse()
    return grid


def build(inst):
    """The real object, built through the public API."""
    from vrpqubo.routing_problem.formulations.arc_based_rp import ArcBasedRoutingProblem
    p = ArcBasedRoutingProblem()
    for (nm, dem, lo, hi) in inst["nodes"]:
        p.add_node(nm, dem, (lo, hi))
    if inst.get("depot_last"):
        # the depot is chosen AFTER the arcs exist (it was not the first node added): set_depot has to re-file the arcs
        for (o, d, tt, cost) in inst["arcs"]:
            p.add_arc(o, d, tt, cost)
        p.set_depot(inst["depot"])
    else:
        p.set_depot(inst["depot"])
        for (o, d, tt, cost) in inst["arcs"]:
            p.add_arc(o, d, tt, cost)
    give_time_points(p, inst["grid"], len(inst["arcs"]) + len(inst["grid"]))
    return p


def give_time_points(p, grid, selector):
    """Hand the grid to add_time_points in one of the containers a caller may use (list, tuple, float64 / int64 ndarray;
    chosen deterministically from the instance).  An array argument is afterwards compared with what was passed (the call
    must not reorder the caller's data: `p.vq_grid_modified`) and then overwritten by the caller (buffer re-use): the object
    must keep the grid it was given."""
    import numpy as np
    grid = list(grid)
    k = selector % 4
    p.vq_grid_modified = None
    if k == 0:
        p.add_time_points(list(grid))
    elif k == 1:
        p.add_time_points(tuple(grid))
    else:
        integral = all(float(t) == int(t) for t in grid)
        arr = np.array(grid, dtype=np.int64 if (k == 3 and integral) else float)
        before = arr.copy()
        p.add_time_points(arr)
        if not np.array_equal(arr, before):
            p.vq_grid_modified = f"add_time_points reordered / changed the caller's array {before.tolist()} into {arr.tolist()}"
        arr *= 0          # the caller re-uses its buffer
        arr += 977


def described_graph(inst):
    """The graph the description specifies, independently of the code: node order after the depot is moved to the front,
    and the arcs that pass the base timing rule (origin window start + travel time <= destination window end), filed under
    the positions of their own endpoints; a pair given twice is overwritten in place."""
    nodes = [n for n in inst["nodes"] if n[0] == inst["depot"]] + [n for n in inst["nodes"] if n[0] != inst["depot"]]
    pos = {n[0]: i for i, n in enumerate(nodes)}
    win = {n[0]: (n[2], n[3]) for n in nodes}
    arcs = {}
    for (o, d, tt, cost) in inst["arcs"]:
        if win[o][0] + tt <= win[d][1]:
            arcs[(pos[o], pos[d])] = (o, d, tt, cost)
    return [n[0] for n in nodes], arcs


def graph_problem(inst, snap):
    """None if the object's graph (snapshot) is the described one, else a message."""
    names, arcs = described_graph(inst)
    if list(snap[0]) != names:
        return f"node order {list(snap[0])} differs from the described one {names}"
    got = {k: tuple(v) for k, v in snap[2]}
    for k, v in arcs.items():
        if k not in got:
            return f"described arc {v[0]}->{v[1]} is not filed under {k} (the object has {sorted(got)})"
        if tuple(got[k]) != tuple(v):
            return f"arc under key {k} is {got[k]}, the description says {v}"
    for k in got:
        if k not in arcs:
            return f"the object holds an arc under {k} ({got[k]}) that the description does not give"
    return None


def snapshot(p):
    """Graph data read off the real object (positions, windows, arcs in dict order)."""
    nodes = [(n.name, n.demand, n.time_window[0], n.time_window[1]) for n in p.nodes]
    arcs = [((i, j), (a.origin.name, a.destination.name, a.travel_time, a.cost)) for (i, j), a in p.arcs.items()]
    return list(p.node_names), nodes, arcs


def tup_py(v):
    return (int(v[0]), lit.exact_int(v[1]), int(v[2]), lit.exact_int(v[3]))


# ---------------------------------------------------------------- literals
def graph_lit(snap):
    names, nodes, arcs = snap
    n = lit.lst([lit.nat(CODE[x]) for x in names])
    nd = lit.lst([f"mkNode {lit.nat(CODE[a])} {lit.z(b)} {lit.z(c)} {lit.ext(d)}" for a, b, c, d in nodes])
    ar = lit.lst([lit.pair(lit.pair(lit.nat(k[0]), lit.nat(k[1])),
                           f"mkArc {lit.nat(CODE[v[0]])} {lit.nat(CODE[v[1]])} {lit.z(v[2])} {lit.z(v[3])}")
                  for k, v in arcs])
    return f"(mkGraph {n} {nd} {ar})"


def zlist(xs):
    return lit.lst([lit.z(x) for x in xs])


def var_lit(v):
    return lit.tup(lit.nat(v[0]), lit.z(v[1]), lit.nat(v[2]), lit.z(v[3]))


def inst_lit(snap, grid):
    return f"(mkInst {graph_lit(snap)} {zlist(grid)})"


# ---------------------------------------------------------------- independent oracles
def admissible(snap, grid, v):
    """The property's own definition of an admissible decision tuple."""
    _, nodes, arcs = snap
    i, s, j, t = v
    d = dict(arcs)
    if (i, j) not in d:
        return False
    if s not in grid or t not in grid:
        return False
    if not (nodes[i][2] <= s <= nodes[i][3]):
        return False
    if not (nodes[j][2] <= t <= nodes[j][3]):
        return False
    return s + d[(i, j)][2] <= t


def decompose(snap, grid, sel):
    """Independent route decomposition of a set of selected tuples.  Returns the list of routes (each a
    list of moves, depot to depot, interior nodes customers, every customer exactly once overall, every
    selected move used exactly once) sorted by first move, or None if there is none."""
    _, nodes, _ = snap
    ncust = len(nodes) - 1
    for v in sel:
        if not admissible(snap, grid, v):
            return None
    remaining = sorted(sel)
    if len(set(remaining)) != len(remaining):
        return None
    starts = [v for v in remaining if v[0] == 0]
    routes = []
    seen = []
    for m in starts:
        if m not in remaining:
            return None
        remaining.remove(m)
        r = [m]
        cur = (m[2], m[3])
        while cur[0] != 0:
            seen.append(cur[0])
            if len(seen) > ncust:
                return None
            nxt = [v for v in remaining if (v[0], v[1]) == cur]
            if not nxt:
                return None
            remaining.remove(nxt[0])
            r.append(nxt[0])
            cur = (nxt[0][2], nxt[0][3])
        routes.append(r)
    if remaining:
        return None
    if sorted(seen) != list(range(1, ncust + 1)):
        return None
    return sorted(routes)


def moves_of(route):
    return [(route[k][0], route[k][1], route[k + 1][0], route[k + 1][1]) for k in range(len(route) - 1)]


def split_at_depot(route):
    """Cut a decoded (node, time) walk at interior depot visits."""
    out = []
    cur = [route[0]]
    for p in route[1:]:
        cur.append(p)
        if p[0] == 0:
            out.append(cur)
            cur = [p]
    if len(cur) > 1:
        out.append(cur)
    return out


def check_decoded(snap, grid, sel, decoded):
    """Property-level check of get_routes' result against the independent decomposition."""
    routes = decompose(snap, grid, sel)
    if routes is None:
        return "decoded a vector whose selection has no route decomposition"
    if any(len(r) < 2 for r in decoded):
        return f"decoded route with fewer than two stops: {decoded}"
    for r in decoded:
        if r[0][0] != 0 or r[-1][0] != 0:
            return f"decoded route does not start and end at the depot: {r}"
    used = sorted(m for r in decoded for m in moves_of(r))
    if used != sorted(sel):
        return f"moves of the decoded routes {used} are not the selected moves {sorted(sel)}"
    pieces = sorted(moves_of(q) for r in decoded for q in split_at_depot(r))
    if pieces != routes:
        return f"decoded routes {decoded} differ from the route decomposition {routes}"
    # (the order in which the routes are listed is not part of the property; it is compared with the model)
    return None


def all_binary(n):
    """All 0/1 vectors of length n as rows of an int64 matrix (2^n x n)."""
    import numpy as np
    if n == 0:
        return np.zeros((1, 0), dtype=np.int64)
    k = np.arange(2 ** n, dtype=np.int64)
    return ((k[:, None] >> np.arange(n, dtype=np.int64)[None, :]) & 1).astype(np.int64)


def dense_int(A):
    """Dense exact integer matrix of a scipy sparse / ndarray constraint matrix."""
    import numpy as np
    M = A.toarray() if hasattr(A, "toarray") else np.asarray(A)
    return [[lit.exact_int(x) for x in row] for row in M]


def parse_names(names):
    out = []
    for s in names:
        if s.startswith("cflow_"):
            a, b = s[len("cflow_"):].split(",")
            out.append(f"(CFlow {lit.nat(int(a))} {lit.nat(int(b))})")
        elif s.startswith("cnode"):
            out.append(f"(CNode {lit.nat(int(s[5:]))})")
        else:
            raise ValueError(s)
    return out


def routes_py(rs):
    return [[(int(a), lit.exact_int(b)) for a, b in r] for r in rs]


def routes_lit(rs):
    return lit.lst([lit.lst([lit.pair(lit.nat(a), lit.z(b)) for a, b in r]) for r in rs])


def run_decode(p, x):
    import numpy as np
    try:
        return ("ok", routes_py(p.get_routes(np.array(x))))
    except Exception as e:  # noqa
        return ("err", exc_cls(e))


def decode_lit(x, res):
    r = lit.ok(routes_lit(res[1])) if res[0] == "ok" else lit.err(res[1])
    return lit.pair(zlist(x), r)


def describe(inst):
    d = {"nodes": [list(n) for n in inst["nodes"]], "depot": inst["depot"],
         "arcs": [list(a) for a in inst["arcs"]], "grid": list(inst["grid"])}
    if inst.get("lookup_first"):
        d["lookup_first"] = True
    if inst.get("rebuild"):
        d["rebuild"] = [inst["rebuild"][0], list(inst["rebuild"][1]) if isinstance(inst["rebuild"][1], (list, tuple))
                        else inst["rebuild"][1]]
    return d


def shrink_instance(inst, fails):
    """Greedy shrinking: drop arcs, grid points, customers while `fails(inst)` stays true."""
    cur = dict(inst)
    changed = True
    while changed:
        changed = False
        for key in ("arcs", "grid"):
            for k in range(len(cur[key])):
                cand = dict(cur)
                cand[key] = cur[key][:k] + cur[key][k + 1:]
                try:
                    if fails(cand):
                        cur = cand
                        changed = True
                        break
                except Exception:  # noqa
                    pass
            if changed:
                break
        if changed:
            continue
        for k in range(len(cur["nodes"])):
            nm = cur["nodes"][k][0]
            if nm == cur["depot"]:
                continue
            cand = dict(cur)
            cand["nodes"] = cur["nodes"][:k] + cur["nodes"][k + 1:]
            cand["arcs"] = [a for a in cur["arcs"] if nm not in (a[0], a[1])]
            try:
                if fails(cand):
                    cur = cand
                    changed = True
                    break
            except Exception:  # noqa
                pass
    return cur


def gen_feasible(rng, max_vars_hint=14):
    """An instance built around a random timed route plan, so that it has feasible vectors: customers are
    split into routes, service times increase along each route, windows contain the service times and the
    grid contains them plus a few other points.  Few extra arcs keep the number of variables small."""
    ncust = rng.choice([1, 2, 2, 3, 3])
    cust = NAMES[1:1 + ncust]
    order = list(cust)
    rng.shuffle(order)
    routes = []
    while order:
        k = rng.randint(1, len(order))
        routes.append(order[:k])
        order = order[k:]
    times = set()
    nodes = {"D": ("D", 0, 0, INF if rng.random() < 0.7 else 9)}
    arcs = {}
    for r in routes:
        t = rng.randint(0, 2)
        times.add(t)
        prev = "D"
        for c in r + ["D"]:
            tt = rng.randint(1, 2) if (prev != "D" and c != "D") else rng.randint(0, 2)
            wait = rng.choice([0, 0, 1])
            t2 = t + tt + wait
            arcs[(prev, c)] = (prev, c, tt, rng.randint(0, 6))
            if c != "D":
                lo = t2 - rng.choice([0, 0, 1])
                hi = t2 + rng.choice([0, 0, 1])
                nodes[c] = (c, 1, max(0, lo), hi)
            times.add(t2)
            prev, t = c, t2
    names = ["D"] + cust
    for _ in range(rng.randint(0, 2)):
        o, d = rng.choice(names), rng.choice(names)
        if (o, d) not in arcs and (o != d or o == "D"):
            cc = o != "D" and d != "D"
            arcs[(o, d)] = (o, d, rng.randint(1, 2) if cc else rng.randint(0, 2), rng.randint(0, 6))
    grid = sorted(times)
    if len(grid) < 5 and rng.random() < 0.5:
        extra = [t for t in range(0, max(grid) + 2) if t not in grid]
        if extra:
            grid.append(rng.choice(extra))
    o = rng.random()
    if o < 0.5:
        rng.shuffle(grid)
    elif o < 0.7:
        grid = sorted(grid, reverse=True)
    alist = list(arcs.values())
    rng.shuffle(alist)
    nlist = [nodes[n] for n in names]
    return {"nodes": nlist, "depot": "D", "arcs": alist, "grid": grid, "pos_cc": True}


def routes_valid(rp, x, require_routes=True):
    """Independent validity check of a vector on a real ArcBasedRoutingProblem `rp` (pure Python; it reads
    only the graph data, the time grid and var_mapping, never the constraint matrix).

    Returns (True, "") iff x is a 0/1 vector of the right length whose selected tuples (i,s,j,t)
      * use existing arcs, with s and t grid times inside the windows of i and j and s + travel time <= t,
      * balance at every non-depot (node, time): as many selected moves arrive as leave,
      * enter every customer exactly once (and therefore leave it exactly once),
      * and (require_routes) split into depot-to-depot routes that use every selected move exactly once
        (this excludes closed customer cycles, which only exist with zero travel times).
    Otherwise (False, reason)."""
    rp.get_num_variables()
    nodes = [(float(n.time_window[0]), float(n.time_window[1])) for n in rp.nodes]
    arcs = {(int(i), int(j)): float(a.travel_time) for (i, j), a in rp.arcs.items()}
    grid = [float(t) for t in rp.time_points]
    vm = [(int(v[0]), float(v[1]), int(v[2]), float(v[3])) for v in rp.var_mapping]
    xs = [float(q) for q in x]
    if len(xs) != len(vm):
        return False, f"vector has length {len(xs)}, the model has {len(vm)} variables"
    if any(q not in (0.0, 1.0) for q in xs):
        return False, "vector is not binary"
    sel = [v for v, q in zip(vm, xs) if q == 1.0]
    for (i, s, j, t) in sel:
        if (i, j) not in arcs:
            return False, f"selected move {(i, s, j, t)} uses a non-existing arc"
        if s not in grid or t not in grid:
            return False, f"selected move {(i, s, j, t)} uses a time that is not on the grid"
        if not (nodes[i][0] <= s <= nodes[i][1]) or not (nodes[j][0] <= t <= nodes[j][1]):
            return False, f"selected move {(i, s, j, t)} violates a time window"
        if not s + arcs[(i, j)] <= t:
            return False, f"selected move {(i, s, j, t)} arrives before departure + travel time"
    ncust = len(nodes) - 1
    for j in range(1, ncust + 1):
        ins = [v for v in sel if v[2] == j]
        outs = [v for v in sel if v[0] == j]
        if len(ins) != 1:
            return False, f"customer {j} is entered {len(ins)} times"
        for t in sorted(set([v[3] for v in ins] + [v[1] for v in outs])):
            a = sum(1 for v in ins if v[3] == t)
            b = sum(1 for v in outs if v[1] == t)
            if a != b:
                return False, f"flow is not balanced at node {j}, time {t}: {a} in, {b} out"
    if require_routes:
        remaining = sorted(sel)
        seen = []
        for m in [v for v in remaining if v[0] == 0]:
            remaining.remove(m)
            cur = (m[2], m[3])
            while cur[0] != 0:
                seen.append(cur[0])
                nxt = [v for v in remaining if (v[0], v[1]) == cur]
                if not nxt:
                    return False, f"no selected move leaves {cur}"
                remaining.remove(nxt[0])
                cur = (nxt[0][2], nxt[0][3])
        if remaining:
            return False, f"selected moves {remaining} are on no depot-to-depot route"
        if sorted(seen) != list(range(1, ncust + 1)):
            return False, "the routes do not visit every customer exactly once"
    return True, ""
