"""C11 -- MIRP time windows keep every port's inventory within bounds.

Proof: coq/props/C11.v (window iff-lemmas, add_nodes characterisation, safety by a counting argument).
Translator: harness/translate_window.py regenerates the two window formulas from the source of
get_time_window into coq/gen/WindowGen.v; coq/gen/WindowGen_eq.v proves them equal to the hand model.
Generated model: harness/translate_mirp.py regenerates __init__ / add_node / add_nodes (and the arc builders) into
coq/gen/MirpGen.v; coq/genprops/C11_gen.v proves them equal to the hand model (ctx.gen_step, notes/C11_gen.md).
Tie: the real MIRP is driven with exact rationals (props/xq.py); get_time_window values and the complete
state after add_nodes are compared with the Gallina model inside Coq (Qeq).
Oracle: the property's own predicate on the implementation's nodes, formula-free: the inventory level at
the window ends, the horizon cut-off, and an exact simulation of the inventory for many admissible
service schedules (window starts, window ends, interior points, every order inside overlaps)."""
import itertools
import os
from fractions import Fraction as F

from vq import lit
from vq.core import COQ, COQ_FLAGS, GEN, sh
from props import mirp_common as mc

HEADER = mc.HEADER


# ---------------- running the implementation ----------------
def run_add_nodes(size, H, port, init, rate, cap):
    m = mc.make_mirp(size, H)
    r = mc.apply_op(m, ("nodes", port, init, rate, cap))
    return m, r, mc.snapshot(m)


def run_window(size, k, init, rate, cap):
    m = mc.make_mirp(size, 0)
    a, b = m.get_time_window(k, mc.xq(init), mc.xq(rate), mc.xq(cap))
    return mc.frac(a), mc.frac(b)


# ---------------- the property, evaluated directly ----------------
def in_quantifier(size, H, init, rate, cap):
    return size > 0 and rate != 0 and 0 <= init <= cap and size <= cap


def schedules(rng, windows, n_random):
    """Admissible service schedules: list of lists tau (one instant per visit)."""
    K = len(windows)
    out = [[a for a, b in windows], [b for a, b in windows]]
    out.append([a if k % 2 else b for k, (a, b) in enumerate(windows)])
    out.append([b if k % 2 else a for k, (a, b) in enumerate(windows)])
    for _ in range(n_random):
        out.append([a + (b - a) * F(rng.randint(0, 8), 8) for a, b in windows])
    # every service order inside a group of consecutive visits whose windows share an interval
    for start in range(K):
        for width in (2, 3, 4):
            grp = list(range(start, min(K, start + width)))
            if len(grp) < 2:
                continue
            lo = max(windows[k][0] for k in grp)
            hi = min(windows[k][1] for k in grp)
            if lo > hi:
                continue
            pts = [lo + (hi - lo) * F(i, len(grp) - 1) for i in range(len(grp))] if hi > lo else [lo] * len(grp)
            for perm in itertools.permutations(range(len(grp))):
                tau = [a + (b - a) * F(rng.randint(0, 4), 4) for a, b in windows]
                for pos, k in zip(perm, grp):
                    tau[k] = pts[pos]
                out.append(tau)
            out.append([lo if k in grp else windows[k][0] for k in range(K)])   # coinciding services
    return out


def simulate(init, rate, cap, H, demands, tau):
    """Inventory just before / after the services at every event time of [0, H]; returns a message or None."""
    events = sorted({F(0), F(H)} | {t for t in tau if 0 <= t <= H})
    for t in events:
        if not (0 <= t <= H):
            continue
        before = init + rate * t + sum(d for d, x in zip(demands, tau) if x < t)
        after = init + rate * t + sum(d for d, x in zip(demands, tau) if x <= t)
        for what, v in (("before", before), ("after", after)):
            if not (0 <= v <= cap):
                return f"inventory {what} the services at t={t} is {v}, outside [0, {cap}]"
    return None


def oracle(rng, size, H, port, init, rate, cap, n_random=6, stats=None):
    """None when the property holds for this port, else a message."""
    if not in_quantifier(size, H, init, rate, cap):
        return None
    m, r, st = run_add_nodes(size, H, port, init, rate, cap)
    if r[0] != "ok":
        return f"add_nodes raised {r[1]} on admissible data"
    names = r[1]
    nodes = st["nodes"][1:]
    if [n[0] for n in nodes] != list(names):
        return f"returned names {names} differ from the nodes added {[n[0] for n in nodes]}"
    supply = rate > 0
    K = len(nodes)
    for k, (nm, dem, a, b) in enumerate(nodes):
        if nm != f"{port}-{k}":
            return f"visit {k} is named {nm!r}"
        if dem != (-size if supply else size):
            return f"node {nm} has demand {dem}, expected {-size if supply else size}"
        if isinstance(b, float):
            return f"node {nm} has an infinite window"
        if supply:
            # opens at the first instant a (k+1)-th full cargo is available; closes when the tank is full
            if init + rate * a - (k + 1) * size != 0:
                return f"window of {nm} opens at {a}: inventory after loading would be {init + rate * a - (k + 1) * size}, not 0"
            if init + rate * b - k * size != cap:
                return f"window of {nm} closes at {b}: inventory {init + rate * b - k * size} != capacity {cap}"
        else:
            if init + rate * a + (k + 1) * size != cap:
                return f"window of {nm} opens at {a}: inventory after discharge would be {init + rate * a + (k + 1) * size}, not {cap}"
            if init + rate * b + k * size != 0:
                return f"window of {nm} closes at {b}: inventory {init + rate * b + k * size} != 0"
        if b > H:
            return f"window of {nm} ends at {b} after the horizon {H}"
    # visit K must not fit: its window would end after the horizon
    if supply:
        if not (init + rate * H - K * size < cap):
            return f"visit {K} is missing: its window ends at or before the horizon {H}"
    else:
        if not (init + rate * H + K * size > 0):
            return f"visit {K} is missing: its window ends at or before the horizon {H}"
    if st["sports"] != ([port] if supply else []) or st["dports"] != ([] if supply else [port]):
        return f"port registered as supply={st['sports']} demand={st['dports']}"
    windows = [(a, b) for _, _, a, b in nodes]
    demands = [d for _, d, _, _ in nodes]
    for tau in schedules(rng, windows, n_random):
        if stats is not None:
            stats["schedules_simulated"] += 1
        msg = simulate(init, rate, cap, H, demands, tau)
        if msg:
            return f"service instants {[str(x) for x in tau]}: {msg}"
    return None


# ---------------- generators ----------------
def close_time(size, k, init, rate, cap):
    """End of the window of visit k from the physical definition (used only to aim horizons)."""
    return (cap + k * size - init) / rate if rate > 0 else (-k * size - init) / rate


def gen_tuple(rng, idx):
    supply = idx % 2 == 0
    size = rng.choice([F(1), F(2), F(3), F(5, 2), F(3, 4), F(7, 3), F(10)])
    mode = rng.random()
    if mode < 0.2:
        cap = size                                     # cargo = tank: windows are single instants
    elif mode < 0.6:
        cap = size + rng.choice([F(1, 4), F(1, 2), F(1), F(3, 2), size / 2])
    else:
        cap = size * rng.choice([2, 3, 4]) + rng.choice([F(0), F(1, 4), F(1)])   # overlapping windows
    r = rng.random()
    if r < 0.2:
        init = F(0)
    elif r < 0.4:
        init = cap
    else:
        init = cap * F(rng.randint(0, 8), 8)
    rate = rng.choice([F(1, 4), F(1, 2), F(1), F(3, 2), F(2), F(3, 7), F(5, 3), F(47, 10)])
    if not supply:
        rate = -rate
    k0 = rng.randint(0, 6)
    c = close_time(size, k0, init, rate, cap)
    hm = rng.random()
    if hm < 0.4:
        H = c                                          # cuts exactly at a window end
    elif hm < 0.55:
        H = c - rng.choice([F(1, 1000), F(1, 4)])
    elif hm < 0.7:
        H = c + rng.choice([F(1, 1000), F(1, 4)])
    else:
        H = F(rng.randint(0, 80), 4)
        if H >= close_time(size, 8, init, rate, cap):    # keep the number of visits small (k up to 7)
            H = close_time(size, rng.randint(0, 7), init, rate, cap) + F(rng.randint(-2, 2), 8)
    kind = "valid"
    z = rng.random()
    if z < 0.06:
        cap = size - rng.choice([F(1, 4), F(1)])       # cargo exceeds the tank: ValueError / nothing
        init = min(init, max(cap, F(0)))
        kind = "size>cap"
    elif z < 0.09:
        rate = F(0)
        kind = "rate=0"
    elif z < 0.14:
        init = rng.choice([cap + 1, F(-1, 2)])         # outside [0, cap]: nodes still defined
        kind = "init-outside"
    port = rng.choice(["S1", "S2", "P", "P-0"]) if supply else rng.choice(["D1", "D2", "P", "P-0"])
    return (size, H, port, init, rate, cap), kind


def tuple_json(t):
    size, H, port, init, rate, cap = t
    return {"cargo_size": str(size), "time_horizon": str(H), "port": port, "inventory_init": str(init),
            "inventory_rate": str(rate), "inventory_cap": str(cap)}


def nodes_case_lit(t, r, st):
    size, H, port, init, rate, cap = t
    res = lit.err(r[1]) if r[0] == "err" else lit.ok(mc.names_lit(r[1]))
    return (f"CNodes {lit.q(size)} {lit.q(H)} {lit.nat(mc.PORT_CODE[port])} {lit.q(init)} {lit.q(rate)} "
            f"{lit.q(cap)} {res} {mc.sobs_lit(st)}")


def win_case_lit(size, k, init, rate, cap, w):
    return (f"CWin {lit.q(size)} {lit.nat(k)} {lit.q(init)} {lit.q(rate)} {lit.q(cap)} "
            f"({lit.q(w[0])}, {lit.q(w[1])})")


# ---------------- translator step ----------------
def translator_step(ctx):
    import translate_window as tw
    try:
        p1, p2 = tw.write_files(GEN)
    except tw.Rejected as e:
        ctx.violation("translator/rejected",
                      f"translate_window.py rejects the source of get_time_window (outside the accepted fragment): {e}; "
                      "the generated-formula obligation is not established",
                      {"step": "translate_window", "reason": str(e), "source": tw.source_path()}, False)
        return False
    ctx.cov["obligations"] += 1
    for p in (p1, p2):
        rc, out = sh(["coqc"] + COQ_FLAGS + [os.path.relpath(p, COQ)], 300, cwd=COQ)
        if rc != 0:
            ctx.violation("translator/formula-differs",
                          "the window formulas generated from the source of get_time_window are no longer provably "
                          "equal to the model Mirp.window (coq/gen/WindowGen_eq.v does not compile)",
                          {"step": os.path.basename(p), "generated": open(p1).read(), "coqc_output": out[-3000:]}, False)
            return False
    ctx.cov["discharged"] += 1
    ctx.cov["checker_cmd"] += (" && /venv/bin/python harness/translate_window.py (via bin/check) && coqc -Q theories VQ -Q props VQP "
                               "-Q gen VQG gen/WindowGen.v gen/WindowGen_eq.v")
    ctx.cov["trusted_base"].append("harness/translate_window.py (ast -> Gallina printer for + - * / and the rate-sign split)")
    return True


# ---------------- main ----------------
def run(ctx):
    ctx.prove()
    translator_step(ctx)
    import translate_mirp as TM
    ctx.gen_step("mirp", TM.translate, "C11_gen",
                 "harness/translate_mirp.py (ast -> Gallina printer for the plain-Python methods of class MIRP: __init__, "
                 "add_node, add_arc, add_nodes, add_travel_arcs, add_entry_arcs, add_exit_arcs, estimate_high_cost) and the "
                 "meaning given to its combinators in coq/theories/PyMirp.v")
    from props import pysem; pysem.run(ctx, pysem.GROUPS_FOR.get(ctx.pid, ()))
    rng = ctx.rng
    from props import c11_after
    n_after = c11_after.run_stream(ctx)      # windows are untouched by, and carried into, the formulations
    n = 300 if ctx.quick else 5000
    n_win = 120 if ctx.quick else 1500
    n_rand_sched = 6 if ctx.quick else 12

    tuples = []
    # fixed edge cases first
    fixed = [
        ((F(1), F(1), "S1", F(0), F(1), F(1)), "valid"),            # size = cap, H exactly at the end of window 0
        ((F(1), F(0), "S1", F(1), F(1), F(1)), "valid"),            # window (0,0) at horizon 0
        ((F(3), F(20), "S1", F(1), F(3, 2), F(5)), "valid"),
        ((F(1), F(6), "D1", F(5, 2), F(-1), F(5)), "valid"),        # overlapping windows
        ((F(1), F(7, 2), "D1", F(5, 2), F(-1), F(5)), "valid"),     # horizon exactly at a window end
        ((F(2), F(10), "D1", F(0), F(-1), F(2)), "valid"),          # init 0, size = cap
        ((F(2), F(10), "S1", F(3), F(1), F(3)), "valid"),           # init = cap
        ((F(3), F(10), "S1", F(0), F(1), F(2)), "size>cap"),
        ((F(3), F(-1), "S1", F(0), F(1), F(2)), "size>cap"),        # nothing attempted
        ((F(1), F(5), "D1", F(1), F(0), F(2)), "rate=0"),
    ]
    tuples.extend(fixed)
    for idx in range(n - len(fixed)):
        tuples.append(gen_tuple(rng, idx))

    dist = {"valid": 0, "size>cap": 0, "rate=0": 0, "init-outside": 0, "supply": 0, "demand": 0,
            "zero_nodes": 0, "ValueError": 0, "OtherError": 0, "horizon_at_window_end": 0,
            "overlapping_windows": 0, "size=cap": 0, "max_visits": 0, "schedules_simulated": 0}
    terms = []
    cases = []
    failures = []
    seen = set()
    for t, kind in tuples:
        size, H, port, init, rate, cap = t
        m, r, st = run_add_nodes(*t)
        dist[kind] += 1
        dist["supply" if rate > 0 else "demand"] += 1
        nn = len(st["nodes"]) - 1
        dist["max_visits"] = max(dist["max_visits"], nn)
        if r[0] == "err":
            dist[r[1]] = dist.get(r[1], 0) + 1
        elif nn == 0:
            dist["zero_nodes"] += 1
        if nn and st["nodes"][-1][3] == H:
            dist["horizon_at_window_end"] += 1
        if nn >= 2 and st["nodes"][1][3] >= st["nodes"][2][2]:
            dist["overlapping_windows"] += 1
        if size == cap:
            dist["size=cap"] += 1
        if kind == "valid":
            msg = oracle(rng, *t, n_random=n_rand_sched, stats=dist)
            if msg:
                failures.append((nn, t, msg))
        terms.append(nodes_case_lit(t, r, st))
        cases.append(("nodes", t, r, st))
        key = repr(t)
        if key not in seen and nn >= 2:
            seen.add(key)
            ctx.count(nontrivial=1)

    # get_time_window directly, k up to 6 (later visits, both branches)
    for i in range(n_win):
        (size, H, port, init, rate, cap), kind = gen_tuple(rng, i)
        if rate == 0:
            rate = F(-3, 4)
        k = rng.randint(0, 6)
        w = run_window(size, k, init, rate, cap)
        terms.append(win_case_lit(size, k, init, rate, cap, w))
        cases.append(("window", (size, k, init, rate, cap), w, None))
        # formula-free check of the two ends
        if rate > 0:
            bad = (init + rate * w[0] - (k + 1) * size != 0) or (init + rate * w[1] - k * size != cap)
        else:
            bad = (init + rate * w[0] + (k + 1) * size != cap) or (init + rate * w[1] + k * size != 0)
        if bad:
            failures.append((0, (size, F(0), f"get_time_window k={k}", init, rate, cap),
                             f"get_time_window({k}, init={init}, rate={rate}, cap={cap}) with cargo size {size} returned "
                             f"({w[0]}, {w[1]}): the inventory level at these instants is not the boundary level"))

    ctx.count(evaluations=len(tuples) + n_win, traces=len(tuples) + n_win)
    ctx.cov["input_distribution"] = dist
    ctx.cov["rule"] = ("parameter tuples (cargo size, horizon, initial inventory, rate, capacity) over rationals with denominators "
                       "1,2,3,4,7,8,10: both port kinds, horizons aimed exactly at / just before / just after the end of window k0 (k0<=6), "
                       "size = cap, init in {0, cap}, overlapping windows (cap >= 2 size), plus a malformed stream (size > cap, rate = 0, "
                       "init outside [0, cap]); non-trivial = distinct tuple producing at least two visit nodes")
    for c in cases[2:5]:
        ctx.sample({"tuple": tuple_json(c[1]), "nodes": mc.jsonable(c[3]["nodes"])})

    # several ports in ONE MIRP object (what every real build does): each port's nodes must be
    # what the same port gives on its own -- ports sharing initial inventory and rate but not the
    # capacity, or the kind, expose any state kept between add_nodes calls
    n_multi = 40 if ctx.quick else 600
    dist["multi_port_builds"] = 0
    for i in range(n_multi):
        (size, H, _p, init, rate, cap), kind = gen_tuple(rng, i)
        if kind != "valid":
            continue
        ports = [("S1" if rate > 0 else "D1", init, rate, cap),
                 ("S2" if rate > 0 else "D2", init, rate, cap + size * F(rng.randint(1, 4), 2)),
                 ("D3" if rate > 0 else "S3", init, -rate, cap)]
        rng.shuffle(ports)
        m = mc.make_mirp(size, H)
        for (pn, pi, pr, pc) in ports:
            mc.apply_op(m, ("nodes", pn, pi, pr, pc))
        shared = mc.snapshot(m)["nodes"]
        dist["multi_port_builds"] += 1
        for (pn, pi, pr, pc) in ports:
            alone = run_add_nodes(size, H, pn, pi, pr, pc)[2]["nodes"][1:]
            together = [x for x in shared if x[0].startswith(pn + "-")]
            if alone != together:
                failures.append((len(alone) + 100, (size, H, pn, pi, pr, pc),
                                 f"port {pn} added to a MIRP that also holds {[q[0] for q in ports if q[0] != pn]} "
                                 f"(ports {mc.jsonable(ports)}) gets nodes {mc.jsonable(together)}, "
                                 f"on its own it gets {mc.jsonable(alone)}: the visit windows depend on other ports"))
                break

    if failures:
        failures.sort(key=lambda f: (f[0], len(repr(f[1]))))
        nn, t, msg = failures[0]
        clause = msg.split(":")[0][:40] if "service instants" in msg else msg[:40]
        sig = "oracle/" + ("safety" if "service instants" in msg else "window" if "window" in msg or "get_time_window" in msg
                           else "cutoff" if "missing" in msg or "horizon" in msg else "demand" if "demand" in msg else "nodes")
        ctx.violation(sig, msg, {"input": tuple_json(t), "failing_inputs_found": len(failures),
                                 "python": "props.c11.oracle(random.Random(0), size, H, port, init, rate, cap) with Fractions"}, True)

    mism, err = ctx.coq_mismatches("nodes", HEADER, "c11case", "check_c11case", terms, shard=200)
    tagnames = ("1 nodes, 2 arcs, 3 supply_ports, 4 demand_ports, 5 port_mapping, 6 returned value/exception, "
                "10 window start, 11 window end")
    for idx, tags in mism[:1]:
        c = cases[idx]
        if c[0] == "nodes":
            size, H, port, init, rate, cap = c[1]
            term = (f"let r := add_nodes (init_state {lit.q(size)} {lit.q(H)}) {lit.nat(mc.PORT_CODE[port])} "
                    f"{lit.q(init)} {lit.q(rate)} {lit.q(cap)} in (snd r, observe_state (fst r))")
            rep = {"correspondence": "Mirp.check_c11case/CNodes", "input": tuple_json(c[1]),
                   "implementation": {"result": mc.jsonable(list(c[2])), "state": mc.jsonable(c[3])}}
        else:
            size, k, init, rate, cap = c[1]
            term = f"window {lit.q(size)} {lit.nat(k)} {lit.q(init)} {lit.q(rate)} {lit.q(cap)}"
            rep = {"correspondence": "Mirp.check_c11case/CWin",
                   "input": {"cargo_size": str(size), "k": k, "init": str(init), "rate": str(rate), "cap": str(cap)},
                   "implementation": mc.jsonable(list(c[2]))}
        rep["model"] = ctx.coq_eval(HEADER, term)
        rep["mismatching_cases"] = len(mism)
        ctx.violation(f"correspondence/{c[0]}/tags{tags}",
                      f"model and implementation disagree ({c[0]} case, fields {tags} of: {tagnames}); "
                      + ("the property oracle fails too, see the other violation" if failures else
                         "the property oracle found no failing input on it"), rep, False)
    if ctx.tier == "thorough":
        ctx.coqchk("VQP.C11")


def replay(ctx, data):
    import random
    rep = data["replay"]
    r = rep.get("input")
    if not r or "cargo_size" not in r:
        print(rep.get("step") or rep.get("correspondence") or rep)
        return
    size, init, rate, cap = F(r["cargo_size"]), F(r["inventory_init"]), F(r["inventory_rate"]), F(r["inventory_cap"])
    if r["port"].startswith("get_time_window"):
        k = int(r["port"].split("=")[1])
        w = run_window(size, k, init, rate, cap)
        if rate > 0:
            lv = (init + rate * w[0] - (k + 1) * size, init + rate * w[1] - k * size - cap)
        else:
            lv = (init + rate * w[0] + (k + 1) * size - cap, init + rate * w[1] + k * size)
        print(f"get_time_window({k}) = ({w[0]}, {w[1]}); distance of the inventory from the boundary level at the two ends: {lv[0]}, {lv[1]}")
        return
    print(oracle(random.Random(0), size, F(r["time_horizon"]), r["port"], init, rate, cap))
