"""C18S -- the sequence half of C18 on its own (bin/check C18S). c18.py runs both halves."""
from props import c18_seq


def run(ctx):
    ctx.prove(props=["C18_seq"])
    from props import c18
    c18.gen_steps(ctx, ("seqenum",))
    c18_seq.run_part(ctx)
    if ctx.tier == "thorough":
        ctx.coqchk("VQP.C18_seq")


def replay(ctx, data):
    c18_seq.replay(ctx, data)
