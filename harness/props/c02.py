"""C02 -- Penalty QUBO equals objective plus weighted squared constraint violation.

Proof: coq/props/C02.v (identity over every commutative ring; shape theorem; default rule).
Tie:   the real formulation objects (arc / path / sequence, before and after make_feasible) report
       (A, b, R, r, c, Qo, S); get_qubo is called for feasibility in {F, T} x penalty_parameter in
       {None, 0, 1, 7, 0.5}; Coq evaluates the Qc instance of the model on the same data and compares
       Q and k entry by entry (exactly).
Oracle: for every instance and configuration all 2^n binary vectors are swept on the implementation:
       x'Qx + k against the right-hand side computed independently from the reported data; reported
       shapes must be consistent and get_qubo must not raise when n >= 1."""
from fractions import Fraction

import numpy as np

from vq import lit
from props import formulation_harness as fh

HEADER = ("From Coq Require Import ZArith QArith Qcanon List.\n"
          "From VQ Require Import Base LinAlg Penalty.\nImport ListNotations.")
CONFIGS = [(feas, pp) for feas in (False, True) for pp in (None, 0, 1, 7, 0.5, 2 ** 24 + 1)]      # 2^24+1: not representable in single precision


def rho_of(rp, feas, pp):
    """The weight the documentation promises: user value, else sufficient(feasibility) + 1."""
    if pp is not None:
        return Fraction(pp)
    return Fraction(fh.exact(rp.get_sufficient_penalty(feas))) + 1


def rhs_fraction(d, feas, rho, x):
    """objective(x) + rho * (|Ax-b|^2 + x'Rx) with Fractions only (no numpy)."""
    n = d["n"]
    pen = Fraction(0)
    for row, bk in zip(d["A"], d["b"]):
        r = sum(Fraction(row[j]) * x[j] for j in range(n)) - Fraction(bk)
        pen += r * r
    pen += sum(Fraction(d["R"][i][j]) * x[i] * x[j] for i in range(n) for j in range(n))
    val = rho * pen
    if not feas:
        val += sum(Fraction(d["c"][i]) * x[i] for i in range(n))
        val += sum(Fraction(d["Qo"][i][j]) * x[i] * x[j] for i in range(n) for j in range(n))
    return val


def lhs_fraction(out, x):
    n = len(x)
    return sum(Fraction(out["Q"][i][j]) * x[i] * x[j] for i in range(n) for j in range(n)) + Fraction(out["k"])


def identity_oracle(d, feas, rho, out, X, sample_rng):
    """None, or (x, lhs, rhs) for a binary x with x'Qx + k != rhs."""
    n = d["n"]
    if out["shape"] != (n, n) or len(out["Q"]) != n:
        return None          # reported separately (dimension clause)
    den = fh.common_den([v for row in out["Q"] for v in row] + [out["k"], rho]
                        + d["c"] + [v for row in d["Qo"] for v in row])
    Q = fh.int_matrix(out["Q"], den, n, n)
    lhs = fh.quad_values(Q, X) + int(Fraction(out["k"]) * den)
    res2, xrx = fh.constraint_views(d, X)
    rhs = int(rho * den) * (res2 + xrx)
    if not feas:
        rhs = rhs + X @ fh.int_vector(d["c"], den) + fh.quad_values(fh.int_matrix(d["Qo"], den, n, n), X)
    bad = np.flatnonzero(lhs != rhs)
    if len(bad):
        x = [int(v) for v in X[bad[0]]]
        return x, lhs_fraction(out, x), rhs_fraction(d, feas, rho, x)
    # independent second evaluation with Fractions on a few vectors
    rows = range(len(X)) if n <= 4 else [sample_rng.randrange(len(X)) for _ in range(6)]
    for r in rows:
        x = [int(v) for v in X[r]]
        a, b = lhs_fraction(out, x), rhs_fraction(d, feas, rho, x)
        if a != b:
            return x, a, b
    return None


def pp_lit(pp):
    if pp is None:
        return "None"
    fr = Fraction(pp)
    return f"(Some ({lit.z(fr.numerator)}, {fr.denominator}%positive))"


def case_lit(d, S, outs):
    cfgs = lit.lst([lit.tup(lit.boolean(feas), pp_lit(pp), fh.qout_lit(out)) for (feas, pp), out in outs])
    return lit.tup(fh.qdata_lit(d), lit.z(lit.exact_int(S)), cfgs)


def check_instance(rp, sample_rng):
    """Run the implementation.  Returns (data, S, outs, problems); problems is a list of
    (signature, message, extra) found by the oracle on this instance."""
    problems = []
    try:
        d = fh.dense_data(rp)
    except Exception as e:  # noqa
        return None, None, None, [("oracle/data-raises", f"constraint/objective data raised {type(e).__name__}: {e}", {})]
    n = d["n"]
    if not fh.shapes_consistent(d):
        problems.append(("oracle/dims/reported-shapes",
                         f"reported shapes are inconsistent: n={n}, A{d['A_shape']}, len(b)={len(d['b'])}, "
                         f"R{d['R_shape']}, Qo{d['Qo_shape']}, len(c)={len(d['c'])}", {}))
    if n > fh.SWEEP_MAX:
        return None, None, None, problems       # too large for the 2^n sweep (cannot happen for the generated sizes)
    S = fh.sufficient(rp)
    X = fh.all_binary(n)
    outs = []
    for feas, pp in CONFIGS:
        out = fh.qubo_out(rp, feas, pp)
        outs.append(((feas, pp), out))
        cfg = {"feasibility": feas, "penalty_parameter": pp}
        if not out["ok"]:
            problems.append(("oracle/dims/get_qubo-raises",
                             f"get_qubo(feasibility={feas}, penalty_parameter={pp}) raised {out['msg']} on a model with n={n} variables", cfg))
            continue
        if out["shape"] != (n, n):
            problems.append(("oracle/dims/Q-shape", f"Q has shape {out['shape']} for n={n}", cfg))
            continue
        if fh.shapes_consistent(d):
            bad = identity_oracle(d, feas, rho_of(rp, feas, pp), out, X, sample_rng)
            if bad:
                x, a, b = bad
                sig = "oracle/identity" if pp is not None else "oracle/identity-default-rho"
                problems.append((sig, f"x'Qx+k = {a} but objective + rho*(|Ax-b|^2 + x'Rx) = {b} at x={x} "
                                      f"(feasibility={feas}, penalty_parameter={pp}, rho={rho_of(rp, feas, pp)})",
                                 dict(cfg, x=x, lhs=str(a), rhs=str(b))))
    # the mode may be given as any truthy / falsy value (numpy booleans, 0 / 1): same QUBO as with the bool
    import numpy as _np
    by_cfg = {cfg: out for cfg, out in outs}
    for flag in (0, 1, _np.bool_(False), _np.bool_(True)):
        for pp in (None, 7):
            out = fh.qubo_out(rp, flag, pp)
            ref = by_cfg.get((bool(flag), pp))
            if ref is None or not ref["ok"]:
                continue
            if (not out["ok"]) or out["Q"] != ref["Q"] or out["k"] != ref["k"]:
                problems.append(("oracle/mode-flag",
                                 f"get_qubo(feasibility={flag!r} [{type(flag).__name__}], penalty_parameter={pp}) differs from "
                                 f"get_qubo(feasibility={bool(flag)}, penalty_parameter={pp}): the mode must not depend on the type of the flag",
                                 {"feasibility": repr(flag), "penalty_parameter": pp}))
                break
    return d, S, outs, problems


def instance_fails(kind, desc, sig):
    rp = fh.BUILDERS[kind](desc)
    try:
        if int(rp.get_num_variables()) < 1:
            return False
    except Exception:  # noqa
        return False
    import random
    _, _, _, problems = check_instance(rp, random.Random(0))
    return any(p[0] == sig for p in problems)


def run(ctx):
    ctx.prove(props=["C02", "C02_forms"])
    # model regenerated from the source of RoutingProblem.get_qubo, proved equal to Penalty.get_qubo (notes/C02_gen.md)
    import translate_getqubo as TG
    ctx.gen_step("getqubo", TG.translate, "C02_gen",
                 "harness/translate_getqubo.py (ast -> Gallina printer for numpy/scipy matrix expressions, `is None` / truth-value "
                 "tests, raise/return, into the value combinators of coq/theories/PyMat.v, whose dense meaning of "
                 "transpose/dot/diags/atleast_1d/+/* is modelled, not verified)")
    from props import pysem; pysem.run(ctx, pysem.GROUPS_FOR.get(ctx.pid, ()))
    rng = ctx.rng
    count = 300 if ctx.quick else 3000
    max_n = 14 if ctx.quick else 16
    stats = {}
    cases, terms = [], []
    reported = set()
    seen = set()
    n_eval = 0
    for kind0, desc0 in fh.corner_cases():
        rp0 = fh.BUILDERS[kind0](desc0)
        for sig, msg, extra in check_instance(rp0, rng)[3]:
            ctx.violation(f"{sig}/{kind0}/corner", f"{kind0}: {msg}",
                          dict(fh.describe({"kind": kind0, "desc": desc0, "rp": rp0}), **extra), True)
    for case in fh.gen_objects(rng, count, max_n, stats=stats):
        rp, kind = case["rp"], case["kind"]
        d, S, outs, problems = check_instance(rp, rng)
        for sig, msg, extra in problems:
            full = f"{sig}/{kind}"
            if full in reported:
                continue
            reported.add(full)
            small = fh.shrink_desc(case["desc"], lambda c, k=kind, s=sig: instance_fails(k, c, s))
            case2 = dict(case, desc=small, rp=fh.BUILDERS[kind](small))
            _, _, _, p2 = check_instance(case2["rp"], rng)
            hit = [p for p in p2 if p[0] == sig]
            msg2, extra2 = (hit[0][1], hit[0][2]) if hit else (msg, extra)
            ctx.violation(full, f"{kind}: {msg2}",
                          dict(fh.describe(case2), **extra2,
                               python="props.c02.check_instance(fh.BUILDERS[kind](desc), random.Random(0))"), True)
        if d is None or not fh_int(d):
            continue
        cases.append((case, d, S, outs, bool(problems)))
        terms.append(case_lit(d, S, outs))
        n_eval += len(outs) * (2 ** d["n"])
        key = repr((kind, d, S))
        nontrivial = d["n"] >= 2 and any(v != 0 for v in d["b"]) and any(v != 0 for row in d["A"] for v in row)
        if nontrivial and key not in seen:
            seen.add(key)
            ctx.count(nontrivial=1)
        ctx.sample({"kind": kind, "n": d["n"], "A_shape": list(d["A_shape"]), "S": str(S),
                    "make_feasible": case["desc"]["make_feasible"], "mf_outcome": rp.vq_mf})
    ctx.count(evaluations=n_eval, traces=len(cases) * len(CONFIGS))
    ctx.cov["input_distribution"] = stats
    # half-integer costs (exact in floats) with integer and fractional penalty weights: the QUBO must carry the costs
    # exactly whatever number types the constraint data happen to have (oracle only; the Coq literals are integers)
    n_half = 0
    for _ in range(90 if ctx.quick else 400):
        desc = fh.random_instance(rng, max_customers=2)
        desc["arcs"] = [(o, d_, t, c * 0.5 if desc["cost_scale"] == 1 else c) for (o, d_, t, c) in desc["arcs"]]
        desc["make_feasible"] = None
        kind = fh.KINDS[n_half % 3]
        try:
            rp = fh.BUILDERS[kind](desc)
            if not 1 <= int(rp.get_num_variables()) <= 10:
                continue
        except Exception:  # noqa
            continue
        n_half += 1
        for sig, msg, extra in check_instance(rp, rng)[3]:
            full = f"{sig}/{kind}/half-costs"
            if full in reported:
                continue
            reported.add(full)
            ctx.violation(full, f"{kind} (half-integer costs): {msg}",
                          dict(fh.describe({"kind": kind, "desc": desc, "rp": rp}), **extra,
                               python="props.c02.check_instance(fh.BUILDERS[kind](desc), random.Random(0))"), True)
    stats["half_integer_cost_instances"] = n_half
    # path-based problems that grow between two queries (props/c02_grow.py)
    from props import c02_grow
    stats["path_grown_between_queries"] = c02_grow.run_stream(ctx, check_instance, 25 if ctx.quick else 250)
    ctx.cov["rule"] = ("random VRPTW instances (1-4 customers, integer windows 0..8, arc density 0.2-1, unreachable customers, "
                       "customers without exit, depot self-arc, negative/zero costs, unsorted grids, V 0..3, L 2..5, strict/non-strict, "
                       "explicit valid and invalid candidate routes) built through the real arc/path/sequence classes, fresh or after "
                       "make_feasible(high in {0,1,10,1e6}); each x 10 configurations (feasibility x penalty_parameter in None,0,1,7,0.5); "
                       "evaluations = configurations x 2^n vectors swept by the oracle; non-trivial = distinct instance with n >= 2, "
                       "a non-zero right-hand side and a non-zero A")
    ctx.assumptions.append("numpy/scipy float arithmetic is exact on the integer / half-integer data used (magnitudes below 2^52)")
    mism, err = ctx.coq_mismatches("qubo", HEADER, "c02case", "check_c02case", terms, shard=20)
    shown = 0
    for idx, tags in mism:
        case, d, S, outs, explained = cases[idx]
        if explained or shown >= 3:
            continue            # the oracle already reported a failing input for this very instance
        shown += 1
        cfg_i = tags[0] // 10
        feas, pp = CONFIGS[cfg_i]
        model = ctx.coq_eval(HEADER, f"Qcget_qubo_impl {lit.boolean(feas)} "
                                     f"(option_map (fun p => qcF (fst p) (snd p)) {pp_lit(pp)}) (qcZ {lit.z(lit.exact_int(S))}) "
                                     f"(qdata_qc {fh.qdata_lit(d)})")
        ctx.violation(f"correspondence/{case['kind']}/field{tags[0] % 10}",
                      f"model and implementation disagree on get_qubo(feasibility={feas}, penalty_parameter={pp}) "
                      f"(tags {tags}: 10*configuration + 1 outcome, 2 shape, 3 matrix, 4 constant); the oracle found no failing vector on it",
                      dict(fh.describe(case), correspondence="Penalty.check_c02case", data={k: str(v) for k, v in d.items()},
                           S=str(S), implementation=str(outs[cfg_i][1]), model=model[-3000:]), False)
    if ctx.tier == "thorough":
        ctx.coqchk("VQP.C02")
        ctx.coqchk("VQP.C02_forms")


def fh_int(d):
    """All reported data are integers (they are, for integer instance data)."""
    vals = [v for row in d["A"] for v in row] + d["b"] + [v for row in d["R"] for v in row] + [d["r"]] \
        + d["c"] + [v for row in d["Qo"] for v in row]
    return all(isinstance(v, int) for v in vals)


def replay(ctx, data):
    import random
    kind, desc = fh.undescribe(data["replay"])
    rp = fh.BUILDERS[kind](desc)
    d, S, outs, problems = check_instance(rp, random.Random(0))
    print({"n": d and d["n"], "S": S, "problems": problems})
