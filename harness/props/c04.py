"""C04 -- Default penalty is exact: QUBO minimisers are the constrained optima.

Proof: coq/props/C04.v (abstract exact-penalty theorem = Proposition 1 of the doc; range bound of the
       objective; counting lemmas S_arc / S_path / S_seq >= sum of |objective coefficients|; the default
       rho = S + 1 satisfies the hypotheses).
Tie:   S = get_sufficient_penalty(False) of the real objects against S_arc / S_path / S_seq evaluated in
       Coq on the instance data the method reads (arc costs, len(time_points), route costs,
       max_sequence_length, vehicle costs); get_qubo() (default penalty) against the model built with
       rho = S_model + 1; the structural hypotheses of the counting lemmas (which variable belongs to
       which arc / which (vehicle, position, arc) triples feed which coefficient) are re-derived from
       the object's index maps and checked in Coq against the reported objective; sum |coeff| <= S.
Oracle: on every feasible instance all 2^n vectors are swept on the implementation: the set of minimisers
       of x'Qx + k must equal the set of optimal solutions of  min c'x + x'Qo x  s.t. A x = b, x'Rx = 0
       (computed from the implementation's own data) and the minimum must equal the optimal cost.
       Cost ratios are adversarial: arc costs in {-3..9} x {1, 1000}, make_feasible high cost in
       {0, 1, 10, 10^6} (vehicle surcharge / arc cost from 10^-3 to 10^6)."""
from fractions import Fraction

import numpy as np

from vq import lit
from props import formulation_harness as fh
from props.c02 import fh_int

HEADER = ("From Coq Require Import ZArith QArith Qcanon List.\n"
          "From VQ Require Import Base LinAlg Penalty.\nImport ListNotations.")


# ---------------------------------------------------------------- instance data read by get_sufficient_penalty
def sdata(kind, rp):
    """The data S is computed from, plus the structure of the objective, read from the object."""
    rp.get_num_variables()
    if kind == "path":
        return {"kind": "path", "route_costs": [fh.exact(c) for c in rp.route_costs]}
    keys = list(rp.arcs.keys())
    costs = [fh.exact(rp.arcs[k].get_cost()) for k in keys]
    if kind == "arc":
        grid = [fh.exact(t) for t in np.asarray(rp.time_points).tolist()]
        vars_ = [(keys.index((int(i), int(j))), fh.exact(s), fh.exact(t)) for (i, s, j, t) in rp.var_mapping]
        return {"kind": "arc", "costs": costs, "grid": grid, "vars": vars_}
    L, V = int(rp.max_sequence_length), int(rp.max_vehicles)
    lin, quad = [], []
    for vi in range(V):
        for si in range(L - 1):
            for a, (ni, nj) in enumerate(keys):
                i1 = rp.get_var_index(vi, si, ni)
                i2 = rp.get_var_index(vi, si + 1, nj)
                if i1 is None and i2 is None:
                    continue
                if i1 is None:
                    lin.append((int(i2), (vi, si, a), fh.exact(rp.fixed_values[(vi, si, ni)])))
                elif i2 is None:
                    lin.append((int(i1), (vi, si, a), fh.exact(rp.fixed_values[(vi, si + 1, nj)])))
                else:
                    quad.append(((int(i1), int(i2)), (vi, si, a)))
    return {"kind": "seq", "L": L, "V": V, "costs": costs, "vcs": [fh.exact(v) for v in rp.vehicle_cost],
            "lin": lin, "quad": quad}


def zl(xs):
    return lit.lst([lit.z(lit.exact_int(x)) for x in xs])


def trip(t):
    return lit.tup(lit.nat(t[0]), lit.nat(t[1]), lit.nat(t[2]))


def sdata_lit(s):
    if s["kind"] == "path":
        return f"(SPath {zl(s['route_costs'])})"
    if s["kind"] == "arc":
        vs = lit.lst([lit.tup(lit.nat(a), lit.z(lit.exact_int(x)), lit.z(lit.exact_int(y))) for a, x, y in s["vars"]])
        return f"(SArc {zl(s['costs'])} {zl(s['grid'])} {vs})"
    lin = lit.lst([lit.tup(lit.nat(k), trip(t), lit.z(lit.exact_int(fv))) for k, t, fv in s["lin"]])
    quad = lit.lst([lit.pair(lit.pair(lit.nat(k[0]), lit.nat(k[1])), trip(t)) for k, t in s["quad"]])
    return f"(SSeq {lit.z(s['L'])} {lit.nat(s['V'])} {zl(s['costs'])} {zl(s['vcs'])} {lin} {quad})"


# ---------------------------------------------------------------- oracle
def check_instance(rp):
    """Returns (data, S, out, info, problems)."""
    try:
        d = fh.dense_data(rp)
    except Exception as e:  # noqa
        return None, None, None, {}, [("oracle/data-raises", f"constraint/objective data raised {type(e).__name__}: {e}", {})]
    n = d["n"]
    if n > fh.SWEEP_MAX:
        return None, None, None, {}, []      # too large for the 2^n sweep (cannot happen for the generated sizes)
    S = fh.sufficient(rp)
    out = fh.qubo_out(rp, False, None)
    if not out["ok"]:
        return d, S, out, {}, [("oracle/get_qubo-raises", f"get_qubo() raised {out['msg']} (n={n})", {})]
    if out["shape"] != (n, n) or not fh.shapes_consistent(d):
        return d, S, out, {}, [("oracle/shapes", f"inconsistent shapes: Q{out['shape']}, n={n}, A{d['A_shape']}", {})]
    X = fh.all_binary(n)
    den = fh.common_den([v for row in out["Q"] for v in row] + [out["k"]] + d["c"] + [v for row in d["Qo"] for v in row])
    vals = fh.quad_values(fh.int_matrix(out["Q"], den, n, n), X) + int(Fraction(out["k"]) * den)
    res2, xrx = fh.constraint_views(d, X)
    feasible = (res2 == 0) & (xrx == 0)
    obj = X @ fh.int_vector(d["c"], den) + fh.quad_values(fh.int_matrix(d["Qo"], den, n, n), X)
    coeff = sum(abs(Fraction(v)) for v in d["c"]) + sum(abs(Fraction(v)) for row in d["Qo"] for v in row)
    info = {"feasible_vectors": int(feasible.sum()), "coeff_sum": coeff, "S": S}
    problems = []
    if not feasible.any():
        return d, S, out, info, problems
    opt = int(obj[feasible].min())
    opt_set = feasible & (obj == opt)
    qmin = int(vals.min())
    min_set = (vals == qmin)
    info.update(optimal_cost=Fraction(opt, den), qubo_min=Fraction(qmin, den),
                n_opt=int(opt_set.sum()), n_min=int(min_set.sum()))
    bad = np.flatnonzero(min_set & ~opt_set)
    if len(bad):
        r = bad[0]
        x = [int(v) for v in X[r]]
        why = "infeasible" if not feasible[r] else "feasible but not optimal"
        problems.append(("oracle/minimiser-not-optimal",
                         f"x={x} minimises the default-penalty QUBO (value {Fraction(qmin, den)}; documented default weight S+1 = {Fraction(S) + 1}) but is {why}: "
                         f"|Ax-b|^2={int(res2[r])}, x'Rx={int(xrx[r])}, objective {Fraction(int(obj[r]), den)}; "
                         f"constrained optimum {Fraction(opt, den)}; S={S}, sum|coeff|={coeff}",
                         {"x": x, "qubo_min": str(Fraction(qmin, den)), "optimal_cost": str(Fraction(opt, den)), "S": str(S)}))
    bad = np.flatnonzero(opt_set & ~min_set)
    if len(bad) and not problems:
        r = bad[0]
        x = [int(v) for v in X[r]]
        problems.append(("oracle/optimum-not-minimiser",
                         f"x={x} is an optimal solution (cost {Fraction(opt, den)}) but its QUBO value {Fraction(int(vals[r]), den)} "
                         f"is above the QUBO minimum {Fraction(qmin, den)}", {"x": x}))
    if qmin != opt and not problems:
        problems.append(("oracle/min-value", f"QUBO minimum {Fraction(qmin, den)} != optimal cost {Fraction(opt, den)}", {}))
    return d, S, out, info, problems


def star_descs(rng, count):
    """Targeted: customers that all have both depot arcs, too few vehicles / positions for them, the model queried BEFORE
    the heuristic: make_feasible then only adds dummy vehicles (with the high cost as surcharge) and no arc -- the default
    penalty requested afterwards must cover the surcharges."""
    INF = float("inf")
    out = []
    for _ in range(count):
        k = rng.randint(2, 3)
        cust = [f"c{i + 1}" for i in range(k)]
        nodes = [("D", 0, 0, INF)] + [(c, rng.randint(0, 2), 0, INF) for c in cust]
        arcs = []
        for c in cust:
            arcs.append(("D", c, rng.randint(0, 2), rng.randint(0, 3)))
            arcs.append((c, "D", rng.randint(0, 2), rng.randint(0, 3)))
        if rng.random() < 0.4:
            arcs.append((cust[0], cust[1], 1, rng.randint(0, 3)))
        rng.shuffle(arcs)
        out.append({"nodes": nodes, "depot_first": True, "arcs": arcs, "time_points": [0, 1, 2, 3], "V": rng.choice([1, 1, 2]),
                    "L": 3, "strict": rng.random() < 0.5, "routes": [["D", c, "D"] for c in cust[:1]], "vehicle_cap": 10,
                    "initial_loading": 5, "make_feasible": rng.choice([1000, 10 ** 6]), "mf_mode": "after_query",
                    "np_seed": rng.randrange(2 ** 31), "cost_scale": 1})
    return out


def instance_fails(kind, desc, sig):
    rp = fh.BUILDERS[kind](desc)
    try:
        if int(rp.get_num_variables()) < 1:
            return False
    except Exception:  # noqa
        return False
    return any(p[0] == sig for p in check_instance(rp)[4])


def run(ctx):
    ctx.prove(props=["C04", "C04_forms"])
    # models regenerated from the source of the three get_sufficient_penalty methods (and get_qubo), proved equal to
    # Penalty.S_arc / S_path / S_seq and to the default-penalty QUBO of the C04 theorems (notes/C02_gen.md)
    import translate_getqubo as TG
    ctx.gen_step("suffpen", TG.translate_suffpen, "C04_gen",
                 "harness/translate_getqubo.py (ast -> Gallina printer for sum(... for ...) generator expressions, np.fabs, len, "
                 "**, dict.values(), method calls as oracle parameters, into the value combinators of coq/theories/PyMat.v)")
    rng = ctx.rng
    count = 300 if ctx.quick else 6000
    max_n = 14 if ctx.quick else 18
    stats = {"feasible_instances": 0, "infeasible_instances": 0, "vehicles_added_by_heuristic": 0,
             "negative_costs": 0, "ratio_high_over_cost>=1e5": 0, "ratio_high_over_cost<=1e-2": 0, "ties_in_optimum": 0}
    cases, terms = [], []
    reported, seen = set(), set()
    n_eval = 0
    for kind0, desc0 in fh.corner_cases():
        rp0 = fh.BUILDERS[kind0](desc0)
        for sig, msg, extra in check_instance(rp0)[4]:
            ctx.violation(f"{sig}/{kind0}/corner", f"{kind0}: {msg}",
                          dict(fh.describe({"kind": kind0, "desc": desc0, "rp": rp0}), **extra), True)
    n_star = 0
    for desc in star_descs(rng, 24 if ctx.quick else 400):
        for kind in ("seq", "arc", "path"):
            try:
                rp = fh.BUILDERS[kind](desc)
                if not 1 <= int(rp.get_num_variables()) <= max_n:
                    continue
            except Exception:  # noqa
                continue
            n_star += 1
            for sig, msg, extra in check_instance(rp)[4]:
                full = f"{sig}/{kind}"
                if full in reported:
                    continue
                reported.add(full)
                ctx.violation(full, f"{kind} (all customers on depot arcs, queried before the heuristic): {msg}",
                              dict(fh.describe({"kind": kind, "desc": desc, "rp": rp}), **extra,
                                   python="props.c04.check_instance(fh.BUILDERS[kind](desc))"), True)
    stats["star_queried_before_heuristic"] = n_star
    for case in fh.gen_objects(rng, count, max_n, stats=stats, mf_prob=0.6, after_query_prob=0.5):
        rp, kind, desc = case["rp"], case["kind"], case["desc"]
        d, S, out, info, problems = check_instance(rp)
        for sig, msg, extra in problems:
            full = f"{sig}/{kind}"
            if full in reported:
                continue
            reported.add(full)
            small = fh.shrink_desc(desc, lambda c, k=kind, s=sig: instance_fails(k, c, s))
            rp2 = fh.BUILDERS[kind](small)
            hit = [p for p in check_instance(rp2)[4] if p[0] == sig]
            msg2, extra2 = (hit[0][1], hit[0][2]) if hit else (msg, extra)
            ctx.violation(full, f"{kind}: {msg2}",
                          dict(fh.describe(dict(case, desc=small, rp=rp2)), **extra2,
                               python="props.c04.check_instance(fh.BUILDERS[kind](desc))"), True)
        if d is None or out is None or not fh_int(d):
            continue
        try:
            s = sdata(kind, rp)
        except Exception as e:  # noqa
            ctx.violation(f"oracle/structure-raises/{kind}", f"{kind}: reading the index maps raised {type(e).__name__}: {e}",
                          fh.describe(case), False)
            continue
        cases.append((case, d, S, out, s, bool(problems)))
        terms.append(lit.tup(sdata_lit(s), lit.z(lit.exact_int(S)), fh.qdata_lit(d), fh.qout_lit(out)))
        n_eval += 2 ** d["n"]
        if info.get("feasible_vectors"):
            stats["feasible_instances"] += 1
            if info.get("n_opt", 0) > 1:
                stats["ties_in_optimum"] += 1
            key = repr((kind, d, S))
            if d["n"] >= 2 and info["feasible_vectors"] < 2 ** d["n"] and any(v != 0 for v in d["c"]) and key not in seen:
                seen.add(key)
                ctx.count(nontrivial=1)
        else:
            stats["infeasible_instances"] += 1
        if kind == "seq" and len(s["vcs"]) > desc["V"]:
            stats["vehicles_added_by_heuristic"] += 1
        if any(a[3] < 0 for a in desc["arcs"]):
            stats["negative_costs"] += 1
        if desc["make_feasible"] is not None and rp.vq_mf == "ok":
            ratio = Fraction(desc["make_feasible"], desc["cost_scale"])
            if ratio >= 10 ** 5:
                stats["ratio_high_over_cost>=1e5"] += 1
            if ratio <= Fraction(1, 100):
                stats["ratio_high_over_cost<=1e-2"] += 1
        ctx.sample({"kind": kind, "n": d["n"], "S": str(S), "sum_abs_coeff": str(info.get("coeff_sum")),
                    "feasible_vectors": info.get("feasible_vectors"), "optimal_cost": str(info.get("optimal_cost")),
                    "make_feasible": desc["make_feasible"], "mf_outcome": rp.vq_mf})
    ctx.count(evaluations=n_eval, traces=len(cases))
    ctx.cov["input_distribution"] = stats
    ctx.cov["rule"] = ("formulation harness instances (see C02), 60% through make_feasible(high in {0,1,10,1e6}), arc costs in "
                       "{-3..9} x {1,1000}; get_qubo() with the default penalty; evaluations = binary vectors swept on the implementation; "
                       "non-trivial = distinct feasible instance with n >= 2, at least one infeasible vector and a non-zero cost vector")
    ctx.assumptions.append("numpy/scipy float arithmetic is exact on the integer data used (magnitudes below 2^52)")
    ctx.assumptions.append("the instance data handed to S_arc/S_path/S_seq are read from the same object attributes "
                           "(arcs, time_points, route_costs, max_sequence_length, vehicle_cost) that get_sufficient_penalty reads")
    mism, err = ctx.coq_mismatches("exact", HEADER, "c04case", "check_c04case", terms, shard=30)
    shown = 0
    for idx, tags in mism:
        case, d, S, out, s, explained = cases[idx]
        if explained or shown >= 3:
            continue
        shown += 1
        model = ctx.coq_eval(HEADER, f"(S_model {sdata_lit(s)}, coeff_sum {lit.nat(d['n'])} (Zvec_of {zl(d['c'])}) "
                                     f"(Zmat_of {lit.lst([zl(r) for r in d['Qo']])}))")
        ctx.violation(f"correspondence/{case['kind']}/tags{tags}",
                      f"model and implementation disagree (tags {tags}: 1-5 default-penalty QUBO [1 outcome, 2 shape, 3 matrix, 4 constant], "
                      f"6 sufficient penalty S (implementation {S}), 7 structure hypotheses of the counting lemma, 8 objective vs structure, "
                      "9 sum|coefficients| > S); the sweep found no vector on which the property fails for this instance",
                      dict(fh.describe(case), correspondence="Penalty.check_c04case", S_implementation=str(S),
                           instance_data={k: str(v) for k, v in s.items()}, model_S_and_coeff_sum=model[-1500:]), False)
    if ctx.tier == "thorough":
        ctx.coqchk("VQP.C04")
        ctx.coqchk("VQP.C04_forms")


def replay(ctx, data):
    kind, desc = fh.undescribe(data["replay"])
    d, S, out, info, problems = check_instance(fh.BUILDERS[kind](desc))
    print({"n": d and d["n"], "S": S, "info": {k: str(v) for k, v in info.items()}, "problems": problems})
