"""C06 -- Path-based route admission matches the VRPTW route definition.

Proof: coq/props/C06.v (check_route <-> valid_route by induction over the route; store-once
invariant by induction over histories; cover matrix).
Tie: random histories of add_node / add_arc / add_route / check_route / queries are run on the
real PathBasedRoutingProblem and on the Gallina model (Path.v); Coq compares every call's result,
the caller's list after the call (check_route converts names in place) and all query results.
Oracle: an independent Python implementation of the route definition of doc/MIRPasQUBO.tex is
compared with check_route on ALL node sequences up to length 5 (quick) / 6 (thorough) of every
generated instance; store-once and the exact-cover data are checked along every history."""
import itertools

from vq import lit
from vq.core import exc_cls

HEADER = "From VQ Require Import Base Vrptw Path."
NAMES = ["D", "A", "B", "C", "E", "F", "G", "H"]
UNKNOWN = ["X", "Y"]
CODE = {n: 10 + i for i, n in enumerate(NAMES)}
CODE.update({"X": 30, "Y": 31})
INF = float("inf")
KINDS = ["valid", "wait", "eq_window", "eq_cap", "eq_zero", "late_mid", "late_final", "over", "under",
         "revisit", "missing_arc", "endpoints", "random"]


def make(cap, init):
    from vrpqubo.routing_problem.formulations.path_based_rp import PathBasedRoutingProblem
    p = PathBasedRoutingProblem()
    p.set_vehicle_cap(cap)
    p.set_initial_loading(init)
    return p


# ---------------- independent reference: the route definition of the paper ----------------
class Inst:
    """Graph data read from the public state of the object (names, nodes, arcs)."""
    def __init__(self, p):
        self.names = list(p.node_names)
        self.dem = [n.demand for n in p.nodes]
        self.lo = [n.time_window[0] for n in p.nodes]
        self.hi = [n.time_window[1] for n in p.nodes]
        self.arcs = {k: (a.travel_time, a.cost) for k, a in p.arcs.items()}
        self.cap = p.vehicle_cap
        self.init = p.initial_loading
        self.n = len(self.names)


def ref_times(inst, seq):
    T = [0]
    for k in range(1, len(seq)):
        T.append(max(T[-1] + inst.arcs[(seq[k - 1], seq[k])][0], inst.lo[seq[k]]))
    return T


def ref_loads(inst, seq):
    L = [inst.init]
    for k in range(1, len(seq)):
        L.append(L[-1] - inst.dem[seq[k]])
    return L


def ref_route(inst, seq):
    """(valid, cost, visited set) of an index sequence by the paper's definition: starts and ends at
    the depot (index 0), interior nodes distinct customers, every segment an arc, T_0 = 0,
    T_{k+1} = max(T_k + t, a) <= b at every node (also the final depot), 0 <= load_k <= Q after
    every stop, load_0 = initial loading."""
    n = inst.n
    if len(seq) < 2:
        return False, None, None
    if any((not isinstance(i, int)) or i < 0 or i >= n for i in seq):
        return False, None, None
    if seq[0] != 0 or seq[-1] != 0:
        return False, None, None
    mid = seq[1:-1]
    if 0 in mid or len(set(mid)) != len(mid):
        return False, None, None
    segs = list(zip(seq, seq[1:]))
    if any(s not in inst.arcs for s in segs):
        return False, None, None
    T = ref_times(inst, seq)
    if any(T[k] > inst.hi[seq[k]] for k in range(1, len(seq))):
        return False, None, None
    L = ref_loads(inst, seq)
    if any(not (0 <= L[k] <= inst.cap) for k in range(1, len(seq))):
        return False, None, None
    return True, sum(inst.arcs[s][1] for s in segs), set(seq)


def classify(inst, seq):
    """Label of an index sequence for the input-distribution statistics."""
    n = inst.n
    if len(seq) < 2:
        return "short"
    if any(i < 0 or i >= n for i in seq):
        return "out_of_range"
    if seq[0] != 0 or seq[-1] != 0:
        return "endpoints"
    mid = seq[1:-1]
    if 0 in mid or len(set(mid)) != len(mid):
        return "revisit"
    if any(s not in inst.arcs for s in zip(seq, seq[1:])):
        return "missing_arc"
    T = ref_times(inst, seq)
    L = ref_loads(inst, seq)
    late = [k for k in range(1, len(seq)) if T[k] > inst.hi[seq[k]]]
    over = [k for k in range(1, len(seq)) if L[k] > inst.cap]
    under = [k for k in range(1, len(seq)) if L[k] < 0]
    if late and not over and not under:
        k = late[0]
        one = (T[k] - inst.hi[seq[k]] == 1) and len(late) == 1
        where = "final" if k == len(seq) - 1 else "mid"
        return f"late_{where}_only" + ("_by1" if one else "")
    if (over or under) and not late:
        if over and not under:
            return "over_only" + ("_by1" if max(L[k] - inst.cap for k in over) == 1 else "")
        if under and not over:
            return "under_only" + ("_by1" if min(L[k] for k in under) == -1 else "")
        return "over_and_under"
    if late:
        return "late_and_load"
    tags = []
    if any(T[k] > T[k - 1] + inst.arcs[(seq[k - 1], seq[k])][0] for k in range(1, len(seq))):
        tags.append("wait")
    if any(T[k] == inst.hi[seq[k]] for k in range(1, len(seq))):
        tags.append("eqhi")
    if any(L[k] == inst.cap for k in range(1, len(seq))):
        tags.append("eqcap")
    if any(L[k] == 0 for k in range(1, len(seq))):
        tags.append("eq0")
    return "valid" + ("+" + "+".join(tags) if tags else "")


# ---------------- running the implementation ----------------
def to_int_list(v):
    return [lit.exact_int(x) for x in v]


def dense(M):
    arr = M.toarray() if hasattr(M, "toarray") else M
    return [[lit.exact_int(x) for x in row] for row in arr]


def snapshot(p, x):
    """Everything a query observes; exceptions become ('err', cls)."""
    q = {"routes": [to_int_list(r) for r in p.routes],
         "costs": to_int_list(p.route_costs),
         "visited": [to_int_list(v) for v in p.route_node_visited],
         "nvars": p.get_num_variables()}
    try:
        c, A, b = p.get_math_program_data()
        q["mp"] = ("ok", to_int_list(c), dense(A), to_int_list(b), tuple(A.shape))
    except Exception as e:  # noqa
        q["mp"] = ("err", exc_cls(e))
    c, Q = p.get_objective_data()
    q["obj"] = (to_int_list(c), dense(Q), tuple(Q.shape), int(Q.nnz))
    try:
        A, b, Qe, r = p.get_constraint_data()
        q["cd"] = ("ok", tuple(A.shape), dense(A), to_int_list(b), dense(Qe), lit.exact_int(r), tuple(Qe.shape), int(Qe.nnz))
    except Exception as e:  # noqa
        q["cd"] = ("err", exc_cls(e))
    try:
        q["get_routes"] = ("ok", [list(r) for r in p.get_routes(list(x))])
    except Exception as e:  # noqa
        q["get_routes"] = ("err", exc_cls(e))
    return q


def apply(p, op):
    """One call on the real object.  check_route / add_route receive a fresh copy of the route and
    the copy is recorded afterwards (the code converts names to indices in place)."""
    k = op[0]
    try:
        if k == "node":
            p.add_node(op[1], op[2], (op[3], op[4]))
            return ("node", "ok")
        if k == "arc":
            return ("arc", "ok", bool(p.add_arc(op[1], op[2], op[3], op[4])))
        if k == "route":
            r = list(op[1])
            try:
                feas, added = p.add_route(r)
            except Exception as e:  # noqa
                return ("route", "err", exc_cls(e), r)
            return ("route", "ok", (bool(feas), bool(added)), r)
        if k == "check":
            r = list(op[1])
            try:
                feas, cost, vis = p.check_route(r)
            except Exception as e:  # noqa
                return ("check", "err", exc_cls(e), r)
            return ("check", "ok", (bool(feas), lit.exact_int(cost), to_int_list(vis)), r)
        if k == "query":
            return ("query", snapshot(p, op[1]))
    except Exception as e:  # noqa
        return (k, "err", exc_cls(e))
    raise ValueError(op)


def run_impl(cap, init, ops):
    p = make(cap, init)
    return [apply(p, op) for op in ops]


# ---------------- direct oracle on the implementation, along a history ----------------
def resolve(inst, route):
    """Index sequence denoted by a route of names / ints; None if a name is unknown."""
    out = []
    for e in route:
        if isinstance(e, str):
            if e not in inst.names:
                return None
            out.append(inst.names.index(e))
        else:
            out.append(e)
    return out


def cover_problem(p, added_costs):
    """None if the constraint / objective data are the exact-cover system over the stored routes."""
    n = len(p.nodes)
    m = len(p.routes)
    if len(p.route_costs) != m or len(p.route_node_visited) != m:
        return f"lists not aligned: {m} routes, {len(p.route_costs)} costs, {len(p.route_node_visited)} visited"
    if len(set(map(tuple, p.routes))) != m:
        return f"a route is stored twice: {p.routes}"
    if to_int_list(p.route_costs) != added_costs:
        return f"stored costs {p.route_costs} differ from the arc-cost sums at the time of adding {added_costs}"
    for r, v in zip(p.routes, p.route_node_visited):
        if sorted(set(r)) != to_int_list(v):
            return f"route {r}: visited nodes stored as {list(v)}"
    if p.get_num_variables() != m:
        return f"get_num_variables {p.get_num_variables()} with {m} routes"
    if n == 0:
        return None
    try:
        A, b, Q, r = p.get_constraint_data()
        c, Qo = p.get_objective_data()
    except Exception as e:  # noqa: the exact-cover data must exist for every pool (also an empty one)
        return f"constraint / objective data raised {type(e).__name__} with {n} nodes and {m} stored routes"
    if tuple(A.shape) != (n - 1, m):
        return f"cover matrix shape {A.shape}, expected {(n - 1, m)}"
    Ad = dense(A)
    for k in range(1, n):
        for j in range(m):
            want = 1 if k in p.routes[j] else 0
            if Ad[k - 1][j] != want:
                return f"cover entry (customer {p.node_names[k]}, route {p.routes[j]}) is {Ad[k - 1][j]}, expected {want}"
    if to_int_list(b) != [1] * (n - 1):
        return f"right-hand side {list(b)}"
    if tuple(Q.shape) != (m, m) or Q.nnz != 0 or r != 0:
        return f"quadratic constraint not empty: shape {Q.shape} nnz {Q.nnz} r {r}"
    if to_int_list(c) != added_costs or tuple(Qo.shape) != (m, m) or Qo.nnz != 0:
        return f"objective data {list(c)}, Q shape {Qo.shape} nnz {Qo.nnz}"
    try:
        c2, A2, b2 = p.get_math_program_data()
    except Exception as e:  # noqa
        return f"get_math_program_data raised {type(e).__name__}"
    if to_int_list(c2) != added_costs or dense(A2) != Ad or to_int_list(b2) != [1] * (n - 1):
        return "get_math_program_data differs from get_constraint_data"
    x = [1] * m
    if p.get_routes(x) != [[p.node_names[i] for i in rt] for rt in p.routes]:
        return f"get_routes(all ones) = {p.get_routes(x)}"
    return None


def oracle(cap, init, ops):
    """Return None if the property holds along the history, else a description."""
    p = make(cap, init)
    added_costs = []
    for k, op in enumerate(ops):
        where = f"op {k} {op}"
        if op[0] in ("route", "check"):
            inst = Inst(p)
            before = [list(r) for r in p.routes]
            seq = resolve(inst, op[1])
            r = list(op[1])
            try:
                out = p.add_route(r) if op[0] == "route" else p.check_route(r)
            except Exception as e:  # noqa
                cls = exc_cls(e)
                unknown = any(isinstance(x, str) and x not in inst.names for x in op[1])
                empty_graph = inst.n == 0
                if len(op[1]) < 2:
                    return f"{where}: raised {cls} on a route shorter than 2"
                if not (unknown and cls == "ValueError") and not (empty_graph and cls == "IndexError"):
                    return f"{where}: raised {cls}"
                if [list(x) for x in p.routes] != before:
                    return f"{where}: raised but the route pool changed"
                continue
            if seq is None:
                want = False        # an unknown name beyond the point where the walk already failed
                # the walk must fail before reaching the unknown name: check on the known prefix
            else:
                want, wcost, wvis = ref_route(inst, seq)
            feas = bool(out[0])
            if seq is not None and feas != want:
                return (f"{where}: {'accepted' if feas else 'rejected'} {seq}, the route definition says "
                        f"{'valid' if want else 'invalid'} ({classify(inst, seq)})")
            if seq is None and feas:
                return f"{where}: accepted a route with an unknown name"
            if op[0] == "check":
                if feas:
                    if lit.exact_int(out[1]) != wcost:
                        return f"{where}: cost {out[1]}, sum of arc costs {wcost}"
                    if to_int_list(out[2]) != [1 if i in wvis else 0 for i in range(inst.n)]:
                        return f"{where}: visits_node {out[2]}, nodes on the route {sorted(wvis)}"
                if [list(x) for x in p.routes] != before:
                    return f"{where}: check_route changed the route pool"
            else:
                added = bool(out[1])
                should = feas and seq not in before
                if added != should:
                    return f"{where}: returned added={added}; feasible={feas}, previously stored={seq in before}"
                now = [list(x) for x in p.routes]
                if added:
                    if now != before + [seq]:
                        return f"{where}: pool is {now}, expected {before + [seq]}"
                    added_costs.append(wcost)
                elif now != before:
                    return f"{where}: not added but the pool changed"
                # the caller re-uses its list object for the next candidate: the stored route
                # (and with it its cost / cover column) must not change underneath
                del r[1:-1]
                r.append(0)
                if [list(x) for x in p.routes] != now:
                    return f"{where}: the stored route changed when the caller modified its own list afterwards (stored route aliases the argument)"
        else:
            r = apply(p, op)
        msg = cover_problem(p, added_costs)
        if msg:
            return f"after {where}: {msg}"
    return None


def check_one(inst, p, seq):
    """Compare check_route on one index sequence with the reference; None if they agree."""
    want, wcost, wvis = ref_route(inst, list(seq))
    try:
        feas, cost, vis = p.check_route(list(seq))
    except Exception as e:  # noqa
        return f"raised {exc_cls(e)}"
    if bool(feas) != want:
        return f"{'accepted' if feas else 'rejected'}; the route definition says {'valid' if want else 'invalid'} ({classify(inst, list(seq))})"
    if want:
        if lit.exact_int(cost) != wcost:
            return f"cost {cost}, sum of arc costs {wcost}"
        if to_int_list(vis) != [1 if i in wvis else 0 for i in range(inst.n)]:
            return f"visits_node {vis}, nodes on the route {sorted(wvis)}"
    return None


# ---------------- generators ----------------
def rep(rng, inst_names, seq, mode):
    """Represent an index sequence as names / indices / mixed."""
    out = []
    for i in seq:
        as_name = (mode == "names") or (mode == "mixed" and rng.random() < 0.5)
        if as_name and 0 <= i < len(inst_names):
            out.append(inst_names[i])
        else:
            out.append(i)
    return out


def design(rng, kind):
    """An instance built around a primary route that shows the feature `kind`.
    Returns (cap, init, node list [(name, demand, lo, hi)], arc list [(o, d, tt, cost)], primary)."""
    for _ in range(200):
        need = 2 if kind in ("late_mid",) else 1
        ncust = rng.randint(need, 4)
        k = rng.randint(need, ncust)
        order = rng.sample(range(1, ncust + 1), k)
        seq = [0] + order + [0]
        cap = rng.randint(0, 4)
        init = rng.randint(0, 4)
        dem = [0] * (ncust + 1)
        lo = [0] * (ncust + 1)
        hi = [INF] * (ncust + 1)
        for i in range(1, ncust + 1):
            dem[i] = rng.randint(-3, 3)
            lo[i] = rng.randint(0, 6)
            hi[i] = INF if rng.random() < 0.25 else lo[i] + rng.randint(0, 4)
        if rng.random() < 0.15:
            dem[0] = rng.choice([-1, 1])
        if rng.random() < 0.15:
            lo[0] = rng.randint(1, 2)
        # loads along the primary route
        special = rng.randrange(1, len(seq))            # stop that carries the feature
        if kind == "late_mid":
            special = rng.randrange(2, len(seq) - 1)
        if kind == "late_final":
            special = len(seq) - 1
        L = init
        ok = True
        for pos in range(1, len(seq)):
            node = seq[pos]
            if kind == "over" and pos == special:
                target = cap + 1
            elif kind == "under" and pos == special:
                target = -1
            elif kind == "eq_cap" and pos == special:
                target = cap
            elif kind == "eq_zero" and pos == special:
                target = 0
            elif kind == "random":
                target = L - rng.randint(-3, 3)
            else:
                target = rng.randint(0, cap)
            d = L - target
            if node == 0:
                d = dem[0]
                target = L - d
            if not -3 <= d <= 3:
                ok = False
                break
            dem[node] = d
            L = target
        if not ok:
            continue
        # times along the primary route
        tts = {}
        T = 0
        prev_slack = False      # previous stop was reached strictly after its window opened
        for pos in range(1, len(seq)):
            node = seq[pos]
            t = rng.randint(0, 3)
            if kind in ("late_mid", "late_final") and pos in (special, special - 1):
                t = rng.randint(1, 3)
            tts[(seq[pos - 1], node)] = t
            arr = T + t
            if kind == "random":
                T = max(arr, lo[node])
                continue
            if node == 0:
                T = max(arr, lo[0])
                if kind == "late_final":
                    hi[0] = T - 1
                elif kind == "eq_window" and pos == special:
                    hi[0] = T
                elif rng.random() < 0.4:
                    hi[0] = T + rng.randint(0, 2)
                continue
            if kind == "wait" and pos == special:
                lo[node] = arr + rng.randint(1, 2)
            elif kind in ("late_mid", "late_final") and pos == special - 1:
                lo[node] = rng.randint(0, max(0, arr - 1))
            elif rng.random() < 0.3:
                lo[node] = arr + rng.randint(1, 2)
            else:
                lo[node] = rng.randint(0, arr)
            T = max(arr, lo[node])
            if kind == "late_mid" and pos == special:
                hi[node] = arr - 1
                lo[node] = rng.randint(0, max(0, arr - 1))
                T = arr
            elif kind == "eq_window" and pos == special:
                hi[node] = T
            else:
                hi[node] = INF if rng.random() < 0.25 else T + rng.randint(0, 2)
        if any(lo[i] > hi[i] for i in range(ncust + 1)):
            continue
        nodes = [(NAMES[i], dem[i], lo[i], hi[i]) for i in range(ncust + 1)]
        arcs = []
        drop = None
        if kind == "missing_arc":
            drop = rng.choice(list(tts))
        for a, t in tts.items():
            if a != drop:
                arcs.append((a[0], a[1], t, rng.randint(-2, 9)))
        for i in range(ncust + 1):
            for j in range(ncust + 1):
                if (i, j) in tts:
                    continue
                if (i != j and rng.random() < 0.6) or (i == j and rng.random() < 0.12):
                    arcs.append((i, j, rng.randint(0, 4), rng.randint(-2, 9)))
        rng.shuffle(arcs)
        primary = seq
        if kind == "revisit":
            pos = rng.randrange(1, len(seq) - 1)
            primary = seq[:pos + 1] + [rng.choice(seq[:pos + 1])] + seq[pos + 1:]
        if kind == "endpoints":
            primary = rng.choice([seq[1:], seq[:-1], seq[1:-1] + [0] if len(seq) > 3 else seq[1:], [seq[1]] + seq[1:]])
        return cap, init, nodes, arcs, primary
    raise RuntimeError("design: no instance")


def random_seq(rng, n):
    """A random candidate over n nodes (n >= 1): mostly depot-to-depot walks."""
    k = rng.random()
    cust = list(range(1, n))
    if k < 0.6 and cust:
        mid = rng.sample(cust, rng.randint(1, len(cust)))
        return [0] + mid + [0]
    if k < 0.7 and cust:
        mid = [rng.choice(cust) for _ in range(rng.randint(2, 3))]      # may revisit
        return [0] + mid + [0]
    if k < 0.8:
        return [rng.randrange(0, n) for _ in range(rng.randint(2, 4))]  # any endpoints
    if k < 0.86:
        return [0, 0]
    if k < 0.93:
        return [rng.choice([0, n, n + 1, -1, -n]) for _ in range(1)] + [rng.randrange(-1, n + 1) for _ in range(rng.randint(1, 3))]
    return [0] * rng.randint(0, 1)


def revisit_case(rng):
    """A history on a small complete graph with wide windows and neutral demands, so that a route revisiting a customer
    fails ONLY the 'no customer twice' clause; the repeated customer is written once by name and once by index (or twice
    the same way), and the otherwise identical route without the repeat is offered too."""
    k = rng.randint(2, 3)
    names = NAMES[:k + 1]
    ops = [("node", "D", 0, 0, INF)] + [("node", nm, 0, 0, INF) for nm in names[1:]]
    for a in names:
        for b in names:
            if a != b:
                ops.append(("arc", a, b, rng.randint(0, 1), rng.randint(0, 3)))
    order = rng.sample(range(1, k + 1), k)
    rep_at = rng.randrange(len(order))
    seq = [0] + order + [order[rep_at]] + [0]                    # ... the customer at rep_at comes back at the end
    for _ in range(3):
        route = []
        for pos, i in enumerate(seq):
            route.append(names[i] if rng.random() < 0.5 else i)
        first = 1 + rep_at
        if rng.random() < 0.7:                                    # the two occurrences in different notations
            route[first] = names[seq[first]]
            route[-2] = seq[-2]
            if rng.random() < 0.5:
                route[first], route[-2] = seq[first], names[seq[-2]]
        ops.append((rng.choice(["route", "check"]), route))
    ops.append(("route", [0] + order + [0]))
    ops.append(("query", [1]))
    return 5, 2, ops, [0] + order + [0]


def gen_case(rng, kind):
    """One history: build the instance, then 1-12 route operations with queries and (sometimes)
    customers and arcs appended in between."""
    cap, init, nodes, arcs, primary = design(rng, kind)
    if rng.random() < 0.15:
        # far from the clock origin: every customer window and every leg out of the depot is moved by t0, so each
        # route keeps its validity while all arrival times are large and may miss a window by one unit only
        t0 = 1 << rng.choice([17, 20, 24])
        nodes = [nodes[0]] + [(nm_, dem_, lo_ + t0, hi_ if hi_ == INF else hi_ + t0) for (nm_, dem_, lo_, hi_) in nodes[1:]]
        arcs = [(i, j, (t + t0 if (i == 0 and j != 0) else t), c) for (i, j, t, c) in arcs]
    n = len(nodes)
    names = [x[0] for x in nodes]
    late_nodes = []
    if n > 2 and rng.random() < 0.45:
        late_nodes = [n - 1]                 # this customer is appended in the middle of the history
    ops = []
    if rng.random() < 0.08:
        ops.append(("check", rng.choice([[0, 0], ["D", "D"], [0, 1, 0], [], [0]])))      # empty graph
        if rng.random() < 0.5:
            ops.append(("query", []))
    for i, nd in enumerate(nodes):
        if i not in late_nodes:
            ops.append(("node",) + nd)
    pending = []
    for (i, j, t, c) in arcs:
        op = ("arc", names[i], names[j], t, c)
        (pending if (i in late_nodes or j in late_nodes) else ops).append(op)
    if rng.random() < 0.1:
        ops.append(("node", rng.choice(names[:n - len(late_nodes)]), 0, 0, 3))           # duplicate name
    if rng.random() < 0.1:
        ops.append(("arc", rng.choice(names), "X", 1, 1))                                # unknown endpoint
    nr = rng.randint(1, 12)
    when_late = rng.randrange(0, nr) if late_nodes else None
    # sometimes an existing arc is given new data in the middle of the history: routes stored
    # before keep the cost they had when they were added
    when_rearc = rng.randrange(1, nr) if (nr > 1 and arcs and rng.random() < 0.15) else None
    given = []
    for step in range(nr):
        if when_rearc is not None and step == when_rearc:
            i, j, t, c = rng.choice(arcs)
            if i not in late_nodes and j not in late_nodes:
                ops.append(("arc", names[i], names[j], max(0, t + rng.choice([-1, 0, 1])), c + rng.choice([-2, 1, 3])))
        if when_late is not None and step == when_late:
            for i in late_nodes:
                ops.append(("node",) + nodes[i])
            ops.extend(pending)
            if rng.random() < 0.5:
                ops.append(("query", [1] * 12))
        k = rng.random()
        if step == 0 or k < 0.22:
            seq = list(primary)
        elif k < 0.40 and given:
            seq = list(rng.choice(given))            # duplicate, usually in another representation
        elif k < 0.50:
            seq = list(primary)
            if len(seq) > 2 and rng.random() < 0.5:
                seq = seq[:-2] + [0]                  # shortened primary
            else:
                seq = [0] + list(reversed(seq[1:-1])) + [0]
        else:
            seq = random_seq(rng, n)
        mode = rng.choice(["names", "idx", "mixed"])
        route = rep(rng, names, seq, mode)
        m = rng.random()
        if m < 0.06 and route:
            route[rng.randrange(len(route))] = rng.choice(UNKNOWN)
        elif m < 0.09:
            route = rng.choice([[], ["D"], [0], ["X"], ["A"]])
        given.append(seq)
        ops.append(("check" if rng.random() < 0.25 else "route", route))
        if rng.random() < 0.2:
            ops.append(("query", [rng.randint(0, 1) for _ in range(rng.randint(0, 6))]))
    # final query with a selection vector of the right length
    p = make(cap, init)
    for op in ops:
        apply(p, op)
    m = len(p.routes)
    x = [rng.randint(0, 1) for _ in range(m)]
    if rng.random() < 0.1:
        x = x + [1]                                   # one entry too many
    ops.append(("query", x))
    return cap, init, ops, primary


# ---------------- Coq literals ----------------
def elem_lit(e):
    if isinstance(e, str):
        return f"inl {lit.nat(CODE[e])}"
    return f"inr {lit.z(e)}"


def route_lit(r):
    return lit.lst([elem_lit(e) for e in r])


def zl(v):
    return lit.lst([lit.z(x) for x in v])


def zm(M):
    return lit.lst([zl(r) for r in M])


def nl(v):
    return lit.lst([lit.nat(x) for x in v])


def nm(M):
    return lit.lst([nl(r) for r in M])


def op_lit(op):
    k = op[0]
    if k == "node":
        return f"PAddNode {lit.nat(CODE[op[1]])} {lit.z(op[2])} {lit.z(op[3])} {lit.ext(op[4])}"
    if k == "arc":
        return f"PAddArc {lit.nat(CODE[op[1]])} {lit.nat(CODE[op[2]])} {lit.z(op[3])} {lit.z(op[4])}"
    if k == "route":
        return f"PAddRoute {route_lit(op[1])}"
    if k == "check":
        return f"PCheckRoute {route_lit(op[1])}"
    return f"PQuery {zl(op[1])}"


def pad_square(Md, shape):
    """Dense matrix with an explicit shape check (a 0 x k matrix densifies to [])."""
    assert len(Md) == shape[0] and all(len(r) == shape[1] for r in Md), (Md, shape)
    return Md


def obs_lit(o):
    k = o[0]
    if k == "node":
        return "ONode " + (lit.ok("tt") if o[1] == "ok" else lit.err(o[2]))
    if k == "arc":
        return "OArc " + (lit.ok(lit.boolean(o[2])) if o[1] == "ok" else lit.err(o[2]))
    if k == "route":
        after = route_lit(o[3])
        if o[1] == "ok":
            return f"ORoute {after} " + lit.ok(lit.tup(lit.boolean(o[2][0]), lit.boolean(o[2][1])))
        return f"ORoute {after} " + lit.err(o[2])
    if k == "check":
        after = route_lit(o[3])
        if o[1] == "ok":
            return f"OCheck {after} " + lit.ok(lit.tup(lit.boolean(o[2][0]), lit.z(o[2][1]), zl(o[2][2])))
        return f"OCheck {after} " + lit.err(o[2])
    q = o[1]
    if q["mp"][0] == "ok":
        pad_square(q["mp"][2], q["mp"][4])
        mp = lit.ok(lit.tup(zl(q["mp"][1]), zm(q["mp"][2]), zl(q["mp"][3])))
    else:
        mp = lit.err(q["mp"][1])
    oc, oq, oshape, onnz = q["obj"]
    pad_square(oq, oshape)
    assert onnz == sum(1 for r in oq for v in r if v != 0)
    if q["cd"][0] == "ok":
        _, shape, A, b, Qe, r, qshape, qnnz = q["cd"]
        pad_square(A, shape)
        pad_square(Qe, qshape)
        cd = lit.ok(lit.tup(lit.pair(lit.nat(shape[0]), lit.nat(shape[1])), zm(A), zl(b), zm(Qe), lit.z(r)))
    else:
        cd = lit.err(q["cd"][1])
    if q["get_routes"][0] == "ok":
        gr = lit.ok(nm([[CODE[x] for x in r] for r in q["get_routes"][1]]))
    else:
        gr = lit.err(q["get_routes"][1])
    return "OQuery " + lit.tup(nm(q["routes"]), zl(q["costs"]), nm(q["visited"]), mp,
                               lit.pair(zl(oc), zm(oq)), cd, lit.nat(q["nvars"]), gr)


def case_lit(cap, init, ops, impl):
    return lit.tup(lit.z(cap), lit.z(init), lit.lst([op_lit(o) for o in ops]),
                   lit.lst(["(" + obs_lit(o) + ")" for o in impl]))


def shrink(cap, init, ops):
    ops = list(ops)
    changed = True
    while changed:
        changed = False
        for i in range(len(ops)):
            cand = ops[:i] + ops[i + 1:]
            if cand and oracle(cap, init, cand):
                ops = cand
                changed = True
                break
    return ops


def jsonable(ops):
    return [[(x if x != INF else "inf") if not isinstance(x, list) else x for x in op] for op in ops]


def unjson(ops):
    out = []
    for op in ops:
        out.append(tuple((INF if x == "inf" else x) for x in op))
    return out


def run(ctx):
    ctx.prove()
    # model regenerated from the source of path_based_rp.py on this run + proofs that it is Path.v (notes/C06_gen.md)
    import translate_path as T
    ctx.gen_step("path", T.translate, "C06_gen",
                 "harness/translate_path.py (ast -> Gallina printer for check_arc / check_route / add_route / get_num_variables / "
                 "get_math_program_data / get_objective_data / get_constraint_data of PathBasedRoutingProblem: assignments, "
                 "if/else, for loops with early return, try/except KeyError, list / dict subscripts, the numpy calls of the "
                 "cover matrix) and the combinator definitions of coq/theories/PyPath.v it prints into")
    from props import pysem; pysem.run(ctx, pysem.GROUPS_FOR.get(ctx.pid, ()))
    rng = ctx.rng
    n_cases = 390 if ctx.quick else 6000
    ex_len = 5 if ctx.quick else 6
    n_sweep = 45 if ctx.quick else 260
    ctx.assumptions.append("set_vehicle_cap and set_initial_loading are called with numbers before routes are checked "
                           "(the defaults None make check_arc raise TypeError)")
    ctx.assumptions.append("route elements are Python str (names) or int (indices); a negative int is not a node index "
                           "(the code never accepts one: no arc key is negative)")
    ctx.assumptions.append("integer data: travel times, window bounds, demands, costs, capacity are ints or inf, so float rounding plays no role")

    from props import c06_depot
    n_depot = c06_depot.run_stream(ctx, 40 if ctx.quick else 600)      # depot chosen after nodes and arcs exist

    reported = set()

    def report(cap, init, ops, msg, sig):
        if sig in reported:
            return
        reported.add(sig)
        small = shrink(cap, init, ops)
        msg2 = oracle(cap, init, small) or msg
        ctx.violation(sig, msg2, {"cap": cap, "init": init, "history": jsonable(small),
                                  "python": "props.c06.oracle(cap, init, history)"}, True)

    def signature(msg):
        for key, sig in (("accepted", "oracle/check_route/accepts-invalid"), ("rejected", "oracle/check_route/rejects-valid"),
                         ("cost", "oracle/check_route/cost"), ("visits_node", "oracle/check_route/visits"),
                         ("added=", "oracle/add_route/store-once"), ("stored twice", "oracle/add_route/store-once"),
                         ("cover", "oracle/cover-matrix"), ("right-hand", "oracle/cover-rhs"), ("raised", "oracle/exception")):
            if key in msg:
                return sig
        return "oracle/history"

    # 1. all node sequences up to length ex_len over designed instances (oracle on the implementation)
    n_seq = 0
    sweep_kinds = {}
    for k in range(n_sweep):
        kind = KINDS[k % len(KINDS)]
        cap, init, nodes, arcs, primary = design(rng, kind)
        names = [x[0] for x in nodes]
        build = [("node",) + nd for nd in nodes] + [("arc", names[i], names[j], t, c) for (i, j, t, c) in arcs]
        p = make(cap, init)
        for op in build:
            apply(p, op)
        inst = Inst(p)
        bad = None
        for ln in range(0, ex_len + 1):
            for seq in itertools.product(range(inst.n), repeat=ln):
                n_seq += 1
                msg = check_one(inst, p, seq)
                if msg:
                    bad = (list(seq), msg)
                    break
                if ln >= 2 and seq[0] == 0 and seq[-1] == 0:
                    lab = classify(inst, list(seq))
                    sweep_kinds[lab] = sweep_kinds.get(lab, 0) + 1
            if bad:
                break
        # the same by names / mixed, and with indices outside the node range, on shorter sequences
        if not bad:
            for ln in range(2, 5):
                for seq in itertools.product(range(-1, inst.n + 1), repeat=ln):
                    if all(0 <= i < inst.n for i in seq) and rng.random() < 0.7:
                        continue
                    n_seq += 1
                    route = rep(rng, names, list(seq), rng.choice(["names", "mixed", "idx"]))
                    want = ref_route(inst, list(seq))[0]
                    try:
                        got = bool(p.check_route(list(route))[0])
                    except Exception as e:  # noqa
                        bad = (route, f"raised {exc_cls(e)}")
                        break
                    if got != want:
                        bad = (route, f"{'accepted' if got else 'rejected'}; the route definition says {'valid' if want else 'invalid'}")
                        break
                if bad:
                    break
        if bad:
            ops = build + [("check", bad[0])]
            msg = oracle(cap, init, ops) or f"check_route({bad[0]}): {bad[1]}"
            report(cap, init, ops, msg, signature(msg))
    ctx.cov["exhaustive"] = {"instances": n_sweep, "sequences": n_seq,
                             "bound": f"all index sequences of length <= {ex_len} over every instance (<= 5 nodes), plus names/mixed/out-of-range variants of length <= 4",
                             "depot_to_depot_labels": dict(sorted(sweep_kinds.items()))}

    # 2. histories: oracle + correspondence with the model
    cases = []
    terms = []
    kinds = {}
    labels = {}
    outcomes = {"feasible_added": 0, "feasible_duplicate": 0, "rejected": 0, "ValueError": 0, "IndexError": 0,
                "node_later": 0, "queries": 0, "dup_other_representation": 0, "arc_overwritten_later": 0}
    seen = set()
    for k in range(n_cases):
        kind = KINDS[k % len(KINDS)]
        if k % 13 == 12:
            kind = "revisit_mixed_notation"
            cap, init, ops, primary = revisit_case(rng)
        else:
            cap, init, ops, primary = gen_case(rng, kind)
        kinds[kind] = kinds.get(kind, 0) + 1
        msg = oracle(cap, init, ops)
        if msg:
            report(cap, init, ops, msg, signature(msg))
        impl = run_impl(cap, init, ops)
        cases.append((cap, init, ops, impl))
        terms.append(case_lit(cap, init, ops, impl))
        # statistics
        p = make(cap, init)
        first_route = False
        has_add = has_rej = False
        stored_as = {}
        for op, ob in zip(ops, impl):
            if op[0] in ("route", "check"):
                inst = Inst(p)
                seq = resolve(inst, op[1])
                if seq is not None:
                    lab = classify(inst, seq)
                    labels[lab] = labels.get(lab, 0) + 1
                if ob[1] == "err":
                    outcomes[ob[2]] = outcomes.get(ob[2], 0) + 1
                elif op[0] == "route":
                    if ob[2] == (True, True):
                        outcomes["feasible_added"] += 1
                        has_add = True
                        stored_as[tuple(seq)] = [type(e).__name__ for e in op[1]]
                    elif ob[2] == (True, False):
                        outcomes["feasible_duplicate"] += 1
                        if stored_as.get(tuple(seq)) != [type(e).__name__ for e in op[1]]:
                            outcomes["dup_other_representation"] += 1
                    else:
                        outcomes["rejected"] += 1
                        has_rej = True
                first_route = True
            elif op[0] == "node" and first_route and ob[1] == "ok":
                outcomes["node_later"] += 1
            elif op[0] == "arc" and first_route and ob[1] == "ok" and ob[2] and op[1] in p.node_names and op[2] in p.node_names \
                    and (p.node_names.index(op[1]), p.node_names.index(op[2])) in p.arcs:
                outcomes["arc_overwritten_later"] += 1
            elif op[0] == "query":
                outcomes["queries"] += 1
            apply(p, op)
        key = repr((cap, init, ops))
        if key not in seen and has_add and has_rej:
            seen.add(key)
            ctx.count(nontrivial=1)
    ctx.count(evaluations=n_seq + n_cases, traces=n_cases)
    ctx.cov["input_distribution"] = {"design_kinds": kinds, "route_labels_by_reference": dict(sorted(labels.items())),
                                     "outcomes": outcomes}
    ctx.cov["rule"] = ("histories: instance built around a primary route of a chosen kind (valid / must wait / equality at window end / "
                       "exactly full / exactly empty / one unit late at an intermediate node / late only at the final depot / one unit over / "
                       "one unit under / revisit / missing arc / wrong endpoints / random), 1-4 customers, then 1-12 add_route/check_route calls "
                       "given as names, indices or mixed, duplicates, unknown names, out-of-range and negative indices, short lists, "
                       "customers and arcs appended in between, queries; non-trivial = distinct history in which at least one route was "
                       "stored and at least one was rejected")
    for c in cases[:3]:
        ctx.sample({"cap": c[0], "init": c[1], "history": jsonable(c[2])})
    # every kind of near-valid route must actually have occurred
    needed = ["late_mid_only_by1", "late_final_only", "over_only_by1", "under_only_by1", "revisit", "missing_arc",
              "endpoints", "short", "out_of_range"]
    missing = [x for x in needed if not any(l.startswith(x) for l in labels)]
    for t in ("wait", "eqhi", "eqcap", "eq0"):
        if not any(l.startswith("valid") and t in l for l in labels):
            missing.append("valid+" + t)
    for o in ("feasible_added", "feasible_duplicate", "rejected", "ValueError", "IndexError", "node_later", "dup_other_representation"):
        if not outcomes.get(o):
            missing.append(o)
    if missing:
        ctx.tooling_failure("generator-coverage", f"route kinds never generated: {missing}")

    mism, err = ctx.coq_mismatches("hist", HEADER, "pcase", "check_pcase", terms, shard=130)
    shown = 0
    for idx, tags in mism:
        cap, init, ops, impl = cases[idx]
        msg = oracle(cap, init, ops)
        if msg:
            report(cap, init, ops, msg, signature(msg))
            continue
        if shown >= 3:
            continue
        shown += 1
        model = ctx.coq_eval(HEADER, f"ptrace {lit.lst([op_lit(o) for o in ops])} (pempty {lit.z(cap)} {lit.z(init)})")
        ctx.violation(f"correspondence/path/tags{tags}",
                      f"model and implementation disagree on a history (fields {tags}: 1 add_node, 2 add_arc, 3 add_route result, "
                      "4 list after add_route, 5 check_route result, 6 list after check_route, 7 routes, 8 costs, 9 visited, "
                      "10 math program data, 11 objective/constraint data, 12 get_routes, 13 kind/length); "
                      "the property oracle found no failing input on it",
                      {"correspondence": "Path.check_pcase", "cap": cap, "init": init, "history": jsonable(ops),
                       "implementation": repr(impl), "model": model}, False)
    if ctx.tier == "thorough":
        ctx.coqchk("VQP.C06")


def replay(ctx, data):
    r = data["replay"]
    print(oracle(r["cap"], r["init"], [tuple(o) for o in unjson(r["history"])]))
