"""C14 helper: instrumentation of REAL formulation objects (no change to /repo).

instrument(rp) swaps the class of the object (and of its VRPTW graph) for a dynamically created logging
subclass and wraps the mutable data containers, so that while the real methods run we see

    flag writes            self.<flag> = b                      -> SetFlag cache b
    data writes            graph (nodes, node_names, arcs dict, depot, capacities), time_points,
                           max_vehicles, vehicle_cost (also .append), max_sequence_length, strict
                                                                 -> Mutate
    builder calls          enumerate_variables / build_* (outermost call = one Build / BuildAbort action;
                           everything inside is checked against the definition of Build in Cache.v:
                           nothing at all when the flag is set; otherwise only the dependency build, writes
                           to the own cache and to Vars, flags set to True, no data write)
    cache reads            every attribute read of a cache field outside a builder -> Read cache
    anything else          attribute the model does not know (e.g. a new lookup table) -> anomaly

and, after every effective outermost build, the "from scratch" test: the content of the cache must equal
what a pristine object holding a deep copy of the same data computes with the same builder.
"""
import copy

import numpy as np
import scipy.sparse as sp

from props.fp_common import _num, dense

CIDS = ["Vars", "Con", "Obj", "Quad"]

SPEC = {
    "ArcBasedRoutingProblem": {
        "kind": "arc",
        "flags": {"variables_enumerated": "Vars", "constraints_built": "Con", "objective_built": "Obj"},
        "caches": {"var_mapping": "Vars", "num_variables": "Vars",
                   "constraints_matrix": "Con", "constraints_rhs": "Con", "constraint_names": "Con",
                   "objective": "Obj"},
        "data": {"time_points", "vrptw"},
        "result": {"feasible_solution"},
        "builders": {"enumerate_variables": "Vars", "enumerate_variables_quicker": "Vars",
                     "enumerate_variables_exhaustive": "Vars",
                     "build_constraints": "Con", "build_constraints_quicker": "Con",
                     "build_constraints_exhaustive": "Con", "build_objective": "Obj"},
        # builders that test the flag themselves; the others are bodies and always recompute
        "guarded": {"enumerate_variables", "build_constraints", "build_objective"},
    },
    "SequenceBasedRoutingProblem": {
        "kind": "seq",
        "flags": {"variables_enumerated": "Vars", "lin_con_built": "Con", "objective_built": "Obj",
                  "quad_con_built": "Quad"},
        "caches": {"var_mapping": "Vars", "var_mapping_inverse": "Vars", "fixed_values": "Vars",
                   "num_variables": "Vars",
                   "linear_constraints_matrix": "Con", "linear_constraints_rhs": "Con", "lin_con_names": "Con",
                   "objective_c": "Obj", "objective_q": "Obj",
                   "quadratic_constraints_matrix": "Quad"},
        "data": {"max_vehicles", "vehicle_cost", "max_sequence_length", "strict", "vrptw"},
        "result": {"feasible_solution"},
        "builders": {"enumerate_variables": "Vars", "build_linear_constraints": "Con",
                     "build_objective": "Obj", "build_quadratic_constraints": "Quad"},
        "guarded": {"enumerate_variables", "build_linear_constraints", "build_objective",
                    "build_quadratic_constraints"},
    },
    "PathBasedRoutingProblem": {
        "kind": "path", "flags": {}, "caches": {},
        "data": {"routes", "route_costs", "route_node_visited", "vrptw"},
        "result": {"feasible_solution"}, "builders": {}, "guarded": set(),
    },
}
GRAPH_DATA = {"node_names", "nodes", "arcs", "depot_index", "vehicle_cap", "initial_loading"}


class Recorder:
    def __init__(self, rp, spec, orig_cls):
        self.rp = rp
        self.spec = spec
        self.orig_cls = orig_cls
        self.active = False
        self.depth = 0
        self.ops = []            # finished user-level calls: dict(label, raised, actions=[(text, flags)])
        self.cur = None
        self.stack = []          # builder frames
        self.anomalies = []      # (signature, detail)
        self.scratch_checks = 0
        self.flag_names = [None] * 4
        for name, cid in spec["flags"].items():
            self.flag_names[CIDS.index(cid)] = name

    # ---- raw access, never logged ----
    def flags(self):
        d = object.__getattribute__(self.rp, "__dict__")
        return [bool(d.get(n, False)) if n else False for n in self.flag_names]

    def anomaly(self, sig, detail):
        if len(self.anomalies) < 20:
            self.anomalies.append((sig, detail))

    # ---- user-level calls ----
    def begin(self, label):
        self.cur = {"label": label, "raised": False, "actions": []}
        self.active = True

    def end(self, raised):
        self.active = False
        self.cur["raised"] = raised
        self.ops.append(self.cur)
        self.cur = None
        self.stack = []
        self.depth = 0

    def emit(self, text):
        if self.cur is not None:
            self.cur["actions"].append((text, self.flags()))

    # ---- events ----
    def on_flag(self, cid, value):
        if not self.active:
            return
        if self.stack:
            self.stack[-1]["events"].append(("flag", cid, bool(value)))
        else:
            self.emit(f"SetFlag {cid} {'true' if value else 'false'}")

    def on_mut(self, what):
        if not self.active:
            return
        if self.stack:
            self.stack[-1]["events"].append(("mut", what))
        else:
            self.emit("Mutate")

    def on_cwrite(self, cid, attr):
        if not self.active:
            return
        if self.stack:
            self.stack[-1]["events"].append(("cwrite", cid, attr))
        else:
            self.anomaly("trace/cache-write-outside-build", f"{attr} written outside any builder")

    def on_cread(self, cid, attr):
        if not self.active:
            return
        if self.stack:
            self.stack[-1]["events"].append(("cread", cid, attr, self.flags(), self.stack[-1]["cid"]))
        else:
            self.emit(f"Read {cid}")

    def on_unknown(self, how, attr):
        if self.active:
            self.anomaly("trace/unmodelled-state", f"attribute '{attr}' {how} by the object; it is not part of the cache model")

    # ---- builders ----
    def enter(self, fname, cid):
        fr = {"fname": fname, "cid": cid, "flags_in": self.flags(), "events": []}
        if self.stack:
            self.stack[-1]["events"].append(("call", cid, fname))
        self.stack.append(fr)

    def exit(self, raised):
        fr = self.stack.pop()
        if self.stack:
            # nested: hand the events to the enclosing builder
            self.stack[-1]["events"].extend(fr["events"])
            return None
        return fr

    def conform(self, fr, raised):
        """Check the events inside an outermost builder call against Cache.build."""
        cid, fname = fr["cid"], fr["fname"]
        was_set = fr["flags_in"][CIDS.index(cid)]
        guarded = fname in self.spec["guarded"]
        if guarded and was_set:
            if fr["events"]:
                self.anomaly("trace/build-shape", f"{fname} called with its flag set is not a no-op: {fr['events'][:4]}")
            return False
        if not guarded:
            self.anomaly("trace/build-shape", f"builder body {fname} called directly (forced rebuild)")
        wrote_own = False
        for ev in fr["events"]:
            if ev[0] == "mut":
                self.anomaly("trace/build-shape", f"{fname} changes problem data ({ev[1]})")
            elif ev[0] == "flag":
                if not ev[2] or ev[1] not in (cid, "Vars"):
                    self.anomaly("trace/build-shape", f"{fname} writes flag {ev[1]} = {ev[2]}")
            elif ev[0] == "cwrite":
                if ev[1] not in (cid, "Vars"):
                    self.anomaly("trace/build-shape", f"{fname} writes cache field {ev[2]} of {ev[1]}")
                if ev[1] == cid:
                    wrote_own = True
            elif ev[0] == "call":
                if ev[1] not in (cid, "Vars"):
                    self.anomaly("trace/build-shape", f"{fname} calls builder {ev[2]}")
            elif ev[0] == "cread":
                if ev[1] not in (cid, "Vars"):
                    self.anomaly("trace/build-shape", f"{fname} reads cache field {ev[2]} of {ev[1]}")
                elif ev[1] == "Vars" and ev[4] != "Vars" and not ev[3][0]:
                    self.anomaly("trace/build-shape", f"{fname} reads {ev[2]} while the variables are not enumerated")
        if not raised:
            now = self.flags()
            if not now[CIDS.index(cid)] or not now[0]:
                self.anomaly("trace/build-shape", f"{fname} returned without setting its flag / the variables flag")
            if not wrote_own:
                self.anomaly("trace/build-shape", f"{fname} returned without writing its cache")
        return not raised


# --------------------------------------------------------------------------- logging containers
class LogDict(dict):
    _rec = None
    _what = "arcs"

    def _m(self):
        if self._rec is not None:
            self._rec.on_mut(self._what)

    def __setitem__(self, k, v):
        self._m(); dict.__setitem__(self, k, v)

    def __delitem__(self, k):
        self._m(); dict.__delitem__(self, k)

    def pop(self, *a):
        self._m(); return dict.pop(self, *a)

    def popitem(self):
        self._m(); return dict.popitem(self)

    def clear(self):
        self._m(); dict.clear(self)

    def update(self, *a, **k):
        self._m(); dict.update(self, *a, **k)

    def setdefault(self, *a):
        self._m(); return dict.setdefault(self, *a)

    def __deepcopy__(self, memo):
        out = {}
        memo[id(self)] = out
        for k, v in dict.items(self):
            out[copy.deepcopy(k, memo)] = copy.deepcopy(v, memo)
        return out

    def __reduce__(self):
        return (dict, (dict(self),))


class LogList(list):
    _rec = None
    _what = "list"

    def _m(self):
        if self._rec is not None:
            self._rec.on_mut(self._what)

    def append(self, x):
        self._m(); list.append(self, x)

    def extend(self, x):
        self._m(); list.extend(self, x)

    def insert(self, i, x):
        self._m(); list.insert(self, i, x)

    def pop(self, *a):
        self._m(); return list.pop(self, *a)

    def remove(self, x):
        self._m(); list.remove(self, x)

    def clear(self):
        self._m(); list.clear(self)

    def sort(self, *a, **k):
        self._m(); list.sort(self, *a, **k)

    def reverse(self):
        self._m(); list.reverse(self)

    def __setitem__(self, i, x):
        self._m(); list.__setitem__(self, i, x)

    def __delitem__(self, i):
        self._m(); list.__delitem__(self, i)

    def __iadd__(self, x):
        self._m(); return list.__iadd__(self, x)

    def __imul__(self, x):
        self._m(); return list.__imul__(self, x)

    def __deepcopy__(self, memo):
        out = []
        memo[id(self)] = out
        for v in list.__iter__(self):
            out.append(copy.deepcopy(v, memo))
        return out

    def __reduce__(self):
        return (list, (list(self),))


def _wrap(value, rec, what):
    if type(value) is dict:
        w = LogDict(value)
    elif type(value) is list:
        w = LogList(value)
    else:
        return value
    w._rec = rec
    w._what = what
    return w


# --------------------------------------------------------------------------- instrumentation
def instrument(rp):
    """Swap the classes of rp and rp.vrptw for logging subclasses; returns the Recorder."""
    orig = type(rp)
    spec = SPEC[orig.__name__]
    rec = Recorder(rp, spec, orig)
    flags, caches, data, result = spec["flags"], spec["caches"], spec["data"], spec["result"]
    known = set(flags) | set(caches) | data | result | {"_vq_rec", "vq_mf"}

    def __setattr__(self, name, value):
        r = object.__getattribute__(self, "__dict__").get("_vq_rec")
        if r is not None and r.active:
            if name in flags:
                object.__setattr__(self, name, value)
                r.on_flag(flags[name], value)
                return
            if name in caches:
                r.on_cwrite(caches[name], name)
            elif name in data:
                r.on_mut(name)
                value = _wrap(value, r, name)
            elif name in result:
                pass
            else:
                r.on_unknown("written", name)
        object.__setattr__(self, name, value)

    def __getattribute__(self, name):
        val = object.__getattribute__(self, name)
        if name[:2] == "__":
            return val
        d = object.__getattribute__(self, "__dict__")
        r = d.get("_vq_rec")
        if r is not None and r.active and name in d:
            if name in caches:
                r.on_cread(caches[name], name)
            elif name not in known:
                r.on_unknown("read", name)
        return val

    ns = {"__setattr__": __setattr__, "__getattribute__": __getattribute__}

    def make_builder(fname, cid):
        real = getattr(orig, fname)

        def wrapper(self, *a, **k):
            r = object.__getattribute__(self, "__dict__").get("_vq_rec")
            if r is None or not r.active:
                return real(self, *a, **k)
            r.enter(fname, cid)
            raised = True
            try:
                out = real(self, *a, **k)
                raised = False
                return out
            finally:
                fr = r.exit(raised)
                if fr is not None:
                    effective = r.conform(fr, raised)
                    was_set = fr["flags_in"][CIDS.index(cid)]
                    if raised and not was_set:
                        r.emit(f"BuildAbort {cid}")
                    else:
                        r.emit(f"Build {cid}")
                    if effective:
                        r.active = False
                        try:
                            scratch_check(r, fname, cid)
                        finally:
                            r.active = True
        wrapper.__name__ = fname
        return wrapper

    for fname, cid in spec["builders"].items():
        if hasattr(orig, fname):
            ns[fname] = make_builder(fname, cid)
    sub = type("VQ_" + orig.__name__, (orig,), ns)

    # the graph
    g = rp.vrptw
    gorig = type(g)

    def g_setattr(self, name, value):
        r = object.__getattribute__(self, "__dict__").get("_vq_rec")
        if r is not None and name != "_vq_rec":
            r.on_mut("vrptw." + name)
            value = _wrap(value, r, "vrptw." + name)
        object.__setattr__(self, name, value)

    gsub = type("VQ_" + gorig.__name__, (gorig,), {"__setattr__": g_setattr})
    object.__setattr__(g, "_vq_rec", rec)
    for name in ("arcs", "nodes", "node_names"):
        object.__setattr__(g, name, _wrap(g.__dict__[name], rec, "vrptw." + name))
    g.__class__ = gsub
    for name in data:
        if name in rp.__dict__ and name != "vrptw":
            object.__setattr__(rp, name, _wrap(rp.__dict__[name], rec, name))
    object.__setattr__(rp, "_vq_rec", rec)
    rp.__class__ = sub
    rec.graph_orig = gorig
    return rec


# --------------------------------------------------------------------------- pristine copies
def pristine_copy(rp, orig_cls=None, graph_cls=None):
    """A new object of the original class holding a deep copy of rp's problem data and NOTHING else of rp:
    every other attribute (flags, caches, anything a changed class may have added) is taken from a newly
    constructed object."""
    d = object.__getattribute__(rp, "__dict__")
    rec = d.get("_vq_rec")
    cls = orig_cls or (rec.orig_cls if rec else type(rp))
    spec = SPEC[cls.__name__]
    new = cls()
    nd = object.__getattribute__(new, "__dict__")
    memo = {}
    g = d["vrptw"]
    gd = object.__getattribute__(g, "__dict__")
    gcls = graph_cls or (rec.graph_orig if rec else type(g))
    g2 = gcls()
    for k, v in gd.items():
        if k != "_vq_rec":
            g2.__dict__[k] = copy.deepcopy(v, memo)
    nd["vrptw"] = g2
    for k in spec["data"] | spec["result"]:
        if k != "vrptw" and k in d:
            nd[k] = copy.deepcopy(d[k], memo)
    return new


def xnum(v):
    if isinstance(v, (tuple, list)):
        return [xnum(x) for x in v]
    return _num(v)


def cache_content(rp, kind, cid):
    """Exact JSON-able content of one cache of an arc / sequence object (raw attribute access)."""
    d = object.__getattribute__(rp, "__dict__")

    def mat(M):
        if M is None:
            return None
        return {"shape": [int(s) for s in M.shape], "data": dense(M)}

    if kind == "arc":
        if cid == "Vars":
            return {"var_mapping": xnum(d["var_mapping"]), "num_variables": int(d["num_variables"])}
        if cid == "Con":
            return {"A": mat(d["constraints_matrix"]), "b": None if d["constraints_rhs"] is None else dense(d["constraints_rhs"]),
                    "names": list(d["constraint_names"])}
        if cid == "Obj":
            return {"c": None if d["objective"] is None else dense(d["objective"])}
    if kind == "seq":
        if cid == "Vars":
            inv = d["var_mapping_inverse"]
            return {"var_mapping": xnum(d["var_mapping"]), "num_variables": int(d["num_variables"]),
                    "inverse": None if inv is None else np.asarray(inv).tolist(),
                    "fixed_values": [[list(k), _num(v)] for k, v in d["fixed_values"].items()]}
        if cid == "Con":
            return {"A": mat(d["linear_constraints_matrix"]),
                    "b": None if d["linear_constraints_rhs"] is None else dense(d["linear_constraints_rhs"]),
                    "names": list(d["lin_con_names"])}
        if cid == "Obj":
            return {"c": None if d["objective_c"] is None else dense(d["objective_c"]), "q": mat(d["objective_q"])}
        if cid == "Quad":
            return {"R": mat(d["quadratic_constraints_matrix"])}
    return None


GUARDED_OF = {"arc": {"Vars": "enumerate_variables", "Con": "build_constraints", "Obj": "build_objective"},
              "seq": {"Vars": "enumerate_variables", "Con": "build_linear_constraints", "Obj": "build_objective",
                      "Quad": "build_quadratic_constraints"}}


def scratch_check(rec, fname, cid):
    """After an effective build of cache `cid`: same content as a pristine object with the same data."""
    rp = rec.rp
    kind = rec.spec["kind"]
    rec.scratch_checks += 1
    ref = pristine_copy(rp)
    try:
        getattr(ref, GUARDED_OF[kind][cid])()
    except Exception as e:  # noqa
        rec.anomaly("scratch/reference-raised", f"{fname}: pristine object raised {type(e).__name__}: {e}")
        return
    for c in sorted({cid, "Vars"}):
        mine, theirs = cache_content(rp, kind, c), cache_content(ref, kind, c)
        if mine != theirs:
            keys = [k for k in mine if mine[k] != theirs[k]]
            rec.anomaly("scratch/not-rebuilt-from-scratch",
                        f"after {fname}: cache {c} fields {keys} differ from what a pristine object with the same data "
                        f"computes (e.g. {keys[0]}: {str(mine[keys[0]])[:160]} vs {str(theirs[keys[0]])[:160]})")
            return
    # the lookups must agree with the enumeration they belong to
    try:
        vm = list(object.__getattribute__(rp, "__dict__")["var_mapping"])
        got = [rp.get_var_index(*t) for t in vm]
        # (a grid given with a repeated point lists a tuple twice; the lookup then answers with its first position)
        if [None if g is None else int(g) for g in got] != [vm.index(t) for t in vm]:
            rec.anomaly("scratch/lookup-disagrees-with-enumeration",
                        f"after {fname}: get_var_index over var_mapping = {got[:12]} instead of 0..{len(vm) - 1}")
    except Exception as e:  # noqa
        rec.anomaly("scratch/lookup-disagrees-with-enumeration", f"after {fname}: get_var_index raised {type(e).__name__}: {e}")


# --------------------------------------------------------------------------- Coq literals
def op_literal(op):
    acts = "; ".join(f"({t}, [{'; '.join('true' if b else 'false' for b in fl)}])" for t, fl in op["actions"])
    if op["label"] == "HHeur":
        lab = "HHeur"
    else:
        lab = f"HQuery {op['label']} {'true' if op['raised'] else 'false'}"
    return f"({lab}, [{acts}])"


def case_literal(kind, ops):
    k = {"arc": "KArc", "seq": "KSeq", "path": "KPath"}[kind]
    return f"({k}, [{'; '.join(op_literal(o) for o in ops)}])"
