"""C17 -- model construction is reproducible.

Proof: coq/props/C17.v (re-seed-before-draw makes the route pool independent of the prior
generator state; arc/sequence builders do not touch the generator; the time grid is independent
of set iteration order; seeded random instances).  PARTIAL by nature: separate interpreters,
PYTHONHASHSEED and numpy's global generator are runtime facts.  Tie and search:
 (a) an RNG monitor around the real builders (first RNG event of get_path_based is seed(0); the
     arc / sequence builders leave numpy's global state untouched and make no RNG call);
 (b) component fingerprints from child interpreters under PYTHONHASHSEED in {0,1,2,random} x
     prior generator state {fresh, seeded, advanced};
 (c) RandomMIRP with an explicit seed (including seed 0), twice in one process and across processes."""
import dataclasses
import json
import os
import subprocess
import sys
from concurrent.futures import ThreadPoolExecutor

import numpy as np

from props import fp_common as fp
from vq.core import REPO, exc_cls

CHILD = os.path.join(os.path.dirname(os.path.abspath(__file__)), "c17_child.py")
RNG_FUNCS = ["seed", "choice", "random", "rand", "randn", "randint", "uniform", "normal", "permutation",
             "shuffle", "random_sample", "sample", "exponential", "poisson", "binomial"]


class Monitor:
    """Records calls to numpy's global-generator functions (module attributes)."""
    def __init__(self, track_state=False):
        self.events = []
        self.saved = {}
        self.track_state = track_state
        self.states = []

    def __enter__(self):
        for name in RNG_FUNCS:
            if hasattr(np.random, name):
                orig = getattr(np.random, name)
                self.saved[name] = orig

                def wrapper(*a, _n=name, _o=orig, **k):
                    self.events.append((_n, a[0] if (_n == "seed" and a) else None))
                    if self.track_state and _n != "seed":
                        self.states.append(state_digest())      # generator state each draw starts from
                    return _o(*a, **k)
                setattr(np.random, name, wrapper)
        return self

    def __exit__(self, *exc):
        for name, orig in self.saved.items():
            setattr(np.random, name, orig)


def state_digest():
    st = np.random.get_state()
    return fp.digest([st[0], st[1].tolist(), st[2], st[3], st[4]])


def monitor_checks(ctx, horizons):
    from vrpqubo.examples.mirp_g1 import get_mirp
    n = 0
    for h in horizons:
        for prior in (None, 5):
            if prior is not None:
                np.random.seed(prior)
                np.random.random(prior)
            m = get_mirp(h)
            for name in ("arc", "seq"):
                s0 = state_digest()
                with Monitor() as mon:
                    try:
                        (m.get_arc_based if name == "arc" else (lambda: m.get_sequence_based(strict=False)))()
                    except Exception as e:  # noqa
                        ctx.cov.setdefault("build_errors", []).append(f"g1:{h}:{name}:{exc_cls(e)}")
                n += 1
                if mon.events or state_digest() != s0:
                    ctx.violation(f"oracle/rng/{name}-builder-uses-rng",
                                  f"{name}-based builder touched numpy's global generator (events {mon.events[:5]})",
                                  {"example": "mirp_g1.get_mirp", "horizon": h, "events": mon.events[:20]}, True)
            with Monitor() as mon:
                m.get_path_based()
            n += 1
            draws = [e for e in mon.events if e[0] != "seed"]
            if draws and (not mon.events or mon.events[0][0] != "seed" or mon.events[0][1] is None):
                ctx.violation("oracle/rng/path-draws-before-seeding",
                              f"get_path_based drew from the global generator before re-seeding it: first events {mon.events[:4]}",
                              {"example": "mirp_g1.get_mirp", "horizon": h, "events": [list(map(str, e)) for e in mon.events[:10]]}, True)
            # model (Rng.v): after the re-seed, the state every draw starts from is a function of the seed and of the
            # draws made since -- never of the caller's state.  Compare the per-draw states of two builds of the same
            # problem started from different generator states.
            seqs = []
            for prior2 in (11, 12):
                np.random.seed(prior2)
                np.random.random(prior2)
                with Monitor(track_state=True) as mon2:
                    get_mirp(h).get_path_based()
                seqs.append(mon2.states)
            n += 1
            if seqs[0] != seqs[1]:
                k = next((i for i, (a, b) in enumerate(zip(seqs[0], seqs[1])) if a != b), min(len(seqs[0]), len(seqs[1])))
                ctx.defer_violation("oracle/rng/path-draw-state-depends-on-prior-state",
                                    f"get_path_based (G1, horizon {h}): draw #{k} of {len(seqs[0])}/{len(seqs[1])} starts from a generator state that depends on "
                                    "the state before the build (the model re-seeds once and never restores the caller's state); no differing output was found",
                                    {"example": "mirp_g1.get_mirp", "horizon": h, "first_differing_draw": k})
            ctx.cov.setdefault("rng_trace_samples", [])
            if len(ctx.cov["rng_trace_samples"]) < 2:
                ctx.cov["rng_trace_samples"].append({"horizon": h, "first_events": [list(map(str, e)) for e in mon.events[:3]],
                                                     "n_events": len(mon.events)})
    return n


def child(env_hash, prior, tasks):
    env = dict(os.environ)
    if env_hash == "random":
        env.pop("PYTHONHASHSEED", None)
        env["PYTHONHASHSEED"] = "random"
    else:
        env["PYTHONHASHSEED"] = str(env_hash)
    p = subprocess.run([sys.executable, "-W", "ignore", CHILD, prior] + tasks, env=env, stdout=subprocess.PIPE,
                       stderr=subprocess.PIPE, text=True, timeout=1500)
    for line in p.stdout.split("\n"):
        if line.startswith("C17CHILD "):
            return json.loads(line[len("C17CHILD "):])
    raise RuntimeError(f"child failed rc={p.returncode}: {p.stderr[-1500:]}")


def run(ctx):
    ctx.prove()
    import translate_rngflow as T
    ctx.gen_step("rngflow", T.translate, "C17_gen",
                 "harness/translate_rngflow.py (ast -> control skeleton of every function of the routing-problem package: calls into "
                 "np.random.* / .rvs(..), calls, branches, loops, try; name resolution, semantics and the discipline check are Coq "
                 "definitions in theories/PyRng.v)")
    from props import pysem; pysem.run(ctx, pysem.GROUPS_FOR.get(ctx.pid, ()))
    ctx.assumptions += [
        "numpy's global generator, process boundaries and hash randomisation are runtime behaviour: observed on sampled environments, not proved",
        "np.random.seed(z) with an explicit z forgets the previous state (the only law assumed of the oracle in the theorems)",
    ]
    if ctx.quick:
        tasks = ["small", "g1:16.0", "rand:1:1:40:1", "rand:1:1:40:0", "sym:0", "sym:1", "randfee:2:2:30:3", "reexit"]
        envs = [(0, "fresh"), (1, "seeded"), (2, "advanced"), ("random", "fresh"), ("random", "advanced")]
        mon_h = [16.0]
    else:
        tasks = ["small", "g1:16.0", "g1:20.0", "g1:27.5", "rand:1:1:40:1", "rand:1:1:40:0", "rand:2:1:30:5", "rand:1:2:40:7", "rand:2:2:30:11", "sym:0", "sym:1", "sym:2", "randfee:2:2:30:3", "randfee:1:2:40:4", "reexit"]
        envs = [(hs, pr) for hs in (0, 1, 2, "random") for pr in ("fresh", "seeded", "advanced")]
        mon_h = [16.0, 20.0, 27.5]

    # (a) RNG monitor on the real builders
    n_mon = monitor_checks(ctx, mon_h)

    # (b) child interpreters
    with ThreadPoolExecutor(max_workers=8) as ex:
        results = list(ex.map(lambda e: child(e[0], e[1], tasks), envs))
    ref_env, ref = envs[0], results[0]
    n_cmp = 0
    for env, res in zip(envs[1:], results[1:]):
        for task in tasks:
            for form, comps in ref[task].items():
                n_cmp += 1
                other = res[task].get(form)
                if other != comps:
                    keys = sorted(k for k in set(comps) | set(other or {}) if (other or {}).get(k) != comps.get(k))
                    ctx.violation(f"oracle/fingerprint/{task.split(':')[0]}/{form}",
                                  f"{task} / {form}: components {keys} differ between environments {ref_env} and {env}",
                                  {"task": task, "formulation": form, "differing_components": keys,
                                   "env_a": {"PYTHONHASHSEED": ref_env[0], "prior_rng": ref_env[1]},
                                   "env_b": {"PYTHONHASHSEED": env[0], "prior_rng": env[1]},
                                   "command": f"PYTHONHASHSEED=<seed> PYTHONPATH={REPO}/src:/verif/harness /venv/bin/python {CHILD} <prior> {task}"}, True)
    # seeded random instances: reset_seed reproduces the first instance
    for task in tasks:
        if task.startswith("rand"):
            inst = ref[task]["instance"]
            if inst["mirp"] != inst["reset"]:
                ctx.violation("oracle/random-mirp/reset-seed", f"{task}: get_random_mirp(reset_seed=True) differs from the first instance after construction",
                              {"task": task}, True)

    # (c) same process, twice, with a disturbed generator in between
    from vrpqubo.examples.mirp_random import get_generator
    n_c = 0
    for seed in ([0, 1, 7] if ctx.quick else list(range(0, 25))):
        snaps = []
        for disturb in (0, 3, 11):
            np.random.seed(1000 + disturb)
            np.random.random(disturb)
            gen = dataclasses.replace(get_generator(1, 1, 40), seed=seed)
            snaps.append(fp.digest(fp.mirp_snapshot(gen.get_random_mirp())))
            n_c += 1
        if len(set(snaps)) != 1:
            ctx.violation("oracle/random-mirp/explicit-seed", f"RandomMIRP(seed={seed}) gives different instances for different prior generator states",
                          {"seed": seed, "call": "dataclasses.replace(get_generator(1,1,40), seed=seed).get_random_mirp()"}, True)

    # a generator whose time horizon is itself a distribution (allowed by RandomMIRP's signature):
    # get_random_mirp(reset_seed=True), called after other instances were produced, must reproduce
    # the first instance made after construction -- every draw has to come after the re-seed
    from scipy.stats import uniform
    from vrpqubo.tools.sampling import WrapperSampler
    for seed in ([0, 3] if ctx.quick else list(range(0, 12))):
        base = get_generator(1, 1, 40)
        gen = dataclasses.replace(base, time_horizon=WrapperSampler(uniform(loc=35, scale=10)), seed=seed)
        try:
            first = fp.digest(fp.mirp_snapshot(gen.get_random_mirp()))
            gen.get_random_mirp()
            np.random.random(5)
            again = fp.digest(fp.mirp_snapshot(gen.get_random_mirp(reset_seed=True)))
            n_c += 1
            if first != again:
                ctx.violation("oracle/random-mirp/reset-seed", f"RandomMIRP(seed={seed}, time_horizon=<distribution>): get_random_mirp(reset_seed=True) "
                              "does not reproduce the first instance after construction",
                              {"seed": seed, "call": "gen = dataclasses.replace(get_generator(1,1,40), time_horizon=WrapperSampler(uniform(35,10)), seed=seed); "
                                                     "gen.get_random_mirp(); gen.get_random_mirp(); gen.get_random_mirp(reset_seed=True)"}, True)
        except Exception as e:  # noqa: a random horizon may produce an instance the builder rejects
            ctx.cov.setdefault("build_errors", []).append(f"random-horizon seed {seed}: {exc_cls(e)}")

    ctx.count(evaluations=n_mon + n_cmp + n_c, nontrivial=n_cmp, traces=n_mon)
    ctx.cov["input_distribution"] = {"monitored_builds": n_mon, "child_environments": [list(map(str, e)) for e in envs],
                                     "tasks": tasks, "component_comparisons": n_cmp, "same_process_seed_runs": n_c}
    ctx.cov["rule"] = ("fingerprints (variables, constraints, objective, QUBO, Ising, exported lines, feasible solution, graph) of the small example, "
                       "G1 and seeded random MIRPs from child interpreters under different PYTHONHASHSEED and prior RNG state are compared component-wise; "
                       "non-trivial = one (task, formulation) comparison between two different environments")
    ctx.sample({"env": list(map(str, ref_env)), "task": tasks[1], "components": ref[tasks[1]]})
    if ctx.tier == "thorough":
        ctx.coqchk("VQP.C17")


def replay(ctx, data):
    print(data)
