"""C14 -- Queries are pure and never change what later calls return.

Proof: coq/props/C14.v over the cached-object model coq/theories/Cache.v (all disciplined traces).
Tie A (trace validation): real formulation objects are instrumented (props/c14_trace.py); the primitive
  actions of every query and every heuristic run are recorded and Coq evaluates on them: query shapes =
  model traces, model flags = real flags after every action, wf_trace / disciplined / hist_ok, heur_okb of
  every heuristic run; after every effective build the cache content is compared with what a pristine
  object holding a deep copy of the same data computes (built from scratch).
Tie B (oracle = the property on the implementation): for random and for all short histories of queries and
  heuristic runs, every output equals the output of a FRESH object built from the same description that
  receives only the data-changing calls of the history followed by that one query.
"""
import contextlib
import io
import itertools

import numpy as np
import scipy.sparse as sp

from props import formulation_harness as fh
from props import c14_trace as tr
from props.fp_common import _num, dense, graph_snapshot

HEADER = "From VQ Require Import Base Cache.\nLocal Open Scope nat_scope."
INF = float("inf")
HEUR = ("mf", "exit_arc")
LOOKUPS = ("index", "tuple", "routes")
_SINK = io.StringIO()


# --------------------------------------------------------------------------- canonical outputs
def canon(x):
    if x is None or isinstance(x, str):
        return x
    if sp.issparse(x):
        return {"shape": [int(s) for s in x.shape], "data": dense(x)}
    if isinstance(x, np.ndarray):
        if x.ndim in (1, 2) and x.dtype != object:
            return {"shape": [int(s) for s in x.shape], "data": dense(x)}
        return {"shape": [int(s) for s in x.shape], "data": canon(x.tolist())}
    if isinstance(x, dict):
        return sorted([canon(list(k) if isinstance(k, tuple) else k), canon(v)] for k, v in x.items())
    if isinstance(x, (list, tuple)):
        return [canon(v) for v in x]
    return _num(x)


def data_snapshot(kind, rp):
    d = {"graph": graph_snapshot(rp.vrptw), "fs": canon(rp.feasible_solution)}
    if kind == "arc":
        d["time_points"] = canon(np.asarray(rp.time_points))
    elif kind == "seq":
        d.update(V=int(rp.max_vehicles), L=int(rp.max_sequence_length), vehicle_cost=canon(list(rp.vehicle_cost)))
    else:
        d.update(routes=canon(rp.routes), route_costs=canon(rp.route_costs),
                 visited=canon([np.asarray(v) for v in rp.route_node_visited]))
    return d


def solution_for(rp, src):
    if src == "fs":
        fs = rp.feasible_solution
        return np.zeros(0) if fs is None else np.asarray(fs, dtype=float)
    x = np.zeros(max(src) + 1)
    for i in src:
        x[i] = 1.0
    return x


def do_op(kind, rp, op, desc):
    """Run one call on the real object; returns the canonical output or {'raised': class}."""
    with contextlib.redirect_stdout(_SINK):
        return _do_op(kind, rp, op, desc)


def _do_op(kind, rp, op, desc):
    try:
        name = op[0]
        if name == "num":
            return {"ok": canon(rp.get_num_variables())}
        if name == "index":
            return {"ok": canon(rp.get_var_index(*op[1]))}
        if name == "tuple":
            return {"ok": canon(rp.get_var_tuple_index(op[1]))}
        if name == "obj":
            return {"ok": canon(rp.get_objective_data())}
        if name == "con":
            return {"ok": canon(rp.get_constraint_data())}
        if name == "qubo":
            return {"ok": canon(rp.get_qubo(op[1], op[2]))}
        if name == "routes":
            return {"ok": canon(rp.get_routes(solution_for(rp, op[1])))}
        if name == "maps":
            n = int(rp.get_num_variables())
            out = {"n": n}
            if kind == "path":
                out["routes"] = canon(rp.routes)
                out["costs"] = canon(rp.route_costs)
            else:
                tuples = [rp.get_var_tuple_index(k) for k in range(n)]
                out["tuples"] = canon(tuples)
                out["index_of"] = canon([rp.get_var_index(*t) for t in tuples])
                out["var_mapping"] = canon(list(rp.var_mapping))
                try:
                    rp.get_constraint_data()
                    built = True
                except Exception:  # noqa
                    built = False
                if kind == "seq":
                    out["fixed_values"] = canon(dict(rp.fixed_values))
                    out["names"] = list(rp.lin_con_names) if built else None
                else:
                    out["names"] = list(rp.constraint_names) if built else None
            return {"ok": out}
        if name == "mf":
            np.random.seed(desc["np_seed"])
            rp.make_feasible(op[1])
            return {"ok": data_snapshot(kind, rp)}
        if name == "exit_arc":
            rp.check_and_add_exit_arc(op[1], op[2])
            return {"ok": data_snapshot(kind, rp)}
        raise RuntimeError(f"unknown op {op}")
    except Exception as e:  # noqa
        out = {"raised": type(e).__name__}
        if op[0] in HEUR:
            out["data"] = data_snapshot(kind, rp)
        return out


def build(kind, desc):
    return fh.BUILDERS[kind](desc, mf=False)


# --------------------------------------------------------------------------- oracle
class Oracle:
    """Reference outputs: fresh object + the data-changing calls so far + the one call, memoised per instance."""

    def __init__(self, kind, desc):
        self.kind, self.desc = kind, desc
        self.memo = {}
        self.ref_flag = {}

    def reference(self, changers, op):
        key = (changers, op)
        if key not in self.memo:
            rp = build(self.kind, self.desc)
            for c in changers:
                do_op(self.kind, rp, c, self.desc)
            self.ref_flag[key] = bool(getattr(rp, "variables_enumerated", True))
            self.memo[key] = do_op(self.kind, rp, op, self.desc)
        return self.memo[key]

    def check(self, history):
        """None if every output along the history equals the reference output, else a dict describing the
        first difference."""
        rp = build(self.kind, self.desc)
        changers = ()
        last = {}
        for k, op in enumerate(history):
            got = do_op(self.kind, rp, op, self.desc)
            if op[0] in HEUR:
                changers = changers + (op,)
                want = self.reference(changers[:-1], op)
                last = {}
            else:
                want = self.reference(changers, op)
                if op in last and last[op] != got:
                    return {"position": k, "op": op, "kind": "repeated query returned a different result",
                            "got": got, "want": last[op], "ref_enumerated": True}
                last[op] = got
            if got != want:
                return {"position": k, "op": op, "kind": "differs from a fresh object that only received the data-changing calls",
                        "got": got, "want": want,
                        "ref_enumerated": self.ref_flag.get((changers[:-1] if op[0] in HEUR else changers, op), True)}
        return None


def diff_summary(got, want):
    def short(x):
        s = repr(x)
        return s if len(s) <= 300 else s[:300] + "..."
    if isinstance(got, dict) and isinstance(want, dict) and "ok" in got and "ok" in want \
            and isinstance(got["ok"], dict) and isinstance(want["ok"], dict):
        keys = [k for k in got["ok"] if got["ok"].get(k) != want["ok"].get(k)]
        return f"fields {keys}: " + "; ".join(f"{k}: {short(got['ok'].get(k))} vs {short(want['ok'].get(k))}" for k in keys[:2])
    return f"{short(got)} vs {short(want)}"


def jsonable_history(h):
    return [list(map(lambda v: list(v) if isinstance(v, tuple) else v, op)) for op in h]


def unjson_history(h):
    out = []
    for op in h:
        out.append(tuple(tuple(v) if isinstance(v, list) else v for v in op))
    return out


def shrink_history(kind, desc, history):
    orc = Oracle(kind, desc)
    history = list(history)
    changed = True
    while changed:
        changed = False
        for i in range(len(history)):
            cand = history[:i] + history[i + 1:]
            if cand and orc.check(cand):
                history = cand
                changed = True
                break
    return history


def report_oracle(ctx, kind, desc, history, why=""):
    if ctx.has_concrete():
        return
    small = shrink_history(kind, desc, history)

    def fails(d):
        return Oracle(kind, d).check(small) is not None
    try:
        sdesc = fh.shrink_desc(desc, fails, budget=60)
    except Exception:  # noqa
        sdesc = desc
    res = Oracle(kind, sdesc).check(small)
    if res is None:
        sdesc, res = desc, Oracle(kind, desc).check(small)
    op = res["op"]
    if op[0] in LOOKUPS and not res["ref_enumerated"]:
        sig = "lookup/index-map-read-without-enumeration"
    else:
        sig = f"oracle/{kind}/{'heuristic' if op[0] in HEUR else 'query'}-after-history"
    msg = (f"{kind} model, history {jsonable_history(small)}: call #{res['position']} {op} {res['kind']}: "
           + diff_summary(res["got"], res["want"]) + (f" [{why}]" if why else ""))
    rep = fh.describe({"kind": kind, "desc": sdesc, "rp": None})
    ctx.violation(sig, msg, {"kind": kind, "instance": rep["instance"], "history": jsonable_history(small),
                             "python": "props.c14.replay"}, True)


# --------------------------------------------------------------------------- instances and histories
def fixed_instances():
    base = {"depot_first": True, "V": 1, "L": 4, "strict": False, "routes": [], "vehicle_cap": 5,
            "initial_loading": 5, "make_feasible": None, "mf_mode": "fresh", "np_seed": 7, "cost_scale": 1}
    # arc: customer c2 has a way back but no way in (entry arc added, flags reset only at the loop top)
    a1 = dict(base, nodes=[("D", 0, 0, INF), ("c1", 1, 1, 1), ("c2", 1, 2, 2)],
              arcs=[("D", "c1", 1, 4), ("c1", "D", 1, 3), ("c2", "D", 1, 2)], time_points=[0, 1, 2, 3])
    # arc: c2 isolated (entry and exit arc added)
    a2 = dict(a1, arcs=[("D", "c1", 1, 4), ("c1", "D", 1, 3)])
    # arc: nothing to repair
    a3 = dict(a1, arcs=[("D", "c1", 1, 4), ("c1", "c2", 1, 1), ("c2", "D", 1, 2)])
    # sequence: too few vehicles, all arcs present (dummy vehicle, no arc added)
    s1 = dict(base, nodes=[("D", 0, 0, INF), ("a", 1, 0, 4), ("b", 1, 0, 6)],
              arcs=[("D", "a", 1, 2), ("a", "D", 1, 2), ("D", "b", 1, 3), ("b", "D", 1, 3)], time_points=[0])
    # sequence: missing arc back to the depot (added inside the vehicle loop)
    s2 = dict(base, nodes=[("D", 0, 0, INF), ("a", 1, 0, 4)], arcs=[("D", "a", 1, 2)], time_points=[0], L=4)
    # sequence: customer b without any arc (vehicle + both arcs added), strict rule
    s3 = dict(s1, arcs=[("D", "a", 1, 2), ("a", "D", 1, 2)], strict=True)
    # sequence: route fills every free position and ends at a node without exit arc
    s4 = dict(s2, L=3)
    p1 = dict(base, nodes=[("D", 0, 0, INF), ("c1", 1, 0, 8), ("c2", 1, 0, 8)],
              arcs=[("D", "c1", 1, 2), ("c1", "D", 1, 1), ("D", "c2", 1, 3)], time_points=[0],
              routes=[["D", "c1", "D"]])
    p2 = dict(p1, arcs=p1["arcs"] + [("c2", "D", 1, 1), ("c1", "c2", 1, 1)], routes=[["D", "c1", "D"], ["D", "c1", "c2", "D"]])
    # arc: a time grid given with a repeated point (the code accepts it; queries must still be repeatable)
    a4 = dict(a3, time_points=[0, 1, 3, 3, 2])
    # sequence, STRICT: the exit arc the heuristic adds leaves a customer (stored by the strict add_arc itself), one
    # vehicle serves everybody -- no dummy vehicle, nothing else changes
    s5 = dict(s2, strict=True)
    s6 = dict(base, nodes=[("D", 0, 0, INF), ("a", 1, 0, 9), ("b", 1, 0, 9)], arcs=[("D", "a", 1, 2), ("a", "b", 1, 1)],
              time_points=[0], L=4, strict=True)
    return [("arc", a1), ("arc", a2), ("arc", a3), ("seq", s1), ("seq", s2), ("seq", s3), ("seq", s4),
            ("path", p1), ("path", p2), ("arc", a4), ("seq", s5), ("seq", s6)]


def tuple_pool(kind, desc, rng):
    """Index tuples: admissible now, admissible only after the heuristic, inadmissible, out of range."""
    if kind == "path":
        return []
    pool = []
    enum = {}
    for high in (None, 50):
        rp = build(kind, desc)
        try:
            if high is not None:
                np.random.seed(desc["np_seed"])
                rp.make_feasible(high)
            rp.get_num_variables()
            vm = [tuple(_plain(v) for v in t) for t in rp.var_mapping]
            enum[high] = vm
            pool += vm[:2] + vm[-2:] + rng.sample(vm, min(3, len(vm)))
        except Exception:  # noqa
            pass
    nn = len(desc["nodes"])
    if kind == "arc":
        pts = sorted(desc["time_points"])
        for _ in range(4):
            pool.append((rng.randrange(nn), rng.choice(pts), rng.randrange(nn), rng.choice(pts)))
        pool.append((0, pts[0], nn - 1, pts[0]))
    else:
        for _ in range(4):
            pool.append((rng.randrange(desc["V"] + 2), rng.randrange(max(1, desc["L"])), rng.randrange(nn)))
        pool.append((desc["V"], 1, nn - 1))
        pool.append((0, desc["L"], 0))          # position out of range
    # last entry (used by the exhaustive alphabet): a tuple that becomes a variable only through the heuristic
    only_after = [t for t in enum.get(50, []) if t not in set(enum.get(None, []))]
    special = (only_after or enum.get(None, []) or pool)[0]
    seen, out = set(), []
    for t in pool:
        if t not in seen and t != special:
            seen.add(t)
            out.append(t)
    return out + [special]


def _plain(v):
    if isinstance(v, (np.integer,)):
        return int(v)
    if isinstance(v, (np.floating, float)):
        return int(v) if float(v).is_integer() else float(v)
    return v


def random_op(kind, desc, pool, rng, allow_heur=True):
    r = rng.random()
    if allow_heur and r < 0.17:
        return ("mf", rng.choice(fh.HIGH_COSTS[1:] + [50]))
    if allow_heur and kind == "arc" and r < 0.21:
        return ("exit_arc", rng.randrange(1, len(desc["nodes"])), rng.choice([0, 3]))
    names = ["num", "obj", "con", "qubo", "routes", "maps"] + (["index", "index", "tuple"] if kind != "path" else [])
    name = rng.choice(names)
    if name == "index":
        return ("index", rng.choice(pool))
    if name == "tuple":
        return ("tuple", rng.choice([0, 1, 2, 5, 40]))
    if name == "qubo":
        return ("qubo", rng.random() < 0.4, rng.choice([None, 7]))
    if name == "routes":
        return ("routes", rng.choice(["fs", "fs", (0,), (0, 2), (1,)]))
    return (name,)


def random_history(kind, desc, pool, rng):
    n = rng.randint(1, 10)
    h = []
    heur = 0
    for _ in range(n):
        op = random_op(kind, desc, pool, rng, allow_heur=(heur < 2))
        if op[0] == "mf":
            heur += 1
        h.append(op)
    return h


def small_alphabet(kind, desc, pool):
    alpha = [("num",), ("con",), ("obj",), ("mf", 50), ("maps",)]
    if kind != "path":
        alpha.append(("index", pool[-1] if pool else (0, 0, 0)))
        alpha.append(("tuple", 0))
    alpha.append(("qubo", False, None))       # the default-penalty QUBO (it reads sizes, e.g. the grid length, on its own)
    return alpha


# --------------------------------------------------------------------------- tie A: recorded traces
def label_of(kind, rp, op, actions):
    if op[0] in HEUR:
        return "HHeur"
    if any(a[0].startswith("BuildAbort") for a in actions):
        return "QAborted"
    return {"num": "QNum", "index": "QIndex", "tuple": "QTuple", "obj": "QObjective", "con": "QConstraints"}.get(op[0]) \
        or (f"(QQubo {'true' if op[1] else 'false'})" if op[0] == "qubo" else None)


def record(kind, desc, history):
    """Run the history on an instrumented real object; returns (recorder, ops with Coq labels)."""
    rp = build(kind, desc)
    rec = tr.instrument(rp)
    for op in history:
        if op[0] == "maps":
            continue
        nroutes = None
        if op[0] == "routes":
            nroutes = int(np.count_nonzero(solution_for(rp, op[1])))
        rec.begin(None)
        out = do_op(kind, rp, op, desc)
        rec.end("raised" in out)
        cur = rec.ops[-1]
        cur["op"] = op
        cur["label"] = f"(QRoutes {nroutes})" if nroutes is not None else label_of(kind, rp, op, cur["actions"])
        if cur["label"] == "QAborted":
            cur["raised"] = True
    return rec


# --------------------------------------------------------------------------- run
def run(ctx):
    import os
    ctx.prove()
    # generated tie (notes/C14_gen.md): the flag protocol is read off the source of the three classes and the
    # discipline hypotheses of Cache.v are PROVED for it (coq/genprops/C14_gen.v)
    import translate_cacheflags as TCF
    ctx.gen_step("cacheflags", TCF.translate, "C14_gen",
                 "harness/translate_cacheflags.py (ast -> control skeleton of every method of the three formulation "
                 "classes and RoutingProblem, restricted to accesses to self; local-alias analysis) and the attribute / "
                 "method-name classification tables and the fine-trace -> Cache.v-action monitor of coq/theories/PyCache.v")
    from props import pysem; pysem.run(ctx, pysem.GROUPS_FOR.get(ctx.pid, ()))
    rng = ctx.rng
    quick = ctx.quick
    # mutation experiments only: VQ_C14_SKIP_ORACLE=1 shows what the trace validation alone reports
    skip_oracle = bool(os.environ.get("VQ_C14_SKIP_ORACLE"))
    n_inst = 400 if quick else 3000
    n_hist = 6 if quick else 12
    ex_len = 3 if quick else 4
    dist = {"arc": 0, "seq": 0, "path": 0, "ops": {}, "heuristic_runs": 0, "heuristic_changed_data": 0,
            "heuristic_raised": 0, "second_heuristic": 0}
    samples = 0

    instances = list(fixed_instances())
    for k in range(n_inst):
        desc = fh.random_instance(rng)
        desc["make_feasible"] = None
        kind = fh.KINDS[k % 3]
        if kind == "seq" and desc["V"] * max(0, desc["L"] - 2) * len(desc["nodes"]) > 24:
            desc["V"] = min(desc["V"], 2)
            desc["L"] = min(desc["L"], 4)
        instances.append((kind, desc))

    # ---- tie B: oracle on exhaustive short histories (fixed instances) and random histories (all) ----
    n_ex = 0
    n_rand = 0
    nontrivial = set()
    pools = {}
    for idx, (kind, desc) in enumerate(instances):
        pool = tuple_pool(kind, desc, rng)
        pools[idx] = pool
        orc = Oracle(kind, desc)
        dist[kind] += 1
        if idx < len(fixed_instances()) and not ctx.has_concrete() and not skip_oracle:
            alpha = small_alphabet(kind, desc, pool)
            for n in range(1, ex_len + 1):
                for h in itertools.product(alpha, repeat=n):
                    if sum(1 for o in h if o[0] == "mf") > 2:
                        continue
                    n_ex += 1
                    res = orc.check(list(h))
                    if res:
                        report_oracle(ctx, kind, desc, list(h), "exhaustive short histories")
                        break
                if ctx.has_concrete():
                    break
        for _ in range(n_hist):
            h = random_history(kind, desc, pool, rng)
            n_rand += 1
            res = None if skip_oracle else orc.check(h)
            mfs = [i for i, o in enumerate(h) if o[0] == "mf"]
            dist["heuristic_runs"] += len(mfs)
            if len(mfs) >= 2:
                dist["second_heuristic"] += 1
            for o in h:
                dist["ops"][o[0]] = dist["ops"].get(o[0], 0) + 1
            if mfs and any(o[0] not in HEUR for o in h[:mfs[0]]) and any(o[0] not in HEUR for o in h[mfs[0]:]):
                nontrivial.add(repr((kind, idx, h)))
            if samples < 3 and mfs:
                ctx.sample({"kind": kind, "history": jsonable_history(h)})
                samples += 1
            if res and not ctx.has_concrete():
                report_oracle(ctx, kind, desc, h, "random histories")
    ctx.cov["exhaustive_histories"] = n_ex
    ctx.cov["exhaustive_bound"] = (f"all histories of length <= {ex_len} over a 6-7-call alphabet (size, constraints, objective, "
                                   f"make_feasible(50), index maps, two lookups / QUBO) on {len(fixed_instances())} hand-made instances")
    ctx.count(evaluations=n_ex + n_rand, nontrivial=len(nontrivial))

    # ---- tie A: recorded traces ----
    cases, terms = [], []
    scratch = 0
    anomalies = []
    scripted = [[("num",), ("con",), ("mf", 50), ("index", None), ("obj",)],
                [("obj",), ("qubo", False, None), ("mf", 10), ("mf", 10), ("con",), ("routes", "fs")],
                [("index", None), ("mf", 1), ("tuple", 0), ("qubo", True, 7), ("num",)]]
    for idx, (kind, desc) in enumerate(instances):
        pool = pools[idx]
        hs = []
        if idx < len(fixed_instances()):
            for s in scripted:
                hs.append([(o[0], pool[-1]) if o == ("index", None) else o for o in s
                           if not (kind == "path" and o[0] in ("index", "tuple"))])
        for _ in range(2 if quick else 4):
            hs.append([o for o in random_history(kind, desc, pool, rng)])
        for h in hs:
            rec = record(kind, desc, h)
            scratch += rec.scratch_checks
            ops = [o for o in rec.ops]
            for o in ops:
                if o["label"] == "HHeur":
                    if any(a[0] == "Mutate" for a in o["actions"]):
                        dist["heuristic_changed_data"] += 1
                    if o["raised"]:
                        dist["heuristic_raised"] += 1
            cases.append((kind, desc, h, ops))
            terms.append(tr.case_literal(kind, ops))
            for sig, detail in rec.anomalies:
                anomalies.append((sig, detail, kind, desc, h))
    ctx.count(traces=len(cases))
    ctx.cov["from_scratch_checks"] = scratch
    ctx.cov["input_distribution"] = dist
    ctx.cov["rule"] = ("instances: 9 hand-made (entry arc missing / isolated customer / nothing to repair; too few vehicles / "
                       "missing exit arc / strict rule / full route; path pools) + random formulation-harness instances, "
                       "kinds in rotation; histories: 1-10 calls from {get_num_variables, get_var_index (admissible, "
                       "admissible only after the heuristic, inadmissible, out of range), get_var_tuple_index, "
                       "get_objective_data, get_constraint_data, get_qubo (feasibility False/True, penalty None/7), "
                       "get_routes (stored solution, unit vectors), index-map snapshot, make_feasible(high) at most twice, "
                       "arc: check_and_add_exit_arc}; non-trivial = distinct history with a query before and a call "
                       "after a heuristic run")
    mism, err = ctx.coq_mismatches("traces", HEADER, "tcase", "check_tcase", terms, shard=60)
    TAGS = {1: "recorded actions of a query differ from the model's trace of that query",
            2: "model flags differ from the real flags after an action",
            3: "the flag discipline wf_trace rejects the recorded history",
            4: "a read of the recorded history is not fresh in the model (disciplined = false)",
            5: "something is left dirty at a call boundary (hist_ok)",
            6: "a recorded heuristic run does not keep the discipline from every flag configuration (heur_okb)"}

    def follow_up(kind, desc, h, sig, what, extra):
        """A trace-level failure: look for a concrete failing history on this instance."""
        if ctx.has_concrete():
            return
        pool = tuple_pool(kind, desc, rng) or []
        orc = Oracle(kind, desc)
        cands = [] if skip_oracle else [list(h)]
        alpha = list(dict.fromkeys([o for o in h if o[0] != "maps"] + small_alphabet(kind, desc, pool)))[:9]
        for n in range(1, 4):
            if not skip_oracle:
                cands += [list(x) for x in itertools.product(alpha, repeat=n)]
        for c in cands[:1500]:
            if sum(1 for o in c if o[0] == "mf") > 2:
                continue
            if orc.check(c):
                report_oracle(ctx, kind, desc, c, what)
                return
        rep = fh.describe({"kind": kind, "desc": desc, "rp": None})
        ctx.violation(sig, what + "; no query history with a wrong answer was found on this instance",
                      dict({"kind": kind, "instance": rep["instance"], "history": jsonable_history(h)}, **extra), False)

    for sig, detail, kind, desc, h in anomalies[:1]:
        follow_up(kind, desc, h, sig, detail, {"check": "instrumented run (props/c14_trace.py)"})
    for idx, tags in mism[:1]:
        kind, desc, h, ops = cases[idx]
        all_actions = "[" + "; ".join(a[0] for o in ops for a in o["actions"]) + "]"
        model = ctx.coq_eval(HEADER, f"first_fail (ws_of init) {all_actions} 0") if not ctx.has_concrete() else ""
        follow_up(kind, desc, h, f"trace/{kind}/model-check",
                  "recorded trace of a real run fails the model check: " + "; ".join(TAGS[t] for t in tags),
                  {"correspondence": "Cache.check_tcase", "tags": tags,
                   "recorded": [[o["label"], o["raised"], [a[0] for a in o["actions"]]] for o in ops],
                   "first_rejected_action": model})
    ctx.assumptions += [
        "cache contents are abstracted by the data version they were computed from; that a build recomputes from scratch "
        "is checked on the real objects after every effective build against a pristine object with a deep copy of the data",
        "in-place writes into numpy arrays (time_points) are not intercepted by the instrumentation; no method of the "
        "formulation classes performs one",
        "path-based make_feasible draws from the numpy global RNG: it is re-seeded identically before every heuristic call "
        "on the object under test and on the reference object",
    ]
    if ctx.tier == "thorough":
        ctx.coqchk("VQP.C14")


def replay(ctx, data):
    r = data["replay"]
    kind, desc = fh.undescribe({"kind": r["kind"], "instance": r["instance"]})
    h = unjson_history(r["history"])
    res = Oracle(kind, desc).check(h)
    print(res)
    if res:
        ctx.violations.append(("replay", None, True))
