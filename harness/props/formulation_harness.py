"""Shared "formulation harness": small random VRPTW instances and the three formulation objects
built through the REAL classes of /repo, plus exact dense views of what they report.

API
    desc = random_instance(rng)                 -> plain dict describing graph + formulation settings
    rp   = build_arc(desc) / build_path(desc) / build_seq(desc)
                                                -> the real object (ArcBased/PathBased/SequenceBased
                                                   RoutingProblem); rp.vq_mf tells what happened in
                                                   make_feasible: "none" | "ok" | "raised:<Class>"
    data = dense_data(rp)                       -> exact dense (n, A, b, R, r, c, Qo) + reported shapes
    out  = qubo_out(rp, feasibility, pp)        -> exact dense get_qubo result or the exception class
    for case in gen_objects(rng, count, max_n)  -> dicts {kind, desc, rp, data} with 1 <= n <= max_n
    all_binary(n)                               -> (2^n, n) int64 array of all binary vectors
    Coq literals: qdata_lit(data), qout_lit(out)

All numbers fed to the implementation are Python ints (float arithmetic inside numpy/scipy is then
exact for the magnitudes used), all numbers read back are converted with Fraction(float(x)).
Every random choice comes from the `rng` (random.Random) that is passed in; the numpy global RNG,
which path-based make_feasible uses, is re-seeded from the description before each call.
"""
import math
from fractions import Fraction

import numpy as np

from vq import lit
from vq.core import exc_cls

INF = float("inf")
HIGH_COSTS = [0, 1, 10, 10 ** 6]
KINDS = ("arc", "path", "seq")


# --------------------------------------------------------------------------- instances
def random_instance(rng, max_customers=4):
    """A description dict; everything in it is JSON-serialisable except float('inf')."""
    ncust = rng.choice([1, 1, 2, 2, 2, 3, 3, 4][: 2 * max_customers])
    # "friendly": wide windows, short trips, grid on the window starts -- the greedy heuristics succeed more often
    friendly = rng.random() < 0.35
    depot_hi = INF if (friendly or rng.random() < 0.7) else rng.randint(4, 8)
    nodes = [("D", 0, 0, depot_hi)]
    for k in range(1, ncust + 1):
        lo = rng.randint(0, 3 if friendly else 6)
        hi = min(8, lo + (rng.randint(2, 5) if friendly else rng.randint(0, 4)))
        nodes.append((f"c{k}", rng.randint(-2, 3), lo, hi))
    names = [x[0] for x in nodes]
    scale = rng.choice([1, 1, 1, 1000])
    density = rng.choice([0.2, 0.4, 0.6, 0.8, 1.0, 1.0])

    def cost():
        r = rng.random()
        if r < 0.15:
            return 0
        if r < 0.35:
            return -rng.randint(1, 3) * scale
        return rng.randint(1, 9) * scale

    arcs = []
    for o in names:
        for d in names:
            if o == d:
                continue
            if rng.random() < density:
                arcs.append((o, d, rng.randint(0, 1 if friendly else 4), cost()))
    # forced shapes: a customer nobody can reach / a customer without exit arc
    r = rng.random()
    if r < 0.15 and ncust >= 1:
        victim = rng.choice(names[1:])
        arcs = [a for a in arcs if a[1] != victim]
    elif r < 0.30 and ncust >= 1:
        victim = rng.choice(names[1:])
        arcs = [a for a in arcs if a[0] != victim]
    if rng.random() < 0.15:
        arcs.insert(rng.randint(0, len(arcs)), ("D", "D", rng.randint(0, 2), cost()))   # depot self-arc
    if rng.random() < 0.12:
        # every leg touching the depot is free while the customer-to-customer legs are not: the linear part of the sequence
        # objective is then all zero although its quadratic part is not
        arcs = [(o, d, t, 0 if "D" in (o, d) else (c if c != 0 else scale)) for (o, d, t, c) in arcs]
    rng.shuffle(arcs)

    # time grid of the arc model: 1-4 distinct integer points, given unsorted
    kind = rng.random()
    npts = rng.randint(1, 4)
    if friendly:
        starts = sorted({x[2] for x in nodes} | {x[2] + 1 for x in nodes[1:]})
        pts = starts[:4]
    elif kind < 0.35:
        # contains window ends exactly
        ends = sorted({v for x in nodes for v in (x[2], x[3]) if v != INF})
        pts = rng.sample(ends, min(npts, len(ends)))
    elif kind < 0.5 and ncust >= 1:
        # misses the window of one customer entirely
        v = rng.choice(nodes[1:])
        outside = [t for t in range(0, 9) if not v[2] <= t <= v[3]]
        pts = rng.sample(outside, min(npts, len(outside))) if outside else [0]
    else:
        pts = rng.sample(range(0, 9), npts)
    if not pts:
        pts = [0]
    rng.shuffle(pts)

    # path model: explicit candidate routes, valid and invalid ones
    routes = []
    for _ in range(rng.randint(0, 7)):
        k = rng.randint(1, ncust)
        mid = rng.sample(names[1:], k)
        route = ["D"] + mid + ["D"]
        q = rng.random()
        if q < 0.08:
            route = route[:-1]                      # does not end at the depot
        elif q < 0.14:
            route = mid + ["D"]                     # does not start at the depot
        elif q < 0.20 and k >= 1:
            route = ["D", mid[0], mid[0], "D"]      # repeated node
        elif q < 0.24:
            route = ["D"]                           # too short
        routes.append(route)
    if rng.random() < 0.5:
        for c in names[1:]:
            if rng.random() < 0.8:
                routes.append(["D", c, "D"])
    total_demand = sum(x[1] for x in nodes)
    cap = rng.choice([3, 5, 10])
    loading = rng.choice([cap, max(0, min(cap, total_demand)), rng.randint(0, cap)])

    mf = None
    if rng.random() < 0.5:
        mf = rng.choice(HIGH_COSTS)
    return {
        "nodes": nodes, "depot_first": rng.random() < 0.8, "arcs": arcs,
        "time_points": pts, "V": rng.choice([0, 1, 1, 1, 2, 2, 3]), "L": rng.choice([2, 3, 3, 4, 4, 5]),
        "strict": rng.random() < 0.5, "routes": routes, "vehicle_cap": cap, "initial_loading": loading,
        "make_feasible": mf, "mf_mode": "fresh" if rng.random() < 0.8 else "after_query",
        "np_seed": rng.randint(0, 2 ** 31 - 1), "cost_scale": scale,
    }


def _add_graph(rp, desc):
    nodes = desc["nodes"]
    order = nodes if desc["depot_first"] else nodes[1:] + nodes[:1]
    for name, demand, lo, hi in order:
        rp.add_node(name, demand, (lo, hi))
    if not (desc.get("skip_set_depot") and desc["depot_first"]):
        rp.set_depot(nodes[0][0])       # skip_set_depot: the depot is simply the first node (no depot self-arc in the sequence class)
    for o, d, tt, cost in desc["arcs"]:
        rp.add_arc(o, d, tt, cost)


def _finish(rp, desc, mf):
    rp.vq_mf = "none"
    if mf and desc["make_feasible"] is not None:
        if desc["mf_mode"] == "after_query":
            # the object is queried first, then changed by the heuristic
            try:
                rp.get_num_variables()
                rp.get_constraint_data()
                rp.get_objective_data()
                rp.get_sufficient_penalty(False)
                if rp.get_num_variables() > 0:
                    rp.get_qubo()
                    rp.get_qubo(feasibility=True)
            except Exception:  # noqa: reported by the checks that call dense_data
                pass
        np.random.seed(desc["np_seed"])
        try:
            rp.make_feasible(desc["make_feasible"])
            rp.vq_mf = "ok"
        except Exception as e:  # noqa: the heuristic may legitimately raise
            rp.vq_mf = "raised:" + type(e).__name__
    return rp


def build_arc(desc, mf=True):
    from vrpqubo.routing_problem.formulations.arc_based_rp import ArcBasedRoutingProblem
    rp = ArcBasedRoutingProblem()
    _add_graph(rp, desc)
    rp.add_time_points(list(desc["time_points"]))
    return _finish(rp, desc, mf)


def build_path(desc, mf=True):
    from vrpqubo.routing_problem.formulations.path_based_rp import PathBasedRoutingProblem
    rp = PathBasedRoutingProblem()
    _add_graph(rp, desc)
    rp.set_vehicle_cap(desc["vehicle_cap"])
    rp.set_initial_loading(desc["initial_loading"])
    for r in desc["routes"]:
        try:
            rp.add_route(list(r))
        except Exception:  # noqa: malformed candidates may raise (e.g. unknown name)
            pass
    return _finish(rp, desc, mf)


def build_seq(desc, mf=True):
    from vrpqubo.routing_problem.formulations.sequence_based_rp import SequenceBasedRoutingProblem
    rp = SequenceBasedRoutingProblem(strict=desc["strict"])
    _add_graph(rp, desc)
    rp.set_max_sequence_length(desc["L"])
    rp.set_max_vehicles(desc["V"])
    return _finish(rp, desc, mf)


BUILDERS = {"arc": build_arc, "path": build_path, "seq": build_seq}


def corner_cases(max_n=18):
    """The deterministic corner descriptions whose model stays small enough for the 2^n sweeps of the oracles."""
    for kind, desc in _corner_descs():
        try:
            n = int(BUILDERS[kind](dict(desc)).get_num_variables())
        except Exception:  # noqa: a corner case the class refuses is still a corner case (the checks report what they see)
            n = 0
        if n <= max_n:
            yield kind, desc


def _corner_descs():
    """Deterministic hand-made descriptions outside the random family: no customer at all, a time
    grid with a repeated point, a single customer with a negative-cost loop."""
    base = {"nodes": [("D", 0, 0, INF)], "depot_first": True, "arcs": [("D", "D", 1, -3)], "time_points": [2, 0, 1],
            "V": 1, "L": 3, "strict": True, "routes": [["D", "D"]], "vehicle_cap": 5, "initial_loading": 5,
            "make_feasible": None, "mf_mode": "fresh", "np_seed": 1, "cost_scale": 1}
    dup = dict(base, nodes=[("D", 0, 0, INF), ("c1", 1, 0, 3)], arcs=[("D", "c1", 1, 2), ("c1", "D", 1, -1)],
               time_points=[0, 1, 1, 3], routes=[["D", "c1", "D"]])
    neg = dict(dup, arcs=[("D", "c1", 0, -4), ("c1", "D", 0, -5), ("D", "D", 0, -1)], time_points=[3, 0, 2], L=4, V=2)
    for desc in (base, dup, neg):
        for kind in KINDS:
            yield kind, dict(desc)
    # route costs of mixed sign that cancel in the sum (-K, +K, 1): a sufficient penalty computed
    # from the SUM of the costs instead of the sum of their absolute values is far too small here
    for K in (3, 10, 1000):
        mixed = dict(base, nodes=[("D", 0, 0, INF), ("c1", 0, 0, 8), ("c2", 0, 0, 8)],
                     arcs=[("D", "c1", 1, -K), ("c1", "D", 1, 0), ("D", "c2", 1, K), ("c2", "D", 1, 0), ("c1", "c2", 1, K + 1)],
                     time_points=[0, 1, 2, 3], routes=[["D", "c1", "D"], ["D", "c2", "D"], ["D", "c1", "c2", "D"]], V=2, L=4,
                     strict=False)
        yield "path", dict(mixed)
    # every leg touching the depot is free, the customer-to-customer legs are not: the linear part of the sequence
    # objective is all zero while its quadratic part is not (an objective added "only if there are costs" must look at both)
    for strict in (False, True):
        free = dict(base, nodes=[("D", 0, 0, INF), ("c1", 0, 0, 9), ("c2", 0, 0, 9)],
                    arcs=[("D", "c1", 1, 0), ("c1", "D", 1, 0), ("D", "c2", 1, 0), ("c2", "D", 1, 0), ("c1", "c2", 1, 4), ("c2", "c1", 1, 1)],
                    time_points=[0, 1, 2, 3], routes=[["D", "c1", "c2", "D"], ["D", "c2", "c1", "D"]], V=1, L=4, strict=strict)
        yield "seq", dict(free)
    # all customers on depot arcs, one vehicle too few, the model queried before the heuristic: make_feasible only adds
    # dummy vehicles (no arc), everything requested afterwards must reflect them
    for high in (10, 10 ** 6):
        star = dict(base, nodes=[("D", 0, 0, INF), ("c1", 1, 0, INF), ("c2", 1, 0, INF)],
                    arcs=[("D", "c1", 1, 1), ("c1", "D", 1, 1), ("D", "c2", 1, 2), ("c2", "D", 1, 2)],
                    time_points=[0, 1, 2], routes=[["D", "c1", "D"]], V=1, L=3, strict=False,
                    make_feasible=high, mf_mode="after_query")
        for kind in KINDS:
            yield kind, dict(star)
    # the depot is simply the first node (set_depot never called): the sequence class then has no depot self-arc, so a vehicle
    # cannot "stay" at the depot; more vehicles than customers makes the instance infeasible
    for (V, L, strict) in ((2, 4, False), (2, 3, True), (3, 4, True)):
        nodep = dict(base, nodes=[("D", 0, 0, INF), ("c1", 0, 0, 9)], arcs=[("D", "c1", 1, 1), ("c1", "D", 1, 1)],
                     time_points=[0, 1, 2], routes=[["D", "c1", "D"]], V=V, L=L, strict=strict, skip_set_depot=True)
        yield "seq", dict(nodep)
    # a route of negative cost in the pool that the heuristic's own solution does not use: a default penalty derived from
    # the heuristic's solution (instead of from all route costs) is too small
    for neg_cost in (-5, -50):
        negr = dict(base, nodes=[("D", 0, 0, INF), ("c1", 0, 0, INF), ("c2", 0, 0, INF)],
                    arcs=[("D", "c1", 1, 1), ("c1", "c2", 1, 0), ("c2", "D", 1, 0), ("D", "c2", 2, neg_cost)],
                    time_points=[0, 1, 2, 3], routes=[["D", "c2", "D"]], V=2, L=4, strict=False, vehicle_cap=1, initial_loading=0,
                    make_feasible=10, mf_mode="fresh")
        yield "path", dict(negr)
    # a customer nobody can reach / nobody can leave, the model queried before the heuristic: make_feasible adds arcs
    # (hence variables), and every cached piece of data requested afterwards must be rebuilt
    for high in (10, 1000):
        for arcs in ([("D", "c1", 1, 1), ("c1", "D", 1, 1), ("c2", "D", 1, 2)],
                     [("D", "c1", 1, 1), ("c1", "D", 1, 1), ("D", "c2", 1, 2)],
                     [("D", "c1", 1, 1), ("c1", "c2", 1, 1), ("c2", "D", 1, 2)]):
            lost = dict(base, nodes=[("D", 0, 0, INF), ("c1", 1, 0, 2), ("c2", 1, 0, 2)], arcs=list(arcs),
                        time_points=[0, 1, 2], routes=[["D", "c1", "D"]], V=1, L=4, strict=False,
                        make_feasible=high, mf_mode="after_query")
            for kind in KINDS:
                yield kind, dict(lost)


# --------------------------------------------------------------------------- exact views
def exact(v):
    """float / numpy scalar / int -> int if integral, else Fraction (exact, no rounding)."""
    if isinstance(v, (int, Fraction)) and not isinstance(v, bool):
        fr = Fraction(v)
    else:
        fr = Fraction(float(v))
    return int(fr.numerator) if fr.denominator == 1 else fr


def dense(M):
    """sparse container / ndarray -> (list of rows of exact numbers, reported shape)."""
    shape = tuple(int(s) for s in M.shape)
    arr = M.toarray() if hasattr(M, "toarray") else np.asarray(M)
    arr = np.asarray(arr)
    if arr.ndim != 2:
        arr = arr.reshape(shape) if len(shape) == 2 else np.atleast_2d(arr)
    return [[exact(v) for v in row] for row in arr.tolist()], shape


def dense_data(rp):
    """What the object reports, exactly: n, A, b, R, r_eq, c, Qo and the shapes of the containers."""
    n = int(rp.get_num_variables())
    A, b, R, r = rp.get_constraint_data()
    c, Qo = rp.get_objective_data()
    Ad, Ash = dense(A)
    Rd, Rsh = dense(R)
    Qd, Qsh = dense(Qo)
    return {"n": n, "A": Ad, "A_shape": Ash, "b": [exact(v) for v in np.asarray(b).tolist()],
            "R": Rd, "R_shape": Rsh, "r": exact(r), "c": [exact(v) for v in np.asarray(c).tolist()],
            "Qo": Qd, "Qo_shape": Qsh}


def shapes_consistent(d):
    n = d["n"]
    return (d["A_shape"] == (len(d["b"]), n) and d["R_shape"] == (n, n) and d["Qo_shape"] == (n, n)
            and len(d["c"]) == n)


def qubo_out(rp, feasibility, pp):
    """get_qubo(feasibility, pp) -> {'ok': True, 'shape', 'Q', 'k'} or {'ok': False, 'cls', 'msg'}."""
    try:
        Q, k = rp.get_qubo(feasibility, pp)
        Qd, sh = dense(Q)
        return {"ok": True, "shape": sh, "Q": Qd, "k": exact(k)}
    except Exception as e:  # noqa
        return {"ok": False, "cls": exc_cls(e), "msg": f"{type(e).__name__}: {e}"}


def sufficient(rp):
    return exact(rp.get_sufficient_penalty(False))


SWEEP_MAX = 20      # the oracles sweep all 2^n vectors: a model that reports more variables than that is skipped


def all_binary(n):
    """(2^n, n) int64 array; row r is the binary expansion of r, x_0 most significant."""
    r = np.arange(2 ** n, dtype=np.int64)
    return ((r[:, None] >> np.arange(n - 1, -1, -1, dtype=np.int64)[None, :]) & 1).astype(np.int64)


def common_den(values):
    d = 1
    for v in values:
        d = d * Fraction(v).denominator // math.gcd(d, Fraction(v).denominator)
    return d


def int_matrix(M, den, rows, cols):
    a = np.zeros((rows, cols), dtype=np.int64)
    for i, row in enumerate(M):
        for j, v in enumerate(row):
            x = Fraction(v) * den
            assert x.denominator == 1 and abs(x.numerator) < 2 ** 52
            a[i, j] = x.numerator
    return a


def int_vector(v, den):
    out = np.zeros(len(v), dtype=np.int64)
    for i, x in enumerate(v):
        y = Fraction(x) * den
        assert y.denominator == 1 and abs(y.numerator) < 2 ** 52
        out[i] = y.numerator
    return out


def quad_values(M, X):
    """x'Mx for every row x of X (int64; the magnitude test makes overflow impossible)."""
    n = max(1, M.shape[0])
    assert M.size == 0 or int(np.abs(M).max()) * n * n < 2 ** 62, "matrix entries too large for the exact int64 sweep"
    return ((X @ M) * X).sum(axis=1)


def constraint_views(d, X):
    """For the reported (A, b, R): per-row squared residual |Ax-b|^2 and x'Rx, as int64 arrays."""
    n = d["n"]
    A = int_matrix(d["A"], 1, len(d["A"]), n) if d["A"] else np.zeros((0, n), dtype=np.int64)
    b = int_vector(d["b"], 1)
    R = int_matrix(d["R"], 1, n, n)
    res = X @ A.T - b[None, :] if len(b) else np.zeros((X.shape[0], 0), dtype=np.int64)
    return (res * res).sum(axis=1), quad_values(R, X)


# --------------------------------------------------------------------------- generator of usable objects
def gen_objects(rng, count, max_n, kinds=KINDS, mf_prob=None, stats=None, max_tries=400, after_query_prob=None):
    """Yield `count` dicts {kind, desc, rp, data} with 1 <= n <= max_n, kinds in rotation.
    Objects on which dense_data itself raises are yielded with data=None and 'error' set (the caller
    decides what that means).  `stats` (dict) collects the distribution of what was generated."""
    produced = 0
    k = 0
    if stats is None:
        stats = {}
    while produced < count:
        kind = kinds[k % len(kinds)]
        k += 1
        for _ in range(max_tries):
            desc = random_instance(rng)
            if mf_prob is not None:
                desc["make_feasible"] = rng.choice(HIGH_COSTS) if rng.random() < mf_prob else None
            if after_query_prob is not None and desc["make_feasible"] is not None:
                # the object is queried (sizes, data, sufficient penalty, both QUBOs) before the heuristic changes it
                desc["mf_mode"] = "after_query" if rng.random() < after_query_prob else "fresh"
            if kind == "seq":
                est = desc["V"] * max(0, desc["L"] - 2) * len(desc["nodes"])
                if est == 0 or est > 2 * max_n:
                    continue
            rp = BUILDERS[kind](desc)
            try:
                n = int(rp.get_num_variables())
            except Exception as e:  # noqa
                yield {"kind": kind, "desc": desc, "rp": rp, "data": None,
                       "error": f"get_num_variables: {type(e).__name__}: {e}"}
                produced += 1
                break
            if not 1 <= n <= max_n or (n <= 2 and rng.random() < 0.6):
                stats["rejected_size"] = stats.get("rejected_size", 0) + 1
                continue
            try:
                data = dense_data(rp)
                err = None
            except Exception as e:  # noqa
                data, err = None, f"dense_data: {type(e).__name__}: {e}"
            stats[f"{kind}/mf={rp.vq_mf.split(':')[0]}"] = stats.get(f"{kind}/mf={rp.vq_mf.split(':')[0]}", 0) + 1
            stats[f"n={n}"] = stats.get(f"n={n}", 0) + 1
            yield {"kind": kind, "desc": desc, "rp": rp, "data": data, "error": err}
            produced += 1
            break
        else:
            raise RuntimeError(f"generator could not produce a {kind} instance with 1 <= n <= {max_n}")


def describe(case):
    """JSON-friendly description of a case for replay files."""
    d = dict(case["desc"])
    d["nodes"] = [[a, b, c, ("inf" if e == INF else e)] for a, b, c, e in d["nodes"]]
    return {"kind": case["kind"], "instance": d, "make_feasible_outcome": getattr(case["rp"], "vq_mf", None)}


def undescribe(rep):
    d = dict(rep["instance"])
    d["nodes"] = [(a, b, c, (INF if e == "inf" else e)) for a, b, c, e in d["nodes"]]
    d["arcs"] = [tuple(a) for a in d["arcs"]]
    return rep["kind"], d


# --------------------------------------------------------------------------- Coq literals
def _zrows(M):
    return lit.lst([lit.lst([lit.z(lit.exact_int(v)) for v in row]) for row in M])


def _shape(sh):
    return lit.pair(lit.nat(sh[0]), lit.nat(sh[1]))


def qdata_lit(d):
    """`qdata Z` literal (all reported data must be integral)."""
    return ("(mkQdata " + " ".join([
        _zrows(d["A"]), _shape(d["A_shape"]), lit.lst([lit.z(lit.exact_int(v)) for v in d["b"]]),
        _zrows(d["R"]), _shape(d["R_shape"]), lit.z(lit.exact_int(d["r"])),
        lit.lst([lit.z(lit.exact_int(v)) for v in d["c"]]), _zrows(d["Qo"]), _shape(d["Qo_shape"])]) + ")")


def qout_lit(out):
    """`qout` literal: Ok (shape, numerators, numerator of k, common denominator) | Err cls."""
    if not out["ok"]:
        return lit.err(out["cls"])
    den = common_den([v for row in out["Q"] for v in row] + [out["k"]])
    rows = lit.lst([lit.lst([lit.z(Fraction(v) * den) for v in row]) for row in out["Q"]])
    return lit.ok(lit.tup(_shape(out["shape"]), rows, lit.z(Fraction(out["k"]) * den), f"{den}%positive"))


# --------------------------------------------------------------------------- shrinking
def shrink_desc(desc, fails, budget=200):
    """Greedy reduction of a failing description: drop arcs, routes, customers, grid points, lower
    V / L, drop the heuristic call -- as long as `fails(desc)` stays true."""
    cur = dict(desc)
    steps = 0

    def attempt(cand):
        nonlocal cur, steps
        steps += 1
        if steps > budget:
            return False
        try:
            ok = bool(fails(cand))
        except Exception:  # noqa
            ok = False
        if ok:
            cur = cand
        return ok

    changed = True
    while changed and steps <= budget:
        changed = False
        if cur["make_feasible"] is not None:
            c = dict(cur); c["make_feasible"] = None
            changed |= attempt(c)
        for key in ("arcs", "routes", "time_points"):
            i = 0
            while i < len(cur[key]):
                if key == "time_points" and len(cur[key]) <= 1:
                    break
                c = dict(cur); c[key] = cur[key][:i] + cur[key][i + 1:]
                if attempt(c):
                    changed = True
                else:
                    i += 1
        for k in range(len(cur["nodes"]) - 1, 0, -1):
            name = cur["nodes"][k][0]
            c = dict(cur)
            c["nodes"] = cur["nodes"][:k] + cur["nodes"][k + 1:]
            c["arcs"] = [a for a in cur["arcs"] if name not in (a[0], a[1])]
            c["routes"] = [r for r in cur["routes"] if name not in r]
            if len(c["nodes"]) >= 2:
                changed |= attempt(c)
        for key, lo in (("V", 0), ("L", 2)):
            if cur[key] > lo:
                c = dict(cur); c[key] = cur[key] - 1
                changed |= attempt(c)
    return cur
