"""C19 -- Sampler expressions evaluate the expression on the leaf draws.

Proof:  coq/props/C19.v (hand model coq/theories/Sampler.v, lemmas Sampler_facts.v).
Translation: harness/translate_sampling.py turns tools/sampling.py into coq/gen/SamplerGen.v on every
        run; coq/genprops/C19_gen.v proves the generated definitions equal to the hand model and
        restates the main theorems for the generated operator table.  Its theorems are counted as
        proof obligations.
Tie:    random expression trees over STUB leaves (deterministic dyadic arrays, every rvs call logged),
        built with Python's own operators on the real classes; result array and draw log are compared
        with the model inside Coq (Qc instance).  Corpus: the expressions of mirp_random.get_generator,
        taken from its source text and from the objects the real function builds.
Oracle: the expression evaluated with exact Fractions on the arrays that the leaves handed out.
"""
import ast
import fcntl
import inspect
import itertools
import operator
import os
import re
import textwrap
from fractions import Fraction

import numpy as np

from vq import lit
from vq import core
from vq.core import exc_cls

HEADER = ("From Coq Require Import QArith Qcanon List.\nFrom VQ Require Import Base Sampler.\n"
          "Definition c (n : Z) (dn : positive) : Qc := Q2Qc (Qmake n dn).")
GEN_FLAGS = core.COQ_FLAGS + ["-Q", "genprops", "VQGP"]
GENPROPS = "genprops/C19_gen.v"

GENERAL_LEAVES = [0, 1, 2]
POW2_LEAVES = [10, 11]
BINOPS = {"+": operator.add, "-": operator.sub, "*": operator.mul, "/": operator.truediv}
CTOR = {"+": "AAdd", "-": "ASub", "*": "AMul", "/": "ADiv"}


# ----------------------------------------------------------------------------------------
# expressions:  ("L", id) | ("K", kind, num, den) | (op, a, b) | ("neg", a)
# ----------------------------------------------------------------------------------------
def K(kind, fr):
    fr = Fraction(fr)
    return ("K", kind, fr.numerator, fr.denominator)


def const_value(e):
    _, kind, n, dn = e
    if kind == "int":
        assert dn == 1
        return int(n)
    if kind == "float":
        return n / dn
    if kind == "np":
        return np.float64(n / dn)
    return Fraction(n, dn)


def leaves(e):
    if e[0] == "L":
        return [e[1]]
    if e[0] == "K":
        return []
    if e[0] == "neg":
        return leaves(e[1])
    return leaves(e[1]) + leaves(e[2])


def size_of(e):
    if e[0] in ("L", "K"):
        return 1
    return 1 + sum(size_of(x) for x in e[1:])


def subtrees(e):
    out = [e]
    if e[0] not in ("L", "K"):
        for x in e[1:]:
            out += subtrees(x)
    return out


def show(e):
    if e[0] == "L":
        return f"leaf{e[1]}"
    if e[0] == "K":
        v = Fraction(e[2], e[3])
        return f"{e[1]}({v})"
    if e[0] == "neg":
        return f"-({show(e[1])})"
    return f"({show(e[1])} {e[0]} {show(e[2])})"


def to_list(e):
    return [to_list(x) if isinstance(x, tuple) else x for x in e]


def from_list(e):
    return tuple(from_list(x) if isinstance(x, list) else x for x in e)


def dispatch_branches(e, acc):
    """Which branch of the model's `dispatch` every operator of e takes; returns 'S' or 'C'."""
    if e[0] == "L":
        return "S"
    if e[0] == "K":
        return "C"
    if e[0] == "neg":
        k = dispatch_branches(e[1], acc)
        acc[f"neg/{k}"] = acc.get(f"neg/{k}", 0) + 1
        return k
    a = dispatch_branches(e[1], acc)
    b = dispatch_branches(e[2], acc)
    acc[f"{e[0]}/{a}{b}"] = acc.get(f"{e[0]}/{a}{b}", 0) + 1
    return "S" if "S" in (a, b) else "C"


ALL_BRANCHES = [f"{o}/{a}{b}" for o in BINOPS for a in "SC" for b in "SC"] + ["neg/S", "neg/C"]


# ---------------- generators ----------------
def gen_const(rng, pow2=False):
    kind = rng.choice(["int", "float", "float", "np", "frac"])
    if pow2:
        v = Fraction(2) ** rng.randint(-2, 2) * rng.choice([1, 1, -1])
    else:
        v = Fraction(rng.randint(-12, 12), rng.choice([1, 2, 4]))
    if kind == "int" and v.denominator != 1:
        kind = "float"
    return K(kind, v)


def gen_pow2(rng, depth):
    """An expression whose value is +-2^j in every position (a safe denominator)."""
    r = rng.random()
    if depth == 0 or r < 0.5:
        if rng.random() < 0.55:
            return ("L", rng.choice(POW2_LEAVES))
        return gen_const(rng, pow2=True)
    if r < 0.6:
        return ("neg", gen_pow2(rng, depth - 1))
    return (rng.choice(["*", "/"]), gen_pow2(rng, depth - 1), gen_pow2(rng, depth - 1))


def gen_expr(rng, depth):
    r = rng.random()
    if depth == 0 or r < 0.18:
        if rng.random() < 0.6:
            return ("L", rng.choice(GENERAL_LEAVES + POW2_LEAVES[:1]))
        return gen_const(rng)
    if r < 0.28:
        return ("neg", gen_expr(rng, depth - 1))
    op = rng.choice(["+", "-", "-", "*", "/"])
    if op == "/":
        return ("/", gen_expr(rng, depth - 1), gen_pow2(rng, min(depth - 1, 2)))
    return (op, gen_expr(rng, depth - 1), gen_expr(rng, depth - 1))


def make_plan(rng, e, m, extra=2):
    """Arrays the stub leaves will hand out: leaf id -> list (per draw of that leaf) of m Fractions."""
    need = {}
    for i in leaves(e):
        need[i] = need.get(i, 0) + 1
    plan = {}
    for i in sorted(need):
        arrs = []
        for _ in range(2 * need[i] + extra):
            if i in POW2_LEAVES:
                arrs.append([Fraction(2) ** rng.randint(-2, 2) * rng.choice([1, 1, -1]) for _ in range(m)])
            else:
                arrs.append([Fraction(rng.randint(-12, 12), 4) for _ in range(m)])
        plan[i] = arrs
    return plan


class Inexact(Exception):
    pass


def eval_exact(e, arrays, m, check=False):
    """Value of e, element by element, with exact rationals; `arrays` is an iterator over the arrays
    of the leaf occurrences in left-to-right order.  With check=True raise Inexact when an
    intermediate value is not a float or a divisor is zero."""
    def ok(vs):
        if check:
            for v in vs:
                if Fraction(float(v)) != v:
                    raise Inexact()
        return vs
    if e[0] == "L":
        return list(next(arrays))
    if e[0] == "K":
        return [Fraction(e[2], e[3])] * m
    if e[0] == "neg":
        return [-v for v in eval_exact(e[1], arrays, m, check)]
    a = eval_exact(e[1], arrays, m, check)
    b = eval_exact(e[2], arrays, m, check)
    if e[0] == "/":
        if any(v == 0 for v in b):
            raise Inexact()
    return ok([BINOPS[e[0]](x, y) for x, y in zip(a, b)])


def planned_arrays(e, plan):
    cnt = {}
    out = []
    for i in leaves(e):
        k = cnt.get(i, 0)
        cnt[i] = k + 1
        out.append(plan[i][k])
    return out


def exact_on_plan(e, plan, m):
    try:
        eval_exact(e, iter(planned_arrays(e, plan)), m, check=True)
        return True
    except (Inexact, ZeroDivisionError, OverflowError):
        return False


# ----------------------------------------------------------------------------------------
# the implementation under stub leaves
# ----------------------------------------------------------------------------------------
class Recorder:
    def __init__(self, plan, m):
        self.plan = plan
        self.m = m
        self.counts = {}
        self.log = []          # (leaf id, size) per call
        self.arrays = {}       # leaf id -> arrays handed out, in that leaf's draw order

    def draw(self, lid, size):
        k = self.counts.get(lid, 0)
        self.counts[lid] = k + 1
        try:
            n = int(size)
            if n != size or n < 0:
                n = -1
        except Exception:  # noqa
            n = -1
        self.log.append((lid, n))
        if n == self.m and k < len(self.plan.get(lid, [])):
            vals = self.plan[lid][k]
        else:
            vals = [Fraction((lid + 1) * (k + 2) + j, 4) for j in range(max(n, 0))]
        self.arrays.setdefault(lid, []).append(list(vals))
        return np.array([float(v) for v in vals])


class Box:
    rec = None


def stub_class():
    from vrpqubo.tools.sampling import SimpleSampler

    class StubLeaf(SimpleSampler):
        """A leaf sampler: deterministic arrays from the recorder, every call logged."""
        def __init__(self, lid, box):
            self.lid = lid
            self.box = box

        def rvs(self, size=1):
            return self.box.rec.draw(self.lid, size)
    return StubLeaf


def build(e, leafobj):
    if e[0] == "L":
        return leafobj[e[1]]
    if e[0] == "K":
        return const_value(e)
    if e[0] == "neg":
        return operator.neg(build(e[1], leafobj))
    return BINOPS[e[0]](build(e[1], leafobj), build(e[2], leafobj))


def to_fracs(r):
    """1-d array -> list of Fractions, None when not representable"""
    try:
        if not isinstance(r, np.ndarray) or r.ndim != 1:
            return None
        return [Fraction(float(x)) for x in r]
    except (OverflowError, ValueError, TypeError):
        return None


class World:
    def __init__(self):
        self.box = Box()
        Stub = stub_class()
        self.leaf = {i: Stub(i, self.box) for i in GENERAL_LEAVES + POW2_LEAVES}

    def observe(self, plan, m, thunk):
        """Run thunk() -> object with rvs (or call), under a fresh recorder."""
        rec = Recorder(plan, m)
        self.box.rec = rec
        try:
            r = thunk()
            out = ("ok", r)
        except Exception as ex:  # noqa
            out = ("err", exc_cls(ex), f"{type(ex).__name__}: {ex}")
        return out, rec

    def run_expr(self, e, m, plan):
        return self.observe(plan, m, lambda: build(e, self.leaf).rvs(m))


def oracle_expr(e, m, out, rec):
    """None when the property holds on this run; else (kind, message).  kind 'order' is a deviation
    from left-to-right drawing only (not a failure of the property text)."""
    if not leaves(e):
        return None
    if out[0] == "err":
        return ("raises", f"{show(e)} with size {m} raised {out[2]}")
    r = out[1]
    if not isinstance(r, np.ndarray) or r.shape != (m,):
        return ("shape", f"{show(e)}.rvs({m}) returned {type(r).__name__} of shape {getattr(r, 'shape', None)}, expected ({m},)")
    want = leaves(e)
    got = [i for i, _ in rec.log]
    if sorted(got) != sorted(want) or any(s != m for _, s in rec.log):
        return ("draw-count", f"{show(e)}.rvs({m}): leaves drawn {rec.log}, expected each of {want} once with size {m}")
    vals = to_fracs(r)
    cnt = {}
    arrs = []
    for i in want:
        k = cnt.get(i, 0)
        cnt[i] = k + 1
        arrs.append(rec.arrays[i][k])
    expect = eval_exact(e, iter(arrs), m)
    if vals != expect:
        # is it only the assignment of draws to the occurrences of one leaf?
        multi = [i for i in sorted(cnt) if cnt[i] > 1]
        perms = [list(itertools.permutations(range(cnt[i]))) for i in multi]
        n = 1
        for p in perms:
            n *= len(p)
        if multi and n > 5000:
            return ("order", f"{show(e)}.rvs({m}) differs from the left-to-right assignment of draws to occurrences; "
                             "too many re-assignments of the draws of repeated leaves to decide whether one of them matches")
        if multi:
            for choice in itertools.product(*perms):
                sel = dict(zip(multi, choice))
                c2 = {}
                arrs2 = []
                for i in want:
                    k = c2.get(i, 0)
                    c2[i] = k + 1
                    arrs2.append(rec.arrays[i][sel[i][k] if i in sel else k])
                if eval_exact(e, iter(arrs2), m) == vals:
                    return ("order", f"{show(e)}.rvs({m}) assigns the draws of a repeated leaf to its occurrences in another order")
        return ("values", f"{show(e)}.rvs({m}) = {[str(v) for v in vals] if vals is not None else r!r}, "
                          f"expression on the drawn arrays = {[str(v) for v in expect]}")
    if got != want:
        return ("order", f"{show(e)}.rvs({m}) draws leaves in order {got}, left-to-right is {want}")
    return None


# ---------------- Coq literals ----------------
def qc(fr):
    fr = Fraction(fr)
    n = fr.numerator
    return f"(c ({n}) {fr.denominator})" if n < 0 else f"(c {n} {fr.denominator})"


def aexp_lit(e):
    if e[0] == "L":
        return f"(ALeaf {lit.nat(e[1])})"
    if e[0] == "K":
        return f"(AConst {qc(Fraction(e[2], e[3]))})"
    if e[0] == "neg":
        return f"(ANeg {aexp_lit(e[1])})"
    return f"({CTOR[e[0]]} {aexp_lit(e[1])} {aexp_lit(e[2])})"


def table_lit(rec):
    return lit.lst([lit.pair(lit.nat(i), lit.lst([lit.lst([qc(v) for v in a]) for a in rec.arrays[i]]))
                    for i in sorted(rec.arrays)])


def log_lit(rec):
    return lit.lst([lit.pair(lit.nat(i), lit.nat(s if 0 <= s < 4999 else 4999)) for i, s in rec.log])


def scase_lit(e, m, out, rec):
    if out[0] == "err":
        res = lit.err(out[1])
    else:
        vals = to_fracs(out[1])
        res = lit.err("OtherError") if vals is None else lit.ok(lit.lst([qc(v) for v in vals]))
    return lit.tup(aexp_lit(e), lit.nat(m), table_lit(rec), res, log_lit(rec))


# ----------------------------------------------------------------------------------------
# translator + generated proof obligations
# ----------------------------------------------------------------------------------------
def theorem_blocks(src):
    """(header, [(name, text)], tail) of a props file whose theorems all end with Qed."""
    src = core.strip_comments(src)
    ms = list(re.finditer(r"^Theorem\s+([\w']+)\b.*?\bQed\.", src, re.M | re.S))
    header = src[:ms[0].start()]
    blocks = [(m.group(1), m.group(0)) for m in ms]
    return header, blocks


def run_translator(ctx):
    """Generate SamplerGen.v, compile it and C19_gen.v.  Returns a dict describing the outcome."""
    import translate_sampling as TS
    import vrpqubo.tools.sampling as S
    path = inspect.getsourcefile(S)
    gsrc = open(os.path.join(core.COQ, GENPROPS)).read()
    header, blocks = theorem_blocks(gsrc)
    names = [n for n, _ in blocks]
    res = {"source": path, "theorems": names, "failed": {}, "status": "ok", "axioms": []}
    try:
        text = TS.translate_file(path)
    except TS.Abort as ex:
        res["status"] = "abort"
        res["message"] = str(ex)
        res["failed"] = {n: "not compiled: the translator rejected the source" for n in names}
        return res
    os.makedirs(core.GEN, exist_ok=True)
    with open(os.path.join(core.GEN, ".c19.lock"), "w") as lock:
        fcntl.flock(lock, fcntl.LOCK_EX)
        with open(os.path.join(core.GEN, "SamplerGen.v"), "w") as fh:
            fh.write(text + "\n")
        bad = core.hygiene(["gen/SamplerGen.v", GENPROPS])
        if bad:
            res["status"] = "hygiene"
            res["message"] = "; ".join(bad[:10])
            res["failed"] = {n: "hygiene" for n in names}
            return res
        rc, out = core.sh(["coqc"] + GEN_FLAGS + ["gen/SamplerGen.v"], 300, cwd=core.COQ)
        if rc != 0:
            res["status"] = "gen-does-not-compile"
            res["message"] = out[-3000:]
            res["failed"] = {n: "not compiled: generated file rejected by coqc" for n in names}
            return res
        rc, out = core.sh(["coqc"] + GEN_FLAGS + [GENPROPS], 300, cwd=core.COQ)
        if rc == 0:
            for b in core.parse_assumptions(out):
                res["axioms"] += b
            return res
        # isolate the failing theorems: drop the theorem the error points into (and everything that
        # mentions it) until the rest compiles
        res["status"] = "proof-fails"
        res["coqc_output"] = out[-3000:]
        remaining = list(blocks)
        tmp = f"gen/C19_gen_part_{os.getpid()}.v"
        for _ in range(len(blocks) + 1):
            body = header
            spans = []
            for n, t in remaining:
                start = body.count("\n") + 1
                body += t + "\n\n"
                spans.append((n, start, body.count("\n")))
            with open(os.path.join(core.COQ, tmp), "w") as fh:
                fh.write(body)
            rc, out = core.sh(["coqc"] + GEN_FLAGS + [tmp], 300, cwd=core.COQ)
            if rc == 0 or not remaining:
                break
            m = re.search(r"line (\d+), characters", out)
            culprit = None
            if m:
                ln = int(m.group(1))
                for n, a, b in spans:
                    if a <= ln <= b:
                        culprit = n
            if culprit is None:
                for n, _ in remaining:
                    res["failed"].setdefault(n, "could not be isolated: " + out[-300:])
                remaining = []
                break
            err = " ".join(out.split())
            res["failed"][culprit] = err[err.find("Error"):][:600]
            keep = []
            for n, t in remaining:
                if n == culprit:
                    continue
                if re.search(r"\b" + re.escape(culprit) + r"\b", t):
                    res["failed"][n] = f"depends on {culprit}"
                    continue
                keep.append((n, t))
            remaining = keep
        for ext in (".v", ".vo", ".vok", ".vos", ".glob"):
            try:
                os.remove(os.path.join(core.COQ, tmp[:-2] + ext))
            except OSError:
                pass
        try:
            os.remove(os.path.join(core.GEN, "." + os.path.basename(tmp)[:-2] + ".aux"))
        except OSError:
            pass
        res["generated"] = text
    return res


# ----------------------------------------------------------------------------------------
# corpus: the expressions of mirp_random.get_generator
# ----------------------------------------------------------------------------------------
MIRP_FIELDS = ["inventory_rate_supply", "inventory_rate_demand", "inventory_cap_supply",
               "inventory_cap_demand", "inventory_init_demand"]
MIRP_LEAVES = {"travel_times": 0, "time_windows": 1, "time_between_windows": 10}


def mirp_expressions():
    """name -> expression, read from the source text of get_generator."""
    from vrpqubo.examples import mirp_random as MR
    fn = ast.parse(textwrap.dedent(inspect.getsource(MR.get_generator))).body[0]
    env = {k: ("L", v) for k, v in MIRP_LEAVES.items()}

    def conv(n):
        if isinstance(n, ast.Constant) and type(n.value) in (int, float):
            return K("int" if type(n.value) is int else "float", Fraction(n.value))
        if isinstance(n, ast.Name) and n.id in env:
            return env[n.id]
        if isinstance(n, ast.UnaryOp) and isinstance(n.op, ast.USub):
            a = conv(n.operand)
            return None if a is None else ("neg", a)
        if isinstance(n, ast.BinOp):
            op = {ast.Add: "+", ast.Sub: "-", ast.Mult: "*", ast.Div: "/"}.get(type(n.op))
            a, b = conv(n.left), conv(n.right)
            return None if op is None or a is None or b is None else (op, a, b)
        return None
    for st in fn.body:
        if isinstance(st, ast.Assign) and len(st.targets) == 1 and isinstance(st.targets[0], ast.Name):
            v = conv(st.value)
            if v is not None:
                env[st.targets[0].id] = v
            else:
                env.pop(st.targets[0].id, None)
    return {k: env[k] for k in MIRP_FIELDS if k in env and leaves(env[k])}


# ----------------------------------------------------------------------------------------
# sample() helper
# ----------------------------------------------------------------------------------------
def sample_inputs(rng):
    out = []
    scalars = [3, 2.5, np.float64(1.5), np.int64(4), -0.75, True]
    for v in scalars:
        for size in range(0, 4):
            out.append((v, size))
    for n in range(0, 6):
        for size in range(0, 6):
            vals = [rng.randint(-12, 12) / 4 for _ in range(n)]
            mk = rng.choice([list, tuple, np.array])
            out.append((mk(vals), size))
            if rng.random() < 0.4:
                out.append(([int(4 * v) for v in vals], size))
    # multi-dimensional non-random values: "length" is the length of the outer sequence
    # (travel_times tables are such values); these go through the oracle only
    nested = [np.zeros((3, 2)), np.ones((1, 3)), np.arange(4.0).reshape(2, 2), [[1, 2], [3, 4]], ((1, 2, 3),), [[0.5]], np.zeros((2, 3))]
    for v in nested:
        for size in range(0, 7):
            out.append((v, size))
    return out


def is_nested(v):
    return (not np.isscalar(v)) and len(v) > 0 and not np.isscalar(v[0])


def sample_observe(v, size):
    from vrpqubo.examples.mirp_random import sample
    try:
        r = sample(v, size)
    except Exception as ex:  # noqa
        return ("err", exc_cls(ex), f"{type(ex).__name__}: {ex}")
    return ("ok", r)


def sample_oracle(v, size, obs):
    scalar = bool(np.isscalar(v))
    fits = (scalar and size == 1) or (not scalar and len(v) == size)
    what = f"sample({v!r}, size={size})"
    if fits:
        if obs[0] == "err":
            return ("rejected", f"{what} raised {obs[2]} although the length matches")
        if obs[1] is not v:
            return ("changed", f"{what} returned {obs[1]!r}, not the argument itself")
        return None
    if obs[0] == "ok":
        return ("accepted", f"{what} returned {obs[1]!r} although the length does not match (expected ValueError)")
    return None


def harg_lit(v):
    if np.isscalar(v):
        return f"(HScalar {qc(Fraction(float(v)))})"
    return "(HSeq " + lit.lst([qc(Fraction(float(x))) for x in v]) + ")"


def hobs_lit(v, obs):
    if obs[0] == "err":
        return lit.err(obs[1])
    r = obs[1]
    same = lit.boolean(r is v)
    try:
        if np.isscalar(r):
            return lit.ok(lit.tup(same, "0%nat", lit.lst([qc(Fraction(float(r)))])))
        return lit.ok(lit.tup(same, "1%nat", lit.lst([qc(Fraction(float(x))) for x in r])))
    except Exception:  # noqa
        return lit.err("OtherError")


# ----------------------------------------------------------------------------------------
def shrink(world, rng, e, m):
    """Smallest subtree (with a leaf) on which the oracle still reports a hard failure."""
    def fails(x):
        for _ in range(3):
            plan = make_plan(rng, x, m)
            if not exact_on_plan(x, plan, m):
                continue
            out, rec = world.run_expr(x, m, plan)
            f = oracle_expr(x, m, out, rec)
            return (f, plan) if f is not None and f[0] != "order" else None
        return None
    best = None
    for cand in sorted((s for s in subtrees(e) if leaves(s)), key=size_of):
        r = fails(cand)
        if r:
            best = (cand, r[0], r[1])
            break
    return best


def replay_dict(e, m, plan, msg):
    return {"expression": show(e), "expr": to_list(e), "size": m,
            "leaf_arrays": {str(i): [[str(v) for v in a] for a in arrs] for i, arrs in plan.items()},
            "observed_vs_expected": msg,
            "python": "props.c19.replay: builds the expression with Python operators on StubLeaf samplers "
                      "(tools.sampling.SimpleSampler subclasses) and compares .rvs(size) with the expression on the drawn arrays"}


def run(ctx):
    ctx.prove()
    import translate_samplehelper as TSH
    ctx.gen_step("samplehelper", TSH.translate, "C19_helper_gen",
                 "harness/translate_samplehelper.py (ast -> Gallina printer for the helper sample(vari, size) of examples/mirp_random.py: "
                 "if / return / raise, isinstance, np.isscalar, len, ==, and / or / not; combinators in coq/theories/PySampleHelper.v)")
    import translate_generator as TG
    ctx.gen_step("generator", TG.translate, "C19_generator_gen",
                 "harness/translate_generator.py (ast -> Gallina printer for get_generator of examples/mirp_random.py: symbolic execution of "
                 "`if P is None: P = uniform(..)`, `if isinstance(P, RVT): P = WrapperSampler(P)`, assignments of + - * / expressions over "
                 "literals and names, uniform(loc, scale), the RandomMIRP(...) dataclass call; vocabulary in coq/theories/PyGenerator.v); "
                 "that scipy.stats.uniform(loc, scale) draws inside [loc, loc + scale] and that distinct rvs calls are independent draws")
    from props import pysem; pysem.run(ctx, pysem.GROUPS_FOR.get(ctx.pid, ()))
    rng = ctx.rng
    quick = ctx.quick
    world = World()
    hard = []            # (e, m, plan, (kind, msg)) : true failing inputs found by the oracle
    soft = []
    dist = {"sizes": {}, "const_kinds": {}, "branches": {}, "repeated_leaf_cases": 0, "leafless": 0,
            "max_depth_nodes": 0, "sample_cases": {}, "oracle_failures": {}}

    # ---- 0. translator and the obligations about the generated definitions ----
    tr = run_translator(ctx)
    n_gen = len(tr["theorems"])
    ctx.cov["obligations"] += n_gen
    ctx.cov["discharged"] += n_gen - len(tr["failed"])
    ctx.cov["checker_cmd"] += (" && /venv/bin/python harness/translate_sampling.py $VQ_REPO/src/vrpqubo/tools/sampling.py > coq/gen/SamplerGen.v"
                               " && coqc -Q theories VQ -Q props VQP -Q gen VQG gen/SamplerGen.v"
                               " && coqc -Q theories VQ -Q props VQP -Q gen VQG -Q genprops VQGP genprops/C19_gen.v")
    ctx.cov["translator"] = {"status": tr["status"], "source": tr["source"], "generated_theorems": n_gen,
                             "failed": sorted(tr["failed"])}
    ctx.cov["trusted_base"].append("translator harness/translate_sampling.py (accepted statement shapes and printed Gallina); "
                                   "correspondence harness, stub leaves and literal printers of harness/props/c19.py")
    if tr["axioms"]:
        ctx.cov["trusted_base"].append("axioms reported for genprops/C19_gen.v: " + ", ".join(sorted(set(tr["axioms"]))))
    ctx.level = "proof + translation"

    def note(e, m, plan, out, rec):
        f = oracle_expr(e, m, out, rec)
        if f is not None:
            dist["oracle_failures"][f[0]] = dist["oracle_failures"].get(f[0], 0) + 1
            (soft if f[0] == "order" else hard).append((e, m, plan, f))
        return f

    # ---- 1. oracle sweep: all small expressions over four atoms ----
    atoms = [("L", 0), ("L", 10), K("float", Fraction(3, 2)), K("int", 2)]
    pow2 = {("L", 10), K("int", 2)}
    d1 = list(atoms) + [("neg", a) for a in atoms]
    p1 = set(pow2) | {("neg", a) for a in pow2}
    for op in BINOPS:
        for a in atoms:
            for b in atoms:
                if op == "/" and b not in pow2:
                    continue
                d1.append((op, a, b))
                if op in "*/" and a in pow2 and b in pow2:
                    p1.add((op, a, b))
    sweep = [e for e in d1 if leaves(e)]
    left = d1 if not quick else atoms
    for op in BINOPS:
        for a in d1:
            for b in (d1 if a in left else atoms):
                if op == "/" and b not in p1:
                    continue
                e = (op, a, b)
                if leaves(e):
                    sweep.append(e)
    sweep += [("neg", e) for e in d1 if e[0] not in ("L", "K") and leaves(e)]
    n_sweep = 0
    sweep_cases = []
    for e in sweep:
        m = 2
        plan = make_plan(rng, e, m)
        if not exact_on_plan(e, plan, m):
            continue
        out, rec = world.run_expr(e, m, plan)
        note(e, m, plan, out, rec)
        n_sweep += 1
        if not quick:
            sweep_cases.append((e, m, plan, out, rec))
    ctx.cov["sweep_expressions"] = n_sweep
    ctx.cov["sweep_bound"] = ("every expression with a leaf of the form atom, -atom, atom op atom, -(atom op atom), x op y with x, y of "
                              "these forms (quick: one of x, y an atom) over atoms {leaf, power-of-two leaf, 3/2, 2}, size 2")

    # ---- 1b. shared sub-expression OBJECTS: s = a op b is built once and used in two parents; building the
    # first parent must not change what the second parent (or s itself) evaluates to ----
    n_dag = 0
    for k in range(60 if quick else 600):
        e0 = gen_expr(rng, rng.randint(1, 2))
        if not leaves(e0) or e0[0] in ("L", "K"):
            continue
        e1 = gen_expr(rng, rng.randint(0, 1))
        e2 = gen_expr(rng, rng.randint(0, 1))
        op1, op2 = rng.choice(["+", "-", "*"]), rng.choice(["+", "-", "*"])
        m = 1 + k % 3
        try:
            shared = build(e0, world.leaf)
            first = BINOPS[op1](shared, build(e1, world.leaf))            # noqa: F841 (built for its side effects, if any)
            second = BINOPS[op2](shared, build(e2, world.leaf)) if k % 2 else BINOPS[op2](build(e2, world.leaf), shared)
        except Exception as ex:  # noqa
            hard.append((e0, m, {}, ("raised", f"building two parents of one sub-expression object raised {type(ex).__name__}: {ex}")))
            break
        for obj, e in ((second, (op2, e0, e2) if k % 2 else (op2, e2, e0)), (shared, e0)):
            plan = make_plan(rng, e, m)
            if not exact_on_plan(e, plan, m):
                continue
            out, rec = world.observe(plan, m, lambda o=obj: o.rvs(m))
            f = oracle_expr(e, m, out, rec)
            n_dag += 1
            if f is not None:
                hard.append((e, m, plan, (f[0], f"sub-expression object {show(e0)} shared by two parents (first parent: {show((op1, e0, e1))}): " + f[1])))
    ctx.cov["shared_subexpression_cases"] = n_dag

    # ---- 2. random trees: oracle + correspondence ----
    n_random = 300 if quick else 5000
    cases = []
    seen = set()
    tries = 0
    while len(cases) < n_random:
        tries += 1
        if tries > 40 * n_random:
            ctx.tooling_failure("generator", "could not generate enough float-exact expressions")
            break
        k = len(cases)
        depth = 1 + (k % 5) if k % 7 else rng.randint(0, 5)
        e = gen_expr(rng, depth)
        if not leaves(e) and rng.random() < 0.85:
            continue
        m = 1 + (k % 5)
        plan = make_plan(rng, e, m)
        if not exact_on_plan(e, plan, m):
            continue
        out, rec = world.run_expr(e, m, plan)
        note(e, m, plan, out, rec)
        cases.append((e, m, plan, out, rec))
        # evidence
        dist["sizes"][m] = dist["sizes"].get(m, 0) + 1
        br = {}
        dispatch_branches(e, br)
        for b, n in br.items():
            dist["branches"][b] = dist["branches"].get(b, 0) + n
        for s in subtrees(e):
            if s[0] == "K":
                dist["const_kinds"][s[1]] = dist["const_kinds"].get(s[1], 0) + 1
        ls = leaves(e)
        if len(set(ls)) < len(ls):
            dist["repeated_leaf_cases"] += 1
        if not ls:
            dist["leafless"] += 1
        dist["max_depth_nodes"] = max(dist["max_depth_nodes"], size_of(e))
        mixed = any(b.endswith("/SC") or b.endswith("/CS") for b in br)
        nops = sum(n for b, n in br.items() if not b.startswith("neg"))
        key = repr(e)
        if ls and mixed and nops >= 2 and key not in seen:
            seen.add(key)
            ctx.count(nontrivial=1)
    missing = [b for b in ALL_BRANCHES if not dist["branches"].get(b)]
    if missing:
        ctx.tooling_failure("generator-coverage", f"dispatch branches never generated: {missing}")
    for c in cases[5:8]:
        ctx.sample({"expression": show(c[0]), "size": c[1], "draw_log": c[4].log,
                    "result": [str(v) for v in (to_fracs(c[3][1]) or [])] if c[3][0] == "ok" else c[3][1]})

    # ---- 3. corpus: mirp_random.get_generator ----
    corpus = []
    try:
        exprs = mirp_expressions()
    except Exception as ex:  # noqa
        exprs = {}
        ctx.tooling_failure("mirp-corpus", f"cannot read the expressions of get_generator: {type(ex).__name__}: {ex}")
    if sorted(exprs) != sorted(MIRP_FIELDS):
        ctx.tooling_failure("mirp-corpus", f"expressions found in get_generator: {sorted(exprs)}; expected {MIRP_FIELDS}")
    else:
        from vrpqubo.examples.mirp_random import get_generator, sample
        gen = get_generator(2, 2, 100.0, travel_times=world.leaf[0], time_windows=world.leaf[1],
                            time_between_windows=world.leaf[10])
        for name in MIRP_FIELDS:
            e = exprs[name]
            obj = getattr(gen, name)
            for m in range(1, 6):
                for via in ("object", "source", "sample"):
                    plan = make_plan(rng, e, m)
                    if not exact_on_plan(e, plan, m):
                        continue
                    if via == "object":
                        out, rec = world.observe(plan, m, lambda: obj.rvs(m))
                    elif via == "source":
                        out, rec = world.run_expr(e, m, plan)
                    else:
                        out, rec = world.observe(plan, m, lambda: sample(obj, size=m))
                    note(e, m, plan, out, rec)
                    corpus.append((e, m, plan, out, rec))
        ctx.sample({"corpus": {k: show(v) for k, v in exprs.items()}})
    ctx.cov["corpus_cases"] = len(corpus)

    # ---- 4. wrapped scipy.stats leaves: shape and call counting only ----
    from scipy.stats import uniform
    from vrpqubo.tools.sampling import WrapperSampler
    calls = []

    class CountingRV:
        def __init__(self, lid, rv):
            self.lid, self.rv = lid, rv

        def rvs(self, size=1):
            calls.append((self.lid, size))
            return self.rv.rvs(size)
    wleaf = {i: WrapperSampler(CountingRV(i, uniform(loc=1 + i % 3, scale=2))) for i in GENERAL_LEAVES + POW2_LEAVES}
    n_wrapped = 60 if quick else 600
    done = 0
    while done < n_wrapped:
        e = gen_expr(rng, rng.randint(1, 4))
        if not leaves(e):
            continue
        m = 1 + done % 5
        del calls[:]
        np.random.seed(rng.randrange(2 ** 32))
        try:
            r = build(e, wleaf).rvs(m)
            bad = None
            if not isinstance(r, np.ndarray) or r.shape != (m,):
                bad = f"returned {type(r).__name__} of shape {getattr(r, 'shape', None)}"
            elif sorted(calls) != sorted((i, m) for i in leaves(e)):
                bad = f"underlying rvs calls {calls}, expected each of {leaves(e)} once with size {m}"
        except Exception as ex:  # noqa
            bad = f"raised {type(ex).__name__}: {ex}"
        if bad:
            ctx.violation("oracle/wrapped/" + bad.split()[0], f"{show(e)} over WrapperSampler(uniform) leaves, size {m}: {bad}",
                          {"expression": show(e), "expr": to_list(e), "size": m, "leaves": "WrapperSampler(uniform(loc=1+i%3, scale=2))",
                           "python": "props.c19.replay"}, True)
            break
        done += 1
    # the default generator (real scipy leaves)
    try:
        from vrpqubo.examples.mirp_random import get_generator, sample
        g0 = get_generator(2, 2, 100.0)
        for name in MIRP_FIELDS + ["inventory_init_supply", "travel_times"]:
            for m in (1, 3):
                np.random.seed(rng.randrange(2 ** 32))
                r = sample(getattr(g0, name), size=m)
                done += 1
                if not isinstance(r, np.ndarray) or r.shape != (m,):
                    ctx.violation("oracle/default-generator/shape", f"sample(get_generator(...).{name}, size={m}) has shape {getattr(r, 'shape', None)}",
                                  {"field": name, "size": m}, True)
    except Exception as ex:  # noqa
        ctx.violation("oracle/default-generator/raises", f"sampling a field of get_generator(2, 2, 100.0) raised {type(ex).__name__}: {ex}",
                      {"call": "sample(getattr(get_generator(2, 2, 100.0), field), size=m)"}, True)
    ctx.cov["wrapped_scipy_cases"] = done

    # ---- 5. sample() on non-random values ----
    hterms = []
    hcases = []
    for v, size in sample_inputs(rng):
        obs = sample_observe(v, size)
        f = sample_oracle(v, size, obs)
        kind = ("scalar" if np.isscalar(v) else type(v).__name__) + ("/ok" if obs[0] == "ok" else "/" + obs[1])
        dist["sample_cases"][kind] = dist["sample_cases"].get(kind, 0) + 1
        if f:
            ctx.violation(f"oracle/sample/{f[0]}", f[1],
                          {"value": repr(v), "type": type(v).__name__, "size": size, "observed": repr(obs[1:]),
                           "python": "vrpqubo.examples.mirp_random.sample(value, size)"}, True)
        if is_nested(v):
            continue
        hcases.append((v, size, obs))
        hterms.append(lit.tup(harg_lit(v), lit.nat(size), "[]", hobs_lit(v, obs), "[]"))
    # samplers through sample()
    for k in range(20 if quick else 200):
        e = gen_expr(rng, rng.randint(0, 3))
        m = 1 + k % 5
        if not leaves(e):
            continue
        plan = make_plan(rng, e, m)
        if not exact_on_plan(e, plan, m):
            continue
        from vrpqubo.examples.mirp_random import sample
        obj = build(e, world.leaf)
        out, rec = world.observe(plan, m, lambda: sample(obj, size=m))
        note(e, m, plan, out, rec)
        if out[0] == "ok":
            vals = to_fracs(out[1])
            obs_l = lit.err("OtherError") if vals is None else lit.ok(lit.tup("false", "1%nat", lit.lst([qc(x) for x in vals])))
        else:
            obs_l = lit.err(out[1])
        hcases.append((show(e), m, out))
        hterms.append(lit.tup(f"(HExp {aexp_lit(e)})", lit.nat(m), table_lit(rec), obs_l, log_lit(rec)))
        dist["sample_cases"]["sampler"] = dist["sample_cases"].get("sampler", 0) + 1

    # ---- 6. correspondence inside Coq ----
    allcases = cases + corpus + sweep_cases
    terms = [scase_lit(e, m, out, rec) for e, m, plan, out, rec in allcases]
    mism, err = ctx.coq_mismatches("expr", HEADER, "scase", "check_scase", terms)
    hmism, herr = ctx.coq_mismatches("sample", HEADER, "hcase", "check_hcase", hterms)
    ctx.count(evaluations=n_sweep + len(allcases) + len(hterms) + done, traces=len(allcases) + len(hterms))
    dist["tries"] = tries
    ctx.cov["input_distribution"] = dist
    ctx.cov["rule"] = ("random expression trees (depth <= 5) over 3 general and 2 power-of-two stub leaves and int/float/np.float64/Fraction "
                       "constants, the same leaf object possibly occurring several times, sizes 1..5, kept only when every intermediate "
                       "value is exactly representable; non-trivial = distinct expression with a leaf, at least two binary operators and at "
                       "least one operator mixing a constant with a sampler.  Plus all small expressions over four atoms (oracle), the five "
                       "get_generator expressions (object built by the real function, source text, through sample()), wrapped scipy leaves "
                       "(shape, call counts), sample() on scalars/lists/tuples/arrays of every length 0..5 against sizes 0..5")

    # ---- 7. report ----
    witness = None
    if hard:
        e, m, plan, f = min(hard, key=lambda h: size_of(h[0]))
        sm = shrink(world, rng, e, m)
        if sm:
            e, f, plan = sm
        witness = replay_dict(e, m, plan, f[1])
        ctx.violation(f"oracle/expr/{f[0]}", f[1], witness, True)
    if tr["status"] != "ok":
        if tr["status"] == "proof-fails":
            what = ("the definitions generated from tools/sampling.py are no longer equal to the hand model: theorem(s) "
                    + ", ".join(sorted(tr["failed"])) + " of genprops/C19_gen.v fail")
        else:
            what = f"translator ({tr['status']}): {tr.get('message', '')}"
        rep = {"step": "translation", "status": tr["status"], "failed_theorems": tr["failed"],
               "message": tr.get("message"), "coqc_output": tr.get("coqc_output"), "failing_input": witness}
        ctx.violation("proof/C19_gen" if tr["status"] == "proof-fails" else "translator/" + tr["status"], what, rep, witness is not None)
    for idx, tags in mism[:1]:
        e, m, plan, out, rec = allcases[idx]
        model = ctx.coq_eval(HEADER, f"match qcompile {aexp_lit(e)} with Ok s => let (v, st) := qrvs {table_lit(rec)} {lit.nat(m)} s [] in Some (map this v, st) | Err _ => None end")
        ctx.violation(f"correspondence/expr/tags{tags}",
                      f"model and implementation disagree on {show(e)}, size {m} (fields {tags}: 1 outcome, 2 shape, 3 values, 4 draw log)",
                      {"correspondence": "Sampler.check_scase", "expression": show(e), "expr": to_list(e), "size": m,
                       "implementation": {"outcome": out[0], "value": [str(v) for v in (to_fracs(out[1]) or [])] if out[0] == "ok" else out[1:],
                                          "draw_log": rec.log},
                       "model": model, "failing_input": witness}, witness is not None)
    for idx, tags in hmism[:1]:
        v, size, obs = hcases[idx]
        is_sampler = isinstance(v, str)
        ctx.violation(f"correspondence/sample/tags{tags}",
                      f"model and implementation of sample() disagree on sample({v!r}, size={size}) (fields {tags}: 1 outcome, 2 identity, 3 value, 4 draw log)",
                      {"correspondence": "Sampler.check_hcase", "value": repr(v), "size": size, "observed": repr(obs[1:]),
                       "failing_input": witness if is_sampler else None,
                       "oracle": None if is_sampler else sample_oracle(v, size, obs)},
                      (witness is not None) if is_sampler else sample_oracle(v, size, obs) is not None)
    if soft and not mism and not hard:
        e, m, plan, f = soft[0]
        ctx.violation("correspondence/expr/order", f[1], replay_dict(e, m, plan, f[1]), False)
    ctx.assumptions += [
        "operands are SimpleSampler instances or numbers.Real values; leaves return an array of the requested size",
        "float arithmetic is exact on the generated inputs (checked per case with exact rationals before the case is used)",
        "a constant-only expression is evaluated by Python itself (no code of the library runs); x/0 between constants is out of scope",
    ]
    if ctx.tier == "thorough":
        ctx.coqchk("VQP.C19")
        if tr["status"] == "ok":
            rc, out = core.sh(["coqchk", "-silent", "-o"] + GEN_FLAGS + ["VQGP.C19_gen"], 1500, cwd=core.COQ)
            ctx.cov["coqchk_gen"] = {"ok": rc == 0, "tail": out[-800:]}
            if rc != 0:
                ctx.tooling_failure("coqchk-gen", out[-3000:])


def replay(ctx, data):
    r = data["replay"]
    if "failing_input" in r and r["failing_input"]:
        r = r["failing_input"]
    if "expr" not in r:
        print("no expression in this replay file:", data.get("what"))
        return
    e = from_list(r["expr"])
    m = r["size"]
    world = World()
    if "leaf_arrays" in r:
        plan = {int(i): [[Fraction(v) for v in a] for a in arrs] for i, arrs in r["leaf_arrays"].items()}
    else:
        plan = make_plan(ctx.rng, e, m)
    out, rec = world.run_expr(e, m, plan)
    print("expression:", show(e), "size:", m)
    print("implementation:", out[1] if out[0] == "ok" else out[2], "draw log:", rec.log)
    print("oracle:", oracle_expr(e, m, out, rec))
