"""Stand-alone driver of the generator half of C10 (testing aid: `bin/check C10T`; the evidence file is then
named after this id).  The real entry point is c10.py, which proves both props files and calls run_part."""
from props import c10_testset


def run(ctx):
    ctx.prove(props=["C10_testset"])
    c10_testset.run_part(ctx)
    if ctx.tier == "thorough":
        ctx.coqchk("VQP.C10_testset")


def replay(ctx, data):
    c10_testset.replay_part(ctx, data)
